"""Emission server: the Python text that /repo's own compiler produces for one top-level form of a .lpy file.

Run as a child process by pyvc.lpy (so that analysing a form - macro expansion, `Var.intern_unbound` - cannot disturb the
process in which obligations are generated).  Protocol: one JSON request per line on stdin
``{"path": <.lpy file>, "ns": <namespace name>, "line": <a line inside the wanted top-level form>}``, one JSON answer per
line on stdout ``{"text": <python source>, "line": l, "end_line": e, "aliases": {alias: module name}}`` or ``{"error": ..}``.

The pipeline is the one of ``basilisp.lang.compiler._incremental_compile_module`` up to the call of ``compile()``:
reader (with ``runtime.resolve_alias``) -> ``analyze_form`` -> ``gen_py_ast`` -> statementize -> ``PythonASTOptimizer`` ->
``ast.fix_missing_locations``; the module AST that CPython would compile is written out with ``ast.unparse``.
Nothing is edited or dropped here.
"""
import ast
import importlib
import itertools
import json
import sys


def main():
    out = sys.stdout
    sys.stdout = sys.stderr  # anything the compiler prints must not corrupt the protocol
    from basilisp import main as bmain

    bmain.init()
    importlib.import_module("basilisp.core")
    from basilisp.lang import compiler, reader, runtime
    from basilisp.lang import keyword as kw
    from basilisp.lang.compiler import _flatmap_forms, _statementize
    from basilisp.lang.compiler import generator as G
    from basilisp.lang.compiler.generator import gen_py_ast

    LINE, END_LINE = reader.READER_LINE_KW, reader.READER_END_LINE_KW
    forms_by_path: dict = {}
    ctx_by_path: dict = {}

    def forms_of(path, ns):
        if path not in forms_by_path:
            lst = []
            with runtime.ns_bindings(ns):
                for form in _flatmap_forms(reader.read_file(path, resolver=runtime.resolve_alias)):
                    meta = getattr(form, "meta", None)
                    if meta is None:
                        continue
                    l, e = meta.val_at(LINE), meta.val_at(END_LINE)
                    if l is not None and e is not None:
                        lst.append((l, e, form))
            forms_by_path[path] = lst
            ctx_by_path[path] = compiler.CompilerContext(filename=path, opts=runtime.get_compiler_opts())
        return forms_by_path[path], ctx_by_path[path]

    aliases = {alias: mod for mod, alias in G._MODULE_ALIASES.items()}

    for raw in sys.stdin:
        raw = raw.strip()
        if not raw:
            continue
        try:
            req = json.loads(raw)
            path, ns, line = req["path"], req["ns"], int(req["line"])
            if ns != "basilisp.core":
                importlib.import_module(ns.replace("-", "_"))
            forms, ctx = forms_of(path, ns)
            # by name first (the code object of a function arity carries the line of the macro that produced it, not of
            # the form): the form `(defn NAME ..)`, `(defmacro NAME ..)` or `(def NAME ..)` whose munged NAME is the Python name
            hit = []
            pyname = req.get("name")
            if pyname:
                import re as _re

                from basilisp.lang.util import munge

                base = _re.sub(r"__arity(\d+|_rest)$", "", pyname)
                for (l, e, f) in forms:
                    try:
                        head, nm = f.first.name, f.rest.first.name
                    except AttributeError:
                        continue
                    if head in ("defn", "defn-", "defmacro", "def", "defasync") and munge(nm) in (pyname, base):
                        hit.append((l, e, f))
                hit = hit[-1:]  # a later definition of the same name replaces the earlier one in the live module
            if not hit:
                hit = [(l, e, f) for (l, e, f) in forms if l <= line <= e]
            if len(hit) != 1:
                raise LookupError(f"{len(hit)} top-level forms of {path} contain line {line}")
            l, e, form = hit[0]
            with runtime.ns_bindings(ns):
                nodes = gen_py_ast(ctx.generator_context, compiler.analyze_form(ctx.analyzer_context, form))
                body = list(map(_statementize, itertools.chain(nodes.dependencies, [nodes.node])))
                mod = ast.Module(body=body, type_ignores=[])
                mod = ctx.py_ast_optimizer.visit(mod)
                ast.fix_missing_locations(mod)
            ans = {"text": ast.unparse(mod), "line": l, "end_line": e, "aliases": aliases}
        except BaseException as ex:  # noqa: BLE001
            ans = {"error": f"{type(ex).__name__}: {ex}"}
        out.write(json.dumps(ans) + "\n")
        out.flush()


if __name__ == "__main__":
    main()
