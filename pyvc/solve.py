"""Discharging obligations: z3 first, cvc5 on z3's unknown. Models -> Python values."""
from __future__ import annotations

import fractions
import os
import subprocess
import tempfile
import time

import z3

from . import vals as V

Z3_TIMEOUT_MS = int(os.environ.get("PYVC_Z3_TIMEOUT_MS", "20000"))
CVC5_TIMEOUT_MS = int(os.environ.get("PYVC_CVC5_TIMEOUT_MS", "30000"))
CVC5 = "/usr/bin/cvc5"


def _solver(axioms, hyps, timeout_ms):
    s = z3.Solver()
    s.set("timeout", timeout_ms)
    for a in axioms:
        s.add(a)
    for h in hyps:
        s.add(h)
    return s


def run_cvc5(smt2: str, timeout_ms: int) -> str:
    if not os.path.exists(CVC5):
        return "unknown"
    with tempfile.NamedTemporaryFile("w", suffix=".smt2", delete=False) as f:
        f.write("(set-logic ALL)\n" + smt2)
        path = f.name
    try:
        p = subprocess.run(
            [CVC5, f"--tlimit={timeout_ms}", "--strings-exp", "--lang=smt2", path],
            capture_output=True,
            text=True,
            timeout=timeout_ms / 1000 + 10,
        )
        out = p.stdout.strip().splitlines()
        if out and out[0] in ("sat", "unsat"):
            return out[0]
        return "unknown"
    except Exception:  # noqa: BLE001
        return "unknown"
    finally:
        os.unlink(path)


def _tag_facts(hyps):
    """(constant, tag) for hypotheses of the form is(tag, c) with c an uninterpreted Val constant."""
    out = {}
    for h in hyps:
        if z3.is_app(h) and h.num_args() == 1 and h.decl().kind() == z3.Z3_OP_DT_IS:
            c = h.arg(0)
            if z3.is_const(c) and c.decl().kind() == z3.Z3_OP_UNINTERPRETED and c.sort() == V.Val:
                for i in range(V.Val.num_constructors()):
                    if V.Val.recognizer(i).eq(h.decl()):
                        out[c.get_id()] = (c, i)
    return out


def normalize_tags(hyps, goal):
    """Sound preprocessing: a Val constant known to carry tag T is replaced by T(fresh field).

    Returns (hyps', goal', back) where back maps the original constant to its replacement
    (models are completed with ``c == replacement`` so evaluation of original terms works)."""
    facts = _tag_facts(hyps)
    if not facts:
        return hyps, goal, []
    subs = []
    for c, ci in facts.values():
        con = V.Val.constructor(ci)
        if con.arity() == 0:
            rep = con()
        else:
            fld = z3.Const(f"{c.decl().name()}.{V.Val.accessor(ci, 0).name()}", con.domain(0))
            rep = con(fld)
        subs.append((c, rep))
    hyps2 = [z3.simplify(z3.substitute(h, *subs)) for h in hyps]
    hyps2 = [h for h in hyps2 if not z3.is_true(h)]
    goal2 = z3.simplify(z3.substitute(goal, *subs)) if z3.is_expr(goal) else goal
    return hyps2, goal2, subs


def discharge(ob, axioms, use_cvc5=True, both=False, budget_ms=None):
    """Sets ob.verdict in {'proved','refuted','unknown','covered','vacuous'}.
    budget_ms: a single short solver budget (no retry), used after a violation of the same function was confirmed."""
    global _BUDGET
    _BUDGET = budget_ms
    t0 = time.time()
    orig_hyps, orig_goal = ob.hyps, ob.goal
    g0 = ob.goal if z3.is_expr(ob.goal) else z3.BoolVal(bool(ob.goal))
    if any(_has_quant(h) for h in ob.hyps) or _has_quant(g0):
        # keep accessor applications such as a(x) intact: they are the triggers of quantified hypotheses
        hyps, goal, subs = list(ob.hyps), g0, []
    else:
        hyps, goal, subs = normalize_tags(ob.hyps, g0)
    ob = _Shadow(ob, hyps + [c == r for c, r in subs], goal)
    try:
        return _discharge(ob, axioms, use_cvc5, both, t0)
    finally:
        ob.commit()


class _Shadow:
    """Obligation view with preprocessed hypotheses/goal; writes verdict fields back."""

    def __init__(self, ob, hyps, goal):
        object.__setattr__(self, "_ob", ob)
        object.__setattr__(self, "hyps", hyps)
        object.__setattr__(self, "goal", goal)

    def __getattr__(self, n):
        return getattr(self._ob, n)

    def __setattr__(self, n, v):
        if n in ("hyps", "goal"):
            object.__setattr__(self, n, v)
        else:
            setattr(self._ob, n, v)

    def commit(self):
        pass


def _discharge(ob, axioms, use_cvc5, both, t0):
    goal = ob.goal
    quantified = any(_has_quant(h) for h in ob.hyps) or _has_quant(goal)
    if ob.kind == "cover":
        hyps = [h for h in ob.hyps if not _has_quant(h)] if quantified else ob.hyps
        s = _solver(axioms, hyps, Z3_TIMEOUT_MS)
        if not z3.is_true(goal):
            s.add(goal)
        r = s.check()
        ob.backend = "z3" + (" (ground part of the preconditions)" if quantified else "")
        if r == z3.sat:
            ob.verdict = "covered"
        elif r == z3.unsat:
            ob.verdict = "vacuous"
        else:
            ob.verdict = "unknown"
        ob.time_s = time.time() - t0
        return ob
    if ob.kind == "cover-fail":
        ob.verdict = "vacuous"
        ob.backend = "engine"
        return ob
    g = z3.simplify(goal)
    if z3.is_true(g):
        ob.verdict = "proved"
        ob.backend = "simplifier"
        ob.time_s = time.time() - t0
        return ob
    if quantified:
        # quantified hypotheses: E-matching only (no model-based instantiation). unsat is a proof;
        # saturation without contradiction leaves a *candidate* counter-model that only counts once
        # it has been replayed on the real code.
        for budget in ((_BUDGET,) if _BUDGET else (min(Z3_TIMEOUT_MS, 15000), 4 * Z3_TIMEOUT_MS)):
            s = _solver(axioms, ob.hyps, budget)
            s.set("smt.mbqi", False)
            s.set("auto_config", False)
            s.add(z3.Not(goal))
            r = s.check()
            # a verdict must not flip because the machine is busy: a timeout is retried once with a larger budget
            if not (r == z3.unknown and _timed_out(s)):
                break
        if r == z3.unsat:
            ob.verdict = "proved"
            ob.backend = "z3 (e-matching)"
            ob.time_s = time.time() - t0
            return ob
        if r == z3.unknown and "incomplete" in s.reason_unknown():
            try:
                ob.model = s.model()
                ob.verdict = "refuted"
                ob.info["candidate"] = True
                ob.backend = "z3 (e-matching saturated: candidate counter-model)"
                ob.time_s = time.time() - t0
                return ob
            except z3.Z3Exception:
                pass
    if not quantified:
        from .engine import _nonlinear

        if _nonlinear(goal) or any(_nonlinear(h) for h in ob.hyps):
            # products / quotients of symbolic numbers: first the real relaxation with nlsat (pyvc/nra.py) - a proof when
            # it answers unsat, nothing otherwise
            from . import nra

            if nra.prove(list(ob.hyps), goal, min(Z3_TIMEOUT_MS, 20000)):
                ob.verdict = "proved"
                ob.backend = "z3 nlsat (real relaxation)"
                ob.time_s = time.time() - t0
                return ob
    for budget in ((_BUDGET,) if _BUDGET else (Z3_TIMEOUT_MS, 4 * Z3_TIMEOUT_MS)):
        s = _solver(axioms, ob.hyps, budget)
        s.add(z3.Not(goal))
        r = s.check()
        if not (r == z3.unknown and _timed_out(s)) or quantified:
            break
    ob.backend = "z3"
    if r == z3.unsat:
        ob.verdict = "proved"
        if both and use_cvc5:
            r2 = run_cvc5(s.to_smt2(), CVC5_TIMEOUT_MS)
            ob.backend = "z3+cvc5" if r2 == "unsat" else ("z3 (cvc5: %s)" % r2)
            if r2 == "sat":
                ob.verdict = "unknown"
                ob.backend = "z3 unsat / cvc5 sat (disagreement)"
    elif r == z3.sat:
        ob.verdict = "refuted"
        ob.model = s.model()
    else:
        ob.verdict = "unknown"
        if use_cvc5:
            r2 = run_cvc5(s.to_smt2(), CVC5_TIMEOUT_MS)
            if r2 == "unsat":
                ob.verdict = "proved"
                ob.backend = "cvc5"
            elif r2 == "sat":
                # need a model: retry z3 with a different tactic/seed for the model
                s2 = _solver(axioms, ob.hyps, Z3_TIMEOUT_MS)
                s2.set("random_seed", 7)
                s2.add(z3.Not(goal))
                if s2.check() == z3.sat:
                    ob.verdict = "refuted"
                    ob.model = s2.model()
                    ob.backend = "cvc5+z3"
                else:
                    ob.verdict = "refuted"
                    ob.backend = "cvc5 (no model)"
    ob.time_s = time.time() - t0
    return ob


_BUDGET = None


def _timed_out(s):
    try:
        why = s.reason_unknown()
    except z3.Z3Exception:
        return False
    return "timeout" in why or "canceled" in why or "resource" in why


def _has_quant(f):
    from .engine import _has_quant as hq

    return hq(f)


class M:
    """Model accessor used by replay builders."""

    def __init__(self, model, eng=None):
        self.m = model
        self.eng = eng

    def ev(self, term):
        return self.m.eval(term, model_completion=True)

    def py(self, term):
        """Python value of a Val term (scalars); refs come back as ('ref', addr)."""
        t = self.ev(term)
        name = t.decl().name()
        if name == "none":
            return None
        if name == "notimpl":
            return NotImplemented
        a = t.arg(0) if t.num_args() else None
        if name == "bool":
            return z3.is_true(a)
        if name == "int":
            return a.as_long()
        if name == "str":
            return a.as_string()
        if name == "frac":
            a = z3.simplify(a)
            if z3.is_rational_value(a):
                return fractions.Fraction(a.numerator_as_long(), a.denominator_as_long())
            return ("frac", str(a))
        if name == "bytes":
            return ("bytes", str(a))
        if name in ("flt", "dec", "cplx"):
            return (name, a.as_long() if z3.is_int_value(a) else str(a))
        if name == "ref":
            return ("ref", a.as_long() if z3.is_int_value(a) else str(a))
        return str(t)

    def int(self, term):
        t = self.ev(term)
        return t.as_long()

    def bool(self, term):
        return z3.is_true(self.ev(term))

    def str(self, term):
        return self.ev(term).as_string()

    def seq(self, term):
        """Python list of element terms of a z3 Seq-valued term."""
        n = self.ev(z3.Length(term)).as_long()
        return [self.ev(term[i]) for i in range(n)]

    def describe(self, terms: dict):
        out = {}
        for k, t in terms.items():
            try:
                out[k] = repr(self.py(t))
            except Exception as e:  # noqa: BLE001
                out[k] = f"<{e}>"
        return out
