"""Compiled Python regular expressions as z3 regular expressions (for language-inclusion lemmas).

Only the constructs the reader's number patterns use are translated: literals, character classes
(ranges, negation, ``\\d``), concatenation, alternation, groups (capturing or not), ``?``, ``*``,
``+`` and ``{m,n}``.  ``\\d`` is translated as ``[0-9]`` (Python's ``\\d`` on ``str`` also matches
other Unicode decimal digits): the translation *under*-approximates the pattern's language, which is
the sound direction for showing "every string of L is matched by the pattern".
"""
from __future__ import annotations

import z3

try:  # Python >= 3.11
    import re._parser as _sre_parse
    import re._constants as _sre_c
except ImportError:  # pragma: no cover
    import sre_parse as _sre_parse
    import sre_constants as _sre_c


class Untranslatable(Exception):
    pass


RE_SORT = z3.ReSort(z3.StringSort())


def _ch(code: int):
    return z3.Re(z3.StringVal(chr(code)))


def _union(parts):
    parts = list(parts)
    if not parts:
        return z3.Empty(RE_SORT)
    return parts[0] if len(parts) == 1 else z3.Union(*parts)


def _concat(parts):
    parts = list(parts)
    if not parts:
        return z3.Re(z3.StringVal(""))
    return parts[0] if len(parts) == 1 else z3.Concat(*parts)


def _class_item(op, av):
    name = str(op)
    if name == "LITERAL":
        return _ch(av)
    if name == "RANGE":
        return z3.Range(z3.StringVal(chr(av[0])), z3.StringVal(chr(av[1])))
    if name == "CATEGORY":
        if str(av) == "CATEGORY_DIGIT":
            return z3.Range(z3.StringVal("0"), z3.StringVal("9"))
        raise Untranslatable(f"character category {av}")
    raise Untranslatable(f"class item {name}")


def _node(op, av):
    name = str(op)
    if name == "LITERAL":
        return _ch(av)
    if name == "IN":
        items = list(av)
        negate = bool(items) and str(items[0][0]) == "NEGATE"
        if negate:
            items = items[1:]
        u = _union(_class_item(o, a) for o, a in items)
        return z3.Intersect(z3.AllChar(RE_SORT), z3.Complement(u)) if negate else u
    if name in ("MAX_REPEAT", "MIN_REPEAT"):
        lo, hi, sub = av
        r = _seq(sub)
        if hi == _sre_c.MAXREPEAT:
            if lo == 0:
                return z3.Star(r)
            if lo == 1:
                return z3.Plus(r)
            return z3.Concat(z3.Loop(r, lo, lo), z3.Star(r))
        if (lo, hi) == (0, 1):
            return z3.Option(r)
        return z3.Loop(r, lo, hi)
    if name == "SUBPATTERN":
        return _seq(av[-1])
    if name == "BRANCH":
        return _union(_seq(alt) for alt in av[1])
    if name == "ANY":
        return z3.AllChar(RE_SORT)
    raise Untranslatable(f"regex construct {name}")


def _seq(tree):
    return _concat(_node(op, av) for op, av in tree)


def to_z3(pattern):
    """z3 regular expression whose language is contained in the strings ``pattern.fullmatch`` accepts."""
    if pattern.flags & ~__import__("re").UNICODE:
        raise Untranslatable(f"pattern flags {pattern.flags}")
    return _seq(_sre_parse.parse(pattern.pattern, pattern.flags))


def lit(s: str):
    return z3.Re(z3.StringVal(s))


def digits(lo=1, hi=None):
    d = z3.Range(z3.StringVal("0"), z3.StringVal("9"))
    if hi is None:
        return z3.Plus(d) if lo == 1 else (z3.Star(d) if lo == 0 else z3.Concat(z3.Loop(d, lo, lo), z3.Star(d)))
    return z3.Loop(d, lo, hi)


def nonzero_digit():
    return z3.Range(z3.StringVal("1"), z3.StringVal("9"))
