"""Real relaxation of a nonlinear obligation, decided by z3's nlsat procedure for polynomial real arithmetic.

z3's combined solver answers `unknown` on obligations that mix products / quotients of symbolic numbers with
integer-valued terms (`to_int`, integer variables).  This back end forgets that integer terms are integral:

* every integer-sorted variable or uninterpreted application becomes a real constant, integer arithmetic becomes real
  arithmetic, `to_real(e)` becomes e;
* `to_int(e)` becomes a fresh real k with the hypothesis k <= e < k + 1 (what is true of a floor, minus its integrality);
  `is_int(e)` becomes e = k for that k (equivalent, given that k stands for the floor of e);
* every atom that is not arithmetic (type tests, equalities between values) becomes a propositional constant.

The hypotheses only get weaker and the goal's atoms keep their truth value under the intended interpretation, so
`unsat` for hypotheses + negated goal in the relaxation implies `unsat` of the original: a proof.  `sat` or `unknown`
means nothing (the relaxation may have dropped what the proof needs) and the obligation goes on to the other back ends.
"""
import z3

_ARITH = {z3.Z3_OP_ADD, z3.Z3_OP_SUB, z3.Z3_OP_MUL, z3.Z3_OP_UMINUS, z3.Z3_OP_DIV}
_CMP = {z3.Z3_OP_LE, z3.Z3_OP_LT, z3.Z3_OP_GE, z3.Z3_OP_GT}
_BOOL = {z3.Z3_OP_AND, z3.Z3_OP_OR, z3.Z3_OP_NOT, z3.Z3_OP_IMPLIES, z3.Z3_OP_XOR}


class Relax:
    def __init__(self):
        self.cache = {}
        self.side = []
        self.floors = {}
        self.n = 0

    def fresh(self, pfx, sort):
        self.n += 1
        return z3.Const(f"{pfx}!r{self.n}", sort)

    def num(self, e):
        """arithmetic term -> real term"""
        key = ("n", e.get_id())
        if key in self.cache:
            return self.cache[key]
        r = self._num(e)
        self.cache[key] = r
        return r

    def _num(self, e):
        if z3.is_int_value(e):
            return z3.RealVal(e.as_long())
        if z3.is_rational_value(e):
            return e
        if not z3.is_app(e):
            raise ValueError("not an application")
        k = e.decl().kind()
        ch = e.children()
        if k == z3.Z3_OP_TO_REAL:
            return self.num(ch[0])
        if k == z3.Z3_OP_TO_INT:
            return self.floor(self.num(ch[0]))
        if k == z3.Z3_OP_ADD:
            return z3.Sum([self.num(c) for c in ch])
        if k == z3.Z3_OP_MUL:
            r = self.num(ch[0])
            for c in ch[1:]:
                r = r * self.num(c)
            return r
        if k == z3.Z3_OP_SUB:
            r = self.num(ch[0])
            for c in ch[1:]:
                r = r - self.num(c)
            return r
        if k == z3.Z3_OP_UMINUS:
            return -self.num(ch[0])
        if k == z3.Z3_OP_DIV:
            return self.num(ch[0]) / self.num(ch[1])
        if k == z3.Z3_OP_ITE:
            return z3.If(self.boolean(ch[0]), self.num(ch[1]), self.num(ch[2]))
        # integer division / modulo, uninterpreted applications, accessors of values: an unknown real
        return self.fresh("t", z3.RealSort())

    def floor(self, r):
        key = r.get_id()
        if key not in self.floors:
            k = self.fresh("floor", z3.RealSort())
            self.side.append(z3.And(k <= r, r < k + 1))
            self.floors[key] = k
            if not hasattr(self, "floor_args"):
                self.floor_args = {}
            self.floor_args[key] = r
        return self.floors[key]

    def boolean(self, e):
        key = ("b", e.get_id())
        if key in self.cache:
            return self.cache[key]
        r = self._boolean(e)
        self.cache[key] = r
        return r

    def _boolean(self, e):
        if z3.is_true(e) or z3.is_false(e):
            return e
        if not z3.is_app(e):
            return self.fresh("p", z3.BoolSort())
        k = e.decl().kind()
        ch = e.children()
        if k == z3.Z3_OP_AND:
            return z3.And([self.boolean(c) for c in ch])
        if k == z3.Z3_OP_OR:
            return z3.Or([self.boolean(c) for c in ch])
        if k == z3.Z3_OP_NOT:
            return z3.Not(self.boolean(ch[0]))
        if k == z3.Z3_OP_IMPLIES:
            return z3.Implies(self.boolean(ch[0]), self.boolean(ch[1]))
        if k == z3.Z3_OP_ITE:
            return z3.If(self.boolean(ch[0]), self.boolean(ch[1]), self.boolean(ch[2]))
        if k in _CMP:
            a, b = self.num(ch[0]), self.num(ch[1])
            return {z3.Z3_OP_LE: a <= b, z3.Z3_OP_LT: a < b, z3.Z3_OP_GE: a >= b, z3.Z3_OP_GT: a > b}[k]
        if k == z3.Z3_OP_IS_INT:
            a = self.num(ch[0])
            return a == self.floor(a)
        if k in (z3.Z3_OP_EQ, z3.Z3_OP_IFF) and len(ch) == 2:
            if z3.is_bool(ch[0]):
                return self.boolean(ch[0]) == self.boolean(ch[1])
            if z3.is_arith(ch[0]):
                return self.num(ch[0]) == self.num(ch[1])
        if k == z3.Z3_OP_DISTINCT and len(ch) == 2 and z3.is_arith(ch[0]):
            return self.num(ch[0]) != self.num(ch[1])
        return self.fresh("p", z3.BoolSort())


def prove(hyps, goal, timeout_ms=20000):
    """True when hypotheses imply the goal already in the real relaxation (nlsat: unsat)."""
    rx = Relax()
    try:
        fs = [rx.boolean(z3.simplify(h)) for h in hyps] + [z3.Not(rx.boolean(z3.simplify(goal)))]
    except (ValueError, z3.Z3Exception):
        return False
    s = z3.Tactic("qfnra-nlsat").solver()
    s.set("timeout", timeout_ms)
    # floor is a monotone function: equal arguments have equal floors (the relaxation has one unknown per floor term)
    fl = list(rx.floors.items())
    terms = {}
    for f in rx.side + fs:
        pass
    mono = []
    byid = getattr(rx, "floor_args", {})
    for i in range(len(fl)):
        for j in range(len(fl)):
            if i != j:
                ri, rj = byid[fl[i][0]], byid[fl[j][0]]
                mono.append(z3.Implies(ri <= rj, fl[i][1] <= fl[j][1]))
    for f in rx.side + mono + fs:
        s.add(f)
    return s.check() == z3.unsat
