"""Functions written in Lisp (.lpy files of /repo): the verified text is the Python that /repo's compiler emits for them.

On every run the top-level form that defines the function is read from the real .lpy file and taken through the real
reader, analyzer, generator and optimizer (pyvc.lpy_emit, a child process); the module text CPython would compile is
parsed back and the ``def`` whose name is the live function's ``__code__.co_name`` is handed to the symbolic executor
like any other function body.  Names in that body resolve in the live module's globals (the function objects, import
aliases and dispatch maps that the running program uses).

What this drops: the decorators of the emitted ``def`` (``_with_attrs`` attaches metadata, ``_basilisp_fn`` attaches the
arity set; ``_trampoline`` is *not* dropped - the live function object is the trampoline wrapper, whose real source in
runtime.py is executed, and the emitted body is reached through its closure cell) and the ``Var.intern`` statement
that follows the ``def``.  What it assumes: ``compile()`` of the emitted module means what ``ast.unparse`` prints, and
the live module was produced by the same pipeline from the same file (the importer's cache is validated against the
file's mtime and size, C14).
"""
from __future__ import annotations

import ast
import atexit
import json
import os
import subprocess
import sys
import types

from . import source as S

_proc = None
_emitted: dict = {}  # (path, form line) -> answer
_by_line: dict = {}  # (path, line) -> answer
EMISSIONS: list = []  # for the evidence: (path, line, end_line, names)


class LpyFuncSource(S.FuncSource):
    __slots__ = ("lisp_lines", "aliases", "text")

    @property
    def lines(self):
        return self.lisp_lines


def _server():
    global _proc
    if _proc is None or _proc.poll() is not None:
        env = dict(os.environ)
        env["PYTHONPATH"] = os.pathsep.join([S.REPO_SRC] + [p for p in env.get("PYTHONPATH", "").split(os.pathsep) if p])
        _proc = subprocess.Popen(
            [sys.executable, os.path.join(os.path.dirname(__file__), "lpy_emit.py")],
            stdin=subprocess.PIPE, stdout=subprocess.PIPE, stderr=subprocess.DEVNULL, text=True, env=env,
        )
        atexit.register(_stop)
    return _proc


def _stop():
    global _proc
    if _proc is not None:
        try:
            _proc.stdin.close()
            _proc.wait(timeout=5)
        except Exception:  # noqa: BLE001
            _proc.kill()
        _proc = None


def emit_form(path: str, ns: str, line: int, name: str | None = None) -> dict:
    """The emitted module (parsed) for the top-level form of ``path`` that defines ``name`` (or contains ``line``)."""
    if (path, line, name) in _by_line:
        return _by_line[(path, line, name)]
    p = _server()
    p.stdin.write(json.dumps({"path": path, "ns": ns, "line": line, "name": name}) + "\n")
    p.stdin.flush()
    raw = p.stdout.readline()
    if not raw:
        raise S_Unavailable(f"the emission server died on {path}:{line}")
    ans = json.loads(raw)
    if "error" in ans:
        raise S_Unavailable(f"no emitted code for {path}:{line}: {ans['error']}")
    key = (path, ans["line"])
    if key not in _emitted:
        tree = ast.parse(ans["text"])
        for node in ast.walk(tree):
            for child in ast.iter_child_nodes(node):
                child._parent = node  # type: ignore[attr-defined]
        ans["tree"] = tree
        _emitted[key] = ans
        EMISSIONS.append((os.path.relpath(path, S.REPO), ans["line"], ans["end_line"],
                          sorted(n.name for n in ast.walk(tree) if isinstance(n, ast.FunctionDef))))
    _by_line[(path, line, name)] = _emitted[key]
    return _emitted[key]


class S_Unavailable(KeyError):
    pass


def _defs_named(tree, name):
    return [n for n in ast.walk(tree) if isinstance(n, ast.FunctionDef) and n.name == name]


def is_lisp_code(code: types.CodeType) -> bool:
    return code.co_filename.endswith((".lpy", ".cljc")) and os.path.isfile(code.co_filename)


def source_of_lisp_function(fn: types.FunctionType):
    code = fn.__code__
    path = code.co_filename
    module = fn.__module__
    ns = module.replace("_", "-") if module != "basilisp.core" else module
    try:
        ans = emit_form(path, ns, code.co_firstlineno, code.co_name)
    except S_Unavailable:
        return None
    hits = _defs_named(ans["tree"], code.co_name)
    if len(hits) != 1:
        return None  # generated names (anonymous functions) are not stable between two compilations
    src = LpyFuncSource(hits[0], path, module, getattr(fn, "__qualname__", code.co_name), None)
    src.lisp_lines = (ans["line"], ans["end_line"])
    src.aliases = ans["aliases"]
    src.text = ast.unparse(hits[0])
    return src


def find_lisp(module: str, qualname: str):
    """``basilisp.core:rem`` - through the live function object (its code object says which form defined it)."""
    import importlib

    mod = importlib.import_module(module)
    fn = getattr(mod, qualname, None)
    if fn is None:
        raise KeyError(f"{module}:{qualname} not found")
    raw = fn
    while not (isinstance(raw, types.FunctionType) and is_lisp_code(raw.__code__)):
        nxt = getattr(raw, "__wrapped__", None)
        if nxt is None:
            raise KeyError(f"{module}:{qualname} is not a function compiled from a Lisp file")
        raw = nxt
    src = source_of_lisp_function(raw)
    if src is None:
        raise KeyError(f"{module}:{qualname}: no emitted code")
    return src
