"""Locating the real source text of functions in /repo (and the stdlib).

The executor never works from a hand-written copy: every function body it
interprets is the ``ast`` node parsed on this run from the file the live
function object was compiled from (``__code__.co_filename``).
"""
from __future__ import annotations

import ast
import importlib
import os
import sys
import types

REPO = os.environ.get("VERIF_REPO", "/repo")
REPO_SRC = os.path.join(REPO, "src")

_file_cache: dict[str, tuple[ast.Module, str]] = {}


def parse_file(path: str) -> ast.Module:
    if path not in _file_cache:
        with open(path, encoding="utf-8") as f:
            text = f.read()
        tree = ast.parse(text, filename=path)
        for node in ast.walk(tree):
            for child in ast.iter_child_nodes(node):
                child._parent = node  # type: ignore[attr-defined]
        _file_cache[path] = (tree, text)
    return _file_cache[path][0]


def file_text(path: str) -> str:
    parse_file(path)
    return _file_cache[path][1]


def is_repo_file(path: str) -> bool:
    return os.path.realpath(path).startswith(os.path.realpath(REPO_SRC) + os.sep)


class FuncSource:
    """An AST function (FunctionDef or Lambda) together with where it came from."""

    __slots__ = ("node", "path", "module", "qualname", "owner_cls_name")

    def __init__(self, node, path, module, qualname, owner_cls_name=None):
        self.node = node
        self.path = path
        self.module = module
        self.qualname = qualname
        self.owner_cls_name = owner_cls_name

    @property
    def key(self) -> str:
        return f"{self.module}:{self.qualname}"

    @property
    def lines(self):
        n = self.node
        return (n.lineno, getattr(n, "end_lineno", n.lineno))

    def rel_path(self):
        try:
            return os.path.relpath(self.path, REPO)
        except ValueError:
            return self.path


def _first_line(node) -> int:
    decos = getattr(node, "decorator_list", None) or []
    return min([node.lineno] + [d.lineno for d in decos])


_code_index: dict[str, dict] = {}


def _index_file(path: str) -> dict:
    if path in _code_index:
        return _code_index[path]
    tree = parse_file(path)
    idx: dict = {}

    def walk(node, qual, owner):
        for child in ast.iter_child_nodes(node):
            if isinstance(child, (ast.FunctionDef, ast.AsyncFunctionDef)):
                q = f"{qual}.{child.name}" if qual else child.name
                idx.setdefault((child.name, _first_line(child)), (child, q, owner))
                idx.setdefault((child.name, child.lineno), (child, q, owner))
                walk(child, q + ".<locals>", None)
            elif isinstance(child, ast.ClassDef):
                q = f"{qual}.{child.name}" if qual else child.name
                walk(child, q, child.name)
            elif isinstance(child, ast.Lambda):
                idx.setdefault(("<lambda>", child.lineno), (child, (qual or "") + ".<lambda>", owner))
                walk(child, qual, owner)
            else:
                walk(child, qual, owner)

    walk(tree, "", None)
    _code_index[path] = idx
    return idx


def source_of_function(fn: types.FunctionType) -> FuncSource | None:
    """Map a live Python function object to its AST node, by file and first line."""
    code = fn.__code__
    path = code.co_filename
    if not os.path.isfile(path):
        return None
    if path.endswith((".lpy", ".cljc")):
        from . import lpy  # a function written in Lisp: the Python that /repo's compiler emits for it

        return lpy.source_of_lisp_function(fn)
    idx = _index_file(path)
    hit = idx.get((code.co_name, code.co_firstlineno))
    if hit is None:
        return None
    node, qual, owner = hit
    return FuncSource(node, path, fn.__module__, getattr(fn, "__qualname__", qual), owner)


def find_by_qualname(module: str, qualname: str) -> FuncSource:
    """Find ``Class.method`` or ``func`` in the source file of ``module``."""
    mod = importlib.import_module(module)
    path = mod.__file__
    if path.endswith((".lpy", ".cljc")):
        from . import lpy

        return lpy.find_lisp(module, qualname)
    tree = parse_file(path)
    parts = qualname.split(".")
    node: ast.AST = tree
    owner = None
    for i, p in enumerate(parts):
        found = None
        for child in ast.iter_child_nodes(node):
            if isinstance(child, (ast.FunctionDef, ast.ClassDef)) and child.name == p:
                found = child
        if found is None:
            raise KeyError(f"{module}:{qualname} not found in {path}")
        if isinstance(found, ast.ClassDef):
            owner = found.name
        node = found
    if not isinstance(node, ast.FunctionDef):
        raise KeyError(f"{module}:{qualname} is not a function")
    return FuncSource(node, path, module, qualname, owner if len(parts) > 1 else None)


def import_module(name: str):
    if REPO_SRC not in sys.path:
        sys.path.insert(0, REPO_SRC)
    return importlib.import_module(name)
