"""z3 sorts and the universal value sort used by the pyvc symbolic executor.

Every Python value the executor cannot compute concretely is a z3 term of sort
``Val``.  Compound values (objects, tuples, persistent library values) are
``ref(a)`` with the address ``a`` an Int; state-independent facts about an
address (its class, the content of an immutable sequence or map) are
uninterpreted functions of the address, mutable fields live in the heap
(one ``Array Int Val`` per field name, Burstall-Bornat).
"""
from __future__ import annotations

import itertools

import z3

# ---------------------------------------------------------------------------
# The universal value sort

_Val = z3.Datatype("Val")
_Val.declare("none")
_Val.declare("notimpl")  # the NotImplemented singleton
_Val.declare("bool", ("b", z3.BoolSort()))
_Val.declare("int", ("i", z3.IntSort()))
_Val.declare("frac", ("q", z3.RealSort()))  # fractions.Fraction (exact rational)
_Val.declare("flt", ("f", z3.IntSort()))  # float: opaque identity, no FP reasoning
_Val.declare("dec", ("d", z3.IntSort()))  # decimal.Decimal: opaque identity
_Val.declare("cplx", ("c", z3.IntSort()))  # complex: opaque identity
_Val.declare("str", ("s", z3.StringSort()))
_Val.declare("bytes", ("by", z3.SeqSort(z3.IntSort())))  # bytes: sequence of 0..255
_Val.declare("ref", ("a", z3.IntSort()))  # heap object / immutable compound value
Val = _Val.create()

VNone = Val.none
VNotImpl = Val.notimpl
ValSeq = z3.SeqSort(Val)

# state-independent functions of an address
cls_of = z3.Function("cls_of", z3.IntSort(), z3.IntSort())
seq_of = z3.Function("seq_of", z3.IntSort(), ValSeq)  # tuples, pvector, plist ...
isinst = z3.Function("isinst", z3.IntSort(), z3.IntSort(), z3.BoolSort())
# map values (immutables.Map and friends): content as total array + domain
map_of = z3.Function("map_of", z3.IntSort(), z3.ArraySort(Val, Val))
dom_of = z3.Function("dom_of", z3.IntSort(), z3.ArraySort(Val, z3.BoolSort()))

# Python-level relations that Python gives no algebraic guarantees for
py_eq = z3.Function("py_eq", Val, Val, z3.BoolSort())  # a == b on opaque operands
py_ne = z3.Function("py_ne", Val, Val, z3.BoolSort())  # a != b on opaque operands
py_lt = z3.Function("py_lt", Val, Val, z3.BoolSort())
py_hash = z3.Function("py_hash", Val, z3.IntSort())
obj_truthy = z3.Function("obj_truthy", z3.IntSort(), z3.BoolSort())
flt_truthy = z3.Function("flt_truthy", z3.IntSort(), z3.BoolSort())
flt_isnan = z3.Function("flt_isnan", z3.IntSort(), z3.BoolSort())
dec_truthy = z3.Function("dec_truthy", z3.IntSort(), z3.BoolSort())

_fresh = itertools.count()


def fresh_name(prefix: str) -> str:
    return f"{prefix}!{next(_fresh)}"


def fresh_val(prefix: str = "v"):
    return z3.Const(fresh_name(prefix), Val)


def fresh_int(prefix: str = "n"):
    return z3.Int(fresh_name(prefix))


def fresh_bool(prefix: str = "p"):
    return z3.Bool(fresh_name(prefix))


# ---------------------------------------------------------------------------
# recognisers / constructors


def is_none(v):
    return Val.is_none(v)


def is_notimpl(v):
    return Val.is_notimpl(v)


def is_bool(v):
    return Val.is_bool(v)


def is_int(v):
    return Val.is_int(v)


def is_intlike(v):
    return z3.Or(Val.is_int(v), Val.is_bool(v))


def is_frac(v):
    return Val.is_frac(v)


def is_flt(v):
    return Val.is_flt(v)


def is_dec(v):
    return Val.is_dec(v)


def is_cplx(v):
    return Val.is_cplx(v)


def is_str(v):
    return Val.is_str(v)


def is_bytes(v):
    return Val.is_bytes(v)


def is_ref(v):
    return Val.is_ref(v)


def mk_bool(b):
    return Val.bool(b if z3.is_expr(b) else z3.BoolVal(bool(b)))


def mk_int(i):
    return Val.int(i if z3.is_expr(i) else z3.IntVal(int(i)))


def mk_frac(q):
    return Val.frac(q)


def mk_str(s):
    return Val.str(s if z3.is_expr(s) else z3.StringVal(s))


def mk_ref(a):
    return Val.ref(a if z3.is_expr(a) else z3.IntVal(int(a)))


def int_of(v):
    """Integer value of an int-like (int or bool) value."""
    return z3.If(Val.is_bool(v), z3.If(Val.b(v), z3.IntVal(1), z3.IntVal(0)), Val.i(v))


def real_of(v):
    """Rational value of an int, bool or Fraction value."""
    return z3.If(Val.is_frac(v), Val.q(v), z3.ToReal(int_of(v)))


def is_exact_num(v):
    return z3.Or(Val.is_int(v), Val.is_bool(v), Val.is_frac(v))


TAGS = ("none", "notimpl", "bool", "int", "frac", "flt", "dec", "cplx", "str", "bytes", "ref")


def tag_test(tag: str, v):
    return getattr(Val, "is_" + tag)(v)


def simplify(t):
    return z3.simplify(t)


def as_concrete(t):
    """Return (True, python_value) if the Val term is a concrete scalar."""
    t = z3.simplify(t)
    if z3.is_app(t) and t.sort() == Val:
        name = t.decl().name()
        if name == "none":
            return True, None
        if name == "notimpl":
            return True, NotImplemented
        if t.num_args() == 1:
            a = t.arg(0)
            if name == "bool" and (z3.is_true(a) or z3.is_false(a)):
                return True, z3.is_true(a)
            if name == "int" and z3.is_int_value(a):
                return True, a.as_long()
            if name == "str" and z3.is_string_value(a):
                return True, a.as_string()
    return False, None
