"""Attribute load/store on concrete and symbolic objects."""
from __future__ import annotations

import inspect
import types

import z3

from . import vals as V
from .engine import SV, Exc, Raise, Unsupported, BoundMethod, Closure, Model

_SLOT_TYPES = (types.MemberDescriptorType,)


def static_lookup(pycls, name):
    for c in inspect.getmro(pycls):
        if name in c.__dict__:
            return c, c.__dict__[name]
    return None, None


def load_attr(eng, obj, name, st, line=0):
    if isinstance(obj, Exc):
        if name == "args":
            yield st, tuple(obj.args)
            return
        if name == "__class__" and obj.pycls is not None:
            yield st, obj.pycls
            return
        if name in ("with_traceback",):
            yield st, Model("BaseException.with_traceback", lambda e, s, a, k, obj=obj: iter([(s, obj)]))
            return
        if name == "__traceback__":
            yield st, None
            return
        if name in ("message", "msg") and obj.args:
            yield st, obj.args[0]
            return
        if not name.startswith("__"):
            # any other data attribute of an exception object: an opaque value
            yield st, SV(V.fresh_val("exc_" + name))
            return
        raise Unsupported(f"attribute {name} of exception value")
    from .engine import SuperProxy

    if isinstance(obj, SuperProxy):
        recv = obj.obj
        rcls = recv.hint if isinstance(recv, SV) else type(recv)
        if rcls is None or obj.owner not in inspect.getmro(rcls):
            raise Unsupported(f"super().{name}: class of the receiver is not known")
        mro = inspect.getmro(rcls)
        for c in mro[mro.index(obj.owner) + 1:]:
            if name in c.__dict__:
                raw = c.__dict__[name]
                if isinstance(raw, types.FunctionType):
                    cl = eng.closure_of_live(raw)
                    if cl is None:
                        raise Unsupported(f"super().{name} without source")
                    if cl.owner is None:
                        cl.owner = c
                    yield st, BoundMethod(recv, cl)
                    return
                if c is object and name == "__init__":
                    yield st, Model("object.__init__", lambda e, s, a, k: iter([(s, None)]))
                    return
                raise Unsupported(f"super().{name} resolves to a non-function in {c.__name__}")
        raise Unsupported(f"super().{name} not found")
    if isinstance(obj, (Closure, BoundMethod, Model)):
        if name == "__name__":
            yield st, getattr(obj, "name", "f")
            return
        raise Unsupported(f"attribute {name} of function value")
    from .engine import SymDict

    if isinstance(obj, SymDict):
        # a dict display with symbolic keys / values
        if name == "items":
            yield st, Model("dict.items", lambda e, s, a, k, obj=obj: iter([(s, list(obj.items))]))
            return
        raise Unsupported(f"method {name} of a dict display holding symbolic items")
    if not isinstance(obj, SV):
        # concrete python object (module, class, constant ...)
        if isinstance(obj, type) and eng._is_repo_class(obj):
            c, raw = static_lookup(obj, name)
            if isinstance(raw, staticmethod):
                yield st, raw.__func__
                return
            if isinstance(raw, classmethod):
                yield st, BoundMethod(obj, raw.__func__)
                return
        if isinstance(obj, (tuple, list, dict, set, frozenset)) and not eng.all_concrete([obj]):
            m = eng.method_models.get((type(obj), name))
            if m is None:
                raise Unsupported(f"method {name} of {type(obj).__name__} holding symbolic items")
            yield st, BoundMethod(obj, m)
            return
        mm_ = eng.method_models.get((type(obj), name)) if not isinstance(obj, (type, types.ModuleType, dict, list, tuple, set, frozenset, str, bytes)) else None
        if mm_ is not None:
            # a concrete library value (e.g. the wrapped value of a module-level EMPTY constant): use the model of its
            # class on the lifted object, so that symbolic arguments are handled
            sv = SV(eng.lift(obj, st), hint=type(obj))
            if getattr(mm_, "is_property", False):
                yield from mm_.fn(eng, st, [sv], {})
            else:
                yield st, BoundMethod(sv, mm_)
            return
        key = (id(obj), name)
        ov = eng.attr_overrides.get(key) if hasattr(eng, "attr_overrides") else None
        if ov is not None:
            yield st, ov(eng, st)
            return
        try:
            yield st, getattr(obj, name)
        except AttributeError as e:
            yield st, Raise(Exc(AttributeError, e.args))
        return
    # symbolic
    ok, cobj = eng.unlift_const(obj.t)
    if ok and cobj is not None and not isinstance(cobj, (int, str, bool)):
        yield from load_attr(eng, cobj, name, st, line)
        return
    if name == "__class__":
        yield from eng.class_of(obj, st)
        return
    from .engine import TAG_CLASSES

    for st1, pycls in eng.class_of(obj, st):
        o2 = obj
        if obj.hint is None and pycls not in TAG_CLASSES:
            o2 = SV(obj.t, hint=pycls)  # path-local refinement (the class is now part of the path condition)
        yield from _load_attr_cls(eng, o2, pycls, name, st1, line)


def _load_attr_cls(eng, obj: SV, pycls, name, st, line):
    t = obj.t
    import fractions

    if pycls in (int, bool):
        if name == "numerator" or name == "real":
            yield st, SV(V.mk_int(V.int_of(t)))
            return
        if name == "denominator":
            yield st, 1
            return
    if pycls is fractions.Fraction and name in ("numerator", "denominator"):
        n, d = frac_parts(eng, st, V.Val.q(t))
        yield st, SV(V.mk_int(n if name == "numerator" else d))
        return
    m = eng.method_models.get((pycls, name))
    if m is None:
        for c in inspect.getmro(pycls):
            m = eng.method_models.get((c, name))
            if m is not None:
                break
    if m is not None:
        if getattr(m, "is_property", False):
            yield from m.fn(eng, st, [obj], {})
        else:
            yield st, BoundMethod(obj, m)
        return
    if pycls in (int, bool, float, str, bytes, type(None), fractions.Fraction, tuple, list) or not eng._is_repo_class(pycls) and pycls.__module__ in ("builtins", "decimal", "fractions"):
        raise Unsupported(f"attribute {name} of symbolic {pycls.__name__} has no model (line {line})")
    c, raw = static_lookup(pycls, name)
    if raw is None or isinstance(raw, _SLOT_TYPES):
        # instance field
        if not z3.is_true(z3.simplify(V.is_ref(t))):
            st.assume(V.is_ref(t))
        yield st, eng.load_field(st, t, name, pycls)
        return
    if isinstance(raw, property):
        cl = eng.closure_of_live(raw.fget)
        if cl is None:
            raise Unsupported(f"property {pycls.__name__}.{name} without source")
        if cl.owner is None:
            cl.owner = c
        yield from eng.call(cl, [obj], {}, st, line)
        return
    if isinstance(raw, types.FunctionType):
        from .engine import contextmanager_wrapped, CMFactory

        gen = contextmanager_wrapped(raw)
        cl = eng.closure_of_live(gen if gen is not None else raw)
        if cl is None:
            raise Unsupported(f"method {pycls.__name__}.{name} without source")
        if cl.owner is None:
            cl.owner = c
        yield st, BoundMethod(obj, CMFactory(cl) if gen is not None else cl)
        return
    if isinstance(raw, staticmethod):
        yield st, raw.__func__
        return
    if isinstance(raw, classmethod):
        yield st, BoundMethod(pycls, raw.__func__)
        return
    if hasattr(raw, "__get__") and not isinstance(raw, (int, str, tuple, frozenset, type(None))):
        # attrs-generated / other descriptors: treat dataclass-like fields as heap fields
        if "__attrs_attrs__" in pycls.__dict__ or isinstance(raw, _SLOT_TYPES):
            yield st, eng.load_field(st, t, name, pycls)
            return
        raise Unsupported(f"descriptor {pycls.__name__}.{name}")
    yield st, raw


def frac_parts(eng, st, q):
    """numerator/denominator of a Fraction in normal form.

    Facts used (consequences of Fraction's lowest-terms normal form), all linear:
    den >= 1, (q integral <=> den == 1), den == 1 => num == q.
    The non-linear q * den == num is deliberately not asserted (nothing proved needs it).
    """
    key = ("frac_parts", q.get_id())
    if key in st.ghost:
        return st.ghost[key]
    n = V.fresh_int("num")
    d = V.fresh_int("den")
    st.assume(d >= 1, z3.IsInt(q) == (d == 1), z3.Implies(d == 1, z3.ToReal(n) == q))
    st.ghost[key] = (n, d)
    return n, d


def store_attr(eng, obj, name, v, st, line=0):
    if not isinstance(obj, SV):
        raise Unsupported(f"attribute store on concrete object {obj!r}.{name} (line {line})")
    vt = eng.lift(v, st)
    pycls = obj.hint
    if pycls is None:
        done = False
        for st1, pc in eng.class_of(obj, st):
            done = True
            eng.store_field(st1, obj.t, name, eng.lift(v, st1), pc, line)
            yield st1, None
        return
    c, raw = static_lookup(pycls, name)
    if isinstance(raw, property):
        raise Unsupported("property setter")
    eng.store_field(st, obj.t, name, vt, pycls, line)
    yield st, None
