"""pyvc: a forward symbolic executor over the real Python source of /repo.

It interprets ``ast`` nodes of the functions under contract.  Concrete
sub-computations are executed by CPython itself; anything depending on a
contract parameter is a z3 term of sort ``Val`` (see vals.py).  Every branch on
a symbolic condition forks the path; loops need invariants; calls to functions
that have a registered modular contract use the contract, other repo functions
are interpreted from their own source text (``inline``).

The executor produces *obligations* (hypotheses => goal).  It never decides a
property by running the code.
"""
from __future__ import annotations

import ast
import builtins
import inspect
import types
from dataclasses import dataclass, field

import z3

from . import source as S
from .vals import *  # noqa: F401,F403
from . import vals as V


class Unsupported(Exception):
    """The function left the supported Python subset: verdict 'undecided'."""


class SV:
    """A symbolic Python value: z3 term of sort Val (+ optional exact class hint)."""

    __slots__ = ("t", "hint")

    def __init__(self, t, hint=None):
        self.t = t
        self.hint = hint

    def __repr__(self):
        return f"SV({z3.simplify(self.t)})"


class Closure:
    def __init__(self, src, parents=(), cells=None, owner=None, defaults=None, kwdefaults=None, gl=None):
        self.src = src
        self.node = src.node
        self.parents = parents  # frame ids of enclosing function frames
        self.cells = cells or {}  # free variables taken from a live function object
        self.owner = owner  # python class that defines it (for __x mangling / super)
        self.defaults = defaults  # evaluated default values (list) or None => from live fn
        self.kwdefaults = kwdefaults
        self.gl = gl  # module globals dict
        self.name = getattr(self.node, "name", "<lambda>")

    def __repr__(self):
        return f"<Closure {self.src.key}>"


class BoundMethod:
    def __init__(self, self_val, func):
        self.self_val = self_val
        self.func = func

    def __repr__(self):
        return f"<Bound {self.func!r}>"


class Model:
    """A modelled builtin/library callable: fn(engine, st, args, kwargs) -> generator."""

    def __init__(self, name, fn):
        self.name = name
        self.fn = fn

    def __repr__(self):
        return f"<Model {self.name}>"


class Exc:
    """An exception value. pycls is the concrete class when known."""

    def __init__(self, pycls=None, args=(), term=None, note=""):
        self.pycls = pycls
        self.args = list(args)
        self.term = term  # z3 Int address for an exception of unknown class
        self.note = note

    def __repr__(self):
        return f"<Exc {self.pycls.__name__ if self.pycls else 'unknown'} {self.note}>"


class Raise:
    def __init__(self, exc):
        self.exc = exc


class CMFactory:
    """A function decorated with contextlib.contextmanager: calling it makes a GenCM."""

    def __init__(self, closure):
        self.closure = closure


class GenCM:
    """The context manager made by calling a @contextmanager generator function (not started yet)."""

    def __init__(self, closure, args, kwargs):
        self.closure = closure
        self.args = list(args)
        self.kwargs = dict(kwargs)


def contextmanager_wrapped(f):
    """the generator function behind a contextlib.contextmanager helper, else None"""
    w = getattr(f, "__wrapped__", None)
    if isinstance(f, types.FunctionType) and isinstance(w, types.FunctionType) and inspect.isgeneratorfunction(w) and f.__code__.co_filename.endswith("contextlib.py"):
        return w
    return None


class SuperProxy:
    """super() inside a method of ``owner`` with receiver ``obj``."""

    def __init__(self, owner, obj):
        self.owner = owner
        self.obj = obj


@dataclass
class Frame:
    vars: dict
    closure: object  # Closure
    parents: tuple = ()
    globals_decl: set = field(default_factory=set)
    nonlocal_decl: set = field(default_factory=set)

    def copy(self):
        return Frame(dict(self.vars), self.closure, self.parents, set(self.globals_decl), set(self.nonlocal_decl))


class State:
    def __init__(self):
        self.pc: list = []
        self.heap: dict = {}
        self.lists = z3.Const("lists0", z3.ArraySort(z3.IntSort(), V.ValSeq))
        self.sets = z3.Const("sets0", z3.ArraySort(z3.IntSort(), z3.ArraySort(V.Val, z3.BoolSort())))  # mutable set()s
        self.aux: dict = {}  # further z3 state components (e.g. bytearray contents), copied on fork
        self.frames: dict[int, Frame] = {}
        self.globals: dict = {}
        self.ghost: dict = {}
        self.escaped: set = set()
        self.local_objs: dict = {}  # concrete addr -> python class (objects allocated on this path)
        self.calls: list = []  # log of opaque calls: (fn_term, args, kwargs, result|Exc)
        self.locks: list = []
        self.depth = 0
        self.version = 0

    def copy(self):
        s = State.__new__(State)
        s.pc = list(self.pc)
        s.heap = dict(self.heap)
        s.lists = self.lists
        s.sets = self.sets
        s.aux = dict(self.aux)
        s.frames = {k: f.copy() for k, f in self.frames.items()}
        s.globals = dict(self.globals)
        s.ghost = dict(self.ghost)
        s.escaped = set(self.escaped)
        s.local_objs = dict(self.local_objs)
        s.calls = list(self.calls)
        s.locks = list(self.locks)
        s.depth = self.depth
        s.version = self.version
        return s

    def assume(self, *facts):
        for f in facts:
            if f is True or (z3.is_expr(f) and z3.is_true(f)):
                continue
            if z3.is_expr(f) and z3.is_and(f):
                self.assume(*f.children())  # conjuncts separately: ground ones stay usable for pruning
                continue
            self.pc.append(f)

    def field_array(self, name):
        if name not in self.heap:
            self.heap[name] = z3.Const(f"H0.{name}", z3.ArraySort(z3.IntSort(), V.Val))
        return self.heap[name]


@dataclass
class Obligation:
    name: str
    kind: str
    hyps: list
    goal: object
    func: str = ""
    line: int = 0
    info: dict = field(default_factory=dict)
    verdict: str = ""
    backend: str = ""
    time_s: float = 0.0
    model: object = None


_frame_ids = iter(range(1, 10**9))

TAG_CLASSES = {}


def _init_tag_classes():
    import decimal
    import fractions

    TAG_CLASSES.update(
        {
            type(None): lambda v: V.is_none(v),
            bool: lambda v: V.is_bool(v),
            int: lambda v: V.is_intlike(v),
            float: lambda v: V.is_flt(v),
            complex: lambda v: V.is_cplx(v),
            str: lambda v: V.is_str(v),
            bytes: lambda v: V.is_bytes(v),
            fractions.Fraction: lambda v: V.is_frac(v),
            decimal.Decimal: lambda v: V.is_dec(v),
            type(NotImplemented): lambda v: V.is_notimpl(v),
        }
    )


_init_tag_classes()


def tag_class_pairs():
    import decimal
    import fractions

    return [
        ("none", type(None)),
        ("notimpl", type(NotImplemented)),
        ("bool", bool),
        ("int", int),
        ("frac", fractions.Fraction),
        ("flt", float),
        ("dec", decimal.Decimal),
        ("cplx", complex),
        ("str", str),
        ("bytes", bytes),
    ]


def _nonlinear(e, _seen=None):
    """Does the formula multiply or divide two non-constant arithmetic terms?"""
    seen = set() if _seen is None else _seen
    todo = [e]
    while todo:
        x = todo.pop()
        if x.get_id() in seen or not z3.is_app(x):
            continue
        seen.add(x.get_id())
        k = x.decl().kind()
        ch = x.children()
        if k == z3.Z3_OP_MUL and sum(1 for c in ch if not (z3.is_int_value(c) or z3.is_rational_value(c))) >= 2:
            return True
        if k in (z3.Z3_OP_DIV, z3.Z3_OP_IDIV, z3.Z3_OP_MOD, z3.Z3_OP_REM) and not (z3.is_int_value(ch[1]) or z3.is_rational_value(ch[1])):
            return True
        todo.extend(ch)
    return False


class Engine:
    def __init__(self, contracts=None):
        # linear_pruning: path pruning and case enumeration ignore hypotheses with products / quotients of two symbolic
        # numbers (the solver answers `unknown` on them within the pruning budget).  Sound: fewer hypotheses keep more
        # paths alive; obligations always carry the full path condition.
        self.linear_pruning = False
        self.obligations: list[Obligation] = []
        self.class_ids: dict = {}
        self.class_by_id: dict = {}
        self.contracts = contracts or {}  # key "module:qualname" -> Contract (modular use)
        self.local_classes = {}  # stand-in class object -> {"methods": {name: Closure}, "attrs": {name: value}} for `class` statements inside functions
        self.global_overrides: dict = {}  # (module, name) -> value factory
        self.field_types: dict = {}  # (clsname, field) -> predicate(term) -> z3 Bool
        self.models: dict = {}  # id(obj) -> Model
        self.method_models: dict = {}  # (pycls, name) -> Model (self first arg)
        self.assumptions: list[str] = []  # textual log of engine-level assumptions used
        self.cur_func = ""
        self.loop_specs: dict = {}
        self.max_depth = 40
        self.check_timeout_ms = 6000
        self.inlined: set = set()
        self.contract_used: set = set()
        self.opaque_hook = None  # callable(engine, st, fterm, args, kwargs) -> generator or None
        self.with_hook = None
        self.shared_fields: dict = {}  # field -> spec (monitor-owned)
        self.stats = {"paths": 0, "feas_checks": 0}
        self.ignored_calls: set = set()  # ids of callables whose calls (and argument evaluation) are skipped
        self.const_describers: list = []  # fn(eng, st, obj, term): facts about concrete objects that get lifted
        self.closed_world_classes = False  # pack option: attribute access on an object of unknown class considers registered classes only
        from . import models

        models.install(self)

    # ------------------------------------------------------------------ classes
    def class_id(self, cls) -> int:
        if cls not in self.class_ids:
            i = len(self.class_ids) + 1
            self.class_ids[cls] = i
            self.class_by_id[i] = cls
        return self.class_ids[cls]

    def class_axioms(self):
        ax = []
        items = list(self.class_ids.items())
        for d, di in items:
            for c, ci in items:
                try:
                    sub = issubclass(d, c)
                except TypeError:
                    sub = False
                ax.append(V.isinst(z3.IntVal(di), z3.IntVal(ci)) == z3.BoolVal(sub))
        return ax

    # ------------------------------------------------------------------ solver helpers
    def ground_pc(self, st: State):
        """Path condition without quantified facts.  Used only to *prune* paths / enumerate cases:
        dropping hypotheses can only keep more paths alive, never lose one."""
        if self.linear_pruning:
            return [p for p in st.pc if not _has_quant(p) and not _nonlinear(p)]
        return [p for p in st.pc if not _has_quant(p)]

    def check(self, st: State, extra=()):
        self.stats["feas_checks"] += 1
        s = z3.Solver()
        s.set("timeout", self.check_timeout_ms)
        for a in self.class_axioms():
            s.add(a)
        for p in self.ground_pc(st):
            s.add(p)
        for e in extra:
            s.add(e)
        r = s.check()
        return str(r)

    def feasible_tags(self, term, st: State):
        """Tags the value can have under the path condition (model enumeration)."""
        s = z3.Solver()
        s.set("timeout", self.check_timeout_ms)
        for a in self.class_axioms():
            s.add(a)
        for p in self.ground_pc(st):
            s.add(p)
        out = []
        while True:
            self.stats["feas_checks"] += 1
            r = s.check()
            if r == z3.unknown:
                s.set("timeout", 10 * self.check_timeout_ms)  # a loaded machine must not change the case split
                r = s.check()
            if r == z3.unsat:
                break
            if r != z3.sat:
                raise Unsupported(f"cannot enumerate the possible types of {term} (solver: unknown)")
            mv = s.model().eval(term, model_completion=True)
            tag = mv.decl().name()
            out.append(tag)
            s.add(z3.Not(V.tag_test(tag, term)))
        return [t for t in V.TAGS if t in out]

    def feasible(self, st, extra=()):
        return self.check(st, extra) != "unsat"

    def oblige(self, st: State, name: str, goal, kind="assert", line=0, info=None):
        if goal is True:
            goal = z3.BoolVal(True)
        if goal is False:
            goal = z3.BoolVal(False)
        ob = Obligation(name, kind, list(st.pc), goal, self.cur_func, line, info or {})
        ob.info.setdefault("state", st)
        self.obligations.append(ob)
        return ob

    # ------------------------------------------------------------------ lifting
    def lift(self, v, st: State):
        """Python-level value -> z3 Val term."""
        if isinstance(v, SV):
            return v.t
        if v is None:
            return V.VNone
        if v is NotImplemented:
            return V.VNotImpl
        if isinstance(v, bool):
            return V.mk_bool(v)
        if isinstance(v, int):
            return V.mk_int(v)
        if isinstance(v, str):
            return V.mk_str(v)
        if isinstance(v, bytes):
            return V.Val.bytes(self._int_seq(list(v)))
        import fractions

        if isinstance(v, fractions.Fraction):
            return V.mk_frac(z3.RealVal(str(v)))
        if isinstance(v, float):
            t = self._const_obj("flt", v)
            import math as _math

            st.assume(V.flt_isnan(V.Val.f(t)) == _math.isnan(v))  # a float literal knows whether it is NaN
            return t
        if isinstance(v, tuple):
            return self.alloc_seq(st, tuple, [self.lift(x, st) for x in v])
        if isinstance(v, (Closure, BoundMethod, Model, type, types.FunctionType, types.BuiltinFunctionType, types.MethodType)):
            return self._const_obj("obj", v)
        if type(v) is dict and getattr(self, "libcls", None) is not None and all(not isinstance(k_, SV) for k_ in v):
            # a dict created by the code under verification (a display such as {}) that flows into the heap: a new
            # object with exactly these entries; the same Python object always lifts to the same address on a path
            memo = st.ghost.setdefault("lifted_dicts", {})
            if id(v) not in memo:
                from . import lib as _lib

                sv = self.alloc(st, dict)
                a = V.Val.a(sv.t)
                _lib.dict_content(st, a)
                m = z3.K(V.Val, V.VNone)
                d = z3.K(V.Val, z3.BoolVal(False))
                for k_, x_ in v.items():
                    kt = _lib.key_norm(self.lift(k_, st))
                    m, d = z3.Store(m, kt, self.lift(x_, st)), z3.Store(d, kt, True)
                st.aux["pdm"] = z3.Store(st.aux["pdm"], a, m)
                st.aux["pdd"] = z3.Store(st.aux["pdd"], a, d)
                memo = dict(memo)
                memo[id(v)] = (sv.t, v)
                st.ghost["lifted_dicts"] = memo
            return st.ghost["lifted_dicts"][id(v)][0]
        if type(v) is list and any(isinstance(x, SV) for x in v):
            # a Python list of concrete shape built by the code under verification (e.g. list(chain(...))) that flows into
            # the heap: a new list object holding its items; the same list lifts to the same object
            memo = st.ghost.setdefault("lifted_lists", {})
            if id(v) not in memo:
                sv = self.new_list(st, list(v))
                memo = dict(memo)
                memo[id(v)] = (sv.t if isinstance(sv, SV) else self.lift(sv, st), v)
                st.ghost["lifted_lists"] = memo
            return st.ghost["lifted_lists"][id(v)][0]
        t = self._const_obj("obj", v)
        # a concrete object of a class the run knows about: its class is a fact, and packs may describe
        # (part of) its content - e.g. that lmap.EMPTY wraps an empty map
        if type(v) in self.class_ids:
            st.assume(V.cls_of(V.Val.a(t)) == self.class_ids[type(v)])
        for describe in self.const_describers:
            describe(self, st, v, t)
        return t

    def _int_seq(self, ints):
        if not ints:
            return z3.Empty(z3.SeqSort(z3.IntSort()))
        units = [z3.Unit(z3.IntVal(i)) for i in ints]
        return units[0] if len(units) == 1 else z3.Concat(*units)

    _const_table: dict = {}
    _const_rev: dict = {}

    def _const_obj(self, kind, obj):
        """Concrete Python objects that flow into z3 get a stable negative address."""
        try:
            key = (kind, id(obj)) if kind == "obj" else (kind, repr(obj))
        except Exception:
            key = (kind, id(obj))
        tbl = Engine._const_table
        if key not in tbl:
            addr = -(1000 + len(tbl))
            tbl[key] = addr
            Engine._const_rev[addr] = obj
        addr = tbl[key]
        if kind == "flt":
            return V.Val.flt(z3.IntVal(addr))
        return V.mk_ref(addr)

    def unlift_const(self, term):
        """If the Val term is a concrete scalar or a known concrete object, return (True, obj)."""
        ok, val = V.as_concrete(term)
        if ok:
            return True, val
        t = z3.simplify(term)
        if z3.is_app(t) and t.decl().name() in ("ref", "flt") and t.num_args() == 1 and z3.is_int_value(t.arg(0)):
            addr = t.arg(0).as_long()
            if addr in Engine._const_rev:
                return True, Engine._const_rev[addr]
        return False, None

    # ------------------------------------------------------------------ allocation
    def alloc(self, st: State, pycls) -> SV:
        addr = len(st.local_objs) + 1
        st.local_objs[addr] = pycls
        a = z3.IntVal(addr)
        st.assume(V.cls_of(a) == self.class_id(pycls))
        return SV(V.mk_ref(a), hint=pycls)

    def alloc_seq(self, st, pycls, items):
        sv = self.alloc(st, pycls)
        a = V.Val.a(sv.t)
        if items:
            units = [z3.Unit(x) for x in items]
            st.assume(V.seq_of(a) == (units[0] if len(units) == 1 else z3.Concat(*units)))
        else:
            st.assume(V.seq_of(a) == z3.Empty(V.ValSeq))
        return sv.t

    def external_ref_fact(self, st: State, term):
        """Refs that were not allocated on this path have address <= 0 or are escaped locals."""
        a = V.Val.a(term)
        alts = [a <= 0] + [a == k for k in sorted(st.escaped)]
        return z3.Implies(V.is_ref(term), z3.Or(*alts))

    def escape(self, st: State, term):
        t = z3.simplify(term) if z3.is_expr(term) else None
        if t is None:
            return
        if z3.is_app(t) and t.decl().name() == "ref" and z3.is_int_value(t.arg(0)):
            k = t.arg(0).as_long()
            if k > 0:
                st.escaped.add(k)
        else:
            # unknown: a symbolic term can only denote an already escaped local or an external
            pass

    # ------------------------------------------------------------------ heap
    def load_field(self, st: State, obj_term, fname: str, pycls=None):
        a = V.Val.a(obj_term)
        arr = st.field_array(fname)
        if self._shared(fname, pycls) and not self._lock_held(st, obj_term, fname):
            # monitor-owned field read outside its lock: any value another thread may have written
            spec = self.shared_fields[fname]
            v = V.fresh_val(f"racy_{fname}")
            st.assume(self.external_ref_fact(st, v))
            if spec.get("stable"):
                st.assume(spec["stable"](self, st, obj_term, v))
            if spec.get("on_read"):
                spec["on_read"](self, st, obj_term, v)
            res = v
        else:
            res = z3.simplify(z3.Select(arr, a))
            if not self._is_plain_value(res):
                st.assume(self.external_ref_fact(st, res))
        hint = None
        if pycls is not None:
            for c in inspect.getmro(pycls):
                pred = self.field_types.get((c.__name__, fname))
                if pred is not None:
                    r = pred(res)
                    if isinstance(r, tuple):
                        fact, hint = r
                    else:
                        fact = r
                    st.assume(fact)
                    break
        return SV(res, hint=hint)

    def _is_plain_value(self, t):
        return z3.is_app(t) and t.sort() == V.Val and t.decl().name() in V.TAGS and t.decl().name() != "ref"

    def store_field(self, st: State, obj_term, fname: str, val_term, pycls=None, line=0):
        a = V.Val.a(obj_term)
        if self._shared(fname, pycls) and not self._lock_held(st, obj_term, fname):
            spec = self.shared_fields[fname]
            if not spec.get("init_ok") or not self._is_local(st, obj_term):
                self.oblige(st, f"lock discipline: store to {fname} outside its lock", z3.BoolVal(False), "lock", line)
        if pycls is not None:
            for c in inspect.getmro(pycls):
                pred = self.field_types.get((c.__name__, fname))
                if pred is not None:
                    r = pred(val_term)
                    fact = r[0] if isinstance(r, tuple) else r
                    self.oblige(st, f"type invariant of {c.__name__}.{fname} on store", fact, "typeinv", line)
                    break
        if self._shared(fname, pycls) and self.shared_fields[fname].get("on_store") and not self._unpublished(st, obj_term):
            self.shared_fields[fname]["on_store"](self, st, obj_term, fname, val_term)
        st.heap[fname] = z3.Store(st.field_array(fname), a, val_term)
        self.escape(st, val_term)

    def _unpublished(self, st, obj_term):
        return self._is_local(st, obj_term) and z3.simplify(V.Val.a(obj_term)).as_long() not in st.escaped

    def _is_local(self, st, obj_term):
        t = z3.simplify(obj_term)
        return z3.is_app(t) and t.decl().name() == "ref" and z3.is_int_value(t.arg(0)) and t.arg(0).as_long() in st.local_objs

    def _shared(self, fname, pycls):
        spec = self.shared_fields.get(fname)
        if spec is None:
            return False
        cls = spec.get("cls")
        if cls is None:
            return True
        return pycls is not None and issubclass(pycls, cls)

    def _lock_held(self, st, obj_term, fname):
        spec = self.shared_fields[fname]
        if self._is_local(st, obj_term) and z3.simplify(V.Val.a(obj_term)).as_long() not in st.escaped:
            return True  # object under construction, not yet published
        if spec.get("held") is not None:
            return spec["held"](self, st, obj_term)
        for (lk_obj, lk_name) in st.locks:
            if lk_name == spec["lock"] and z3.eq(z3.simplify(lk_obj), z3.simplify(obj_term)):
                return True
        return False

    def havoc_heap(self, st: State, fields=None, keep=()):
        names = list(st.heap.keys()) if fields is None else list(fields)
        st.version += 1
        for n in names:
            if n in keep:
                continue
            st.heap[n] = z3.Const(V.fresh_name(f"H.{n}"), z3.ArraySort(z3.IntSort(), V.Val))

    # ------------------------------------------------------------------ truthiness
    def truthy_term(self, v, st: State):
        """z3 Bool for bool(v); may add assumptions.  For refs uses hint class."""
        if not isinstance(v, SV):
            if isinstance(v, (Closure, BoundMethod, Model)):
                return z3.BoolVal(True)
            if isinstance(v, Exc):
                return z3.BoolVal(True)
            return z3.BoolVal(bool(v))
        t = v.t
        ref_case = V.obj_truthy(V.Val.a(t))
        if v.hint is not None:
            has_bool = any("__bool__" in c.__dict__ or "__len__" in c.__dict__ for c in inspect.getmro(v.hint))
            if not has_bool:
                ref_case = z3.BoolVal(True)
        return z3.If(
            V.is_none(t),
            False,
            z3.If(
                V.is_bool(t),
                V.Val.b(t),
                z3.If(
                    V.is_int(t),
                    V.Val.i(t) != 0,
                    z3.If(
                        V.is_str(t),
                        z3.Length(V.Val.s(t)) > 0,
                        z3.If(
                            V.is_frac(t),
                            V.Val.q(t) != 0,
                            z3.If(
                                V.is_flt(t),
                                V.flt_truthy(V.Val.f(t)),
                                z3.If(
                                    V.is_dec(t),
                                    V.dec_truthy(V.Val.d(t)),
                                    z3.If(
                                        V.is_bytes(t),
                                        z3.Length(V.Val.by(t)) > 0,
                                        z3.If(V.is_ref(t), ref_case, z3.BoolVal(True)),
                                    ),
                                ),
                            ),
                        ),
                    ),
                ),
            ),
        )

    def truthy(self, v, st: State):
        """generator of (st, z3 Bool | python bool)."""
        if not isinstance(v, SV):
            if isinstance(v, (list, tuple, dict, set, frozenset)):
                yield st, bool(v)
                return
            yield st, (True if isinstance(v, (Closure, BoundMethod, Model, Exc)) else bool(v))
            return
        if v.hint is not None:
            for mname in ("__bool__", "__len__"):
                m = self.lookup_method(v.hint, mname)
                if m is not None:
                    for st2, r in self.call(BoundMethod(v, m), [], {}, st):
                        if isinstance(r, Raise):
                            yield st2, r
                        elif mname == "__bool__":
                            yield st2, self.truthy_term(r, st2)
                        else:
                            rt = self.lift(r, st2)
                            yield st2, V.int_of(rt) != 0
                    return
        yield st, self.truthy_term(v, st)

    def branch(self, cond, st: State):
        """Fork on a z3 Bool / python bool. Yields (st, bool)."""
        if isinstance(cond, bool):
            yield st, cond
            return
        c = z3.simplify(cond)
        if z3.is_true(c):
            yield st, True
            return
        if z3.is_false(c):
            yield st, False
            return
        st_t = st.copy()
        st_t.assume(c)
        st_f = st
        st_f.assume(z3.Not(c))
        if self.feasible(st_t):
            yield st_t, True
        if self.feasible(st_f):
            yield st_f, False

    # ------------------------------------------------------------------ names
    def lookup_name(self, name, st: State, fr: int):
        f = st.frames[fr]
        if name in f.globals_decl:
            return self.lookup_global(name, st, f.closure)
        if name in f.vars:
            return f.vars[name]
        for p in f.parents:
            pf = st.frames.get(p)
            if pf is not None and name in pf.vars:
                return pf.vars[name]
        if name in f.closure.cells:
            return f.closure.cells[name]
        return self.lookup_global(name, st, f.closure)

    _MISSING = object()

    def lookup_global(self, name, st, closure):
        mod = closure.src.module
        if (mod, name) in st.globals:
            return st.globals[(mod, name)]
        if (mod, name) in self.global_overrides:
            v = self.global_overrides[(mod, name)](self, st)
            st.globals[(mod, name)] = v
            return v
        gl = closure.gl
        if gl is not None and name in gl:
            return gl[name]
        if hasattr(builtins, name):
            return getattr(builtins, name)
        al = getattr(closure.src, "aliases", None)
        if al and name in al:  # emitted Lisp code: an import alias of the generator that the live module lacks
            import importlib

            return importlib.import_module(al[name])
        raise Unsupported(f"name {name!r} not found in {mod}")

    def store_name(self, name, val, st: State, fr: int):
        f = st.frames[fr]
        if name in f.globals_decl:
            st.globals[(f.closure.src.module, name)] = val
            return
        if name in f.nonlocal_decl:
            for p in f.parents:
                if name in st.frames[p].vars:
                    st.frames[p].vars[name] = val
                    return
        f.vars[name] = val

    # ------------------------------------------------------------------ function values
    def closure_of_live(self, fn) -> Closure | None:
        src = S.source_of_function(fn)
        if src is None:
            return None
        cells = {}
        if fn.__closure__:
            for n, c in zip(fn.__code__.co_freevars, fn.__closure__):
                try:
                    cells[n] = c.cell_contents
                except ValueError:
                    pass
        owner = None
        if src.owner_cls_name:
            mod = inspect.getmodule(fn)
            owner = self._find_owner(mod, fn.__qualname__)
        cl = Closure(src, (), cells, owner, gl=fn.__globals__)
        cl.live = fn
        return cl

    def _find_owner(self, mod, qualname):
        obj = mod
        parts = qualname.split(".")[:-1]
        try:
            for p in parts:
                if p == "<locals>":
                    return None
                obj = getattr(obj, p)
            return obj if isinstance(obj, type) else None
        except AttributeError:
            return None

    def lookup_method(self, pycls, name):
        """Static MRO lookup returning a Closure/Model for a plain function attribute, else None."""
        lc = self.local_classes.get(pycls)
        if lc is not None:
            if (pycls, name) in self.method_models:
                return self.method_models[(pycls, name)]
            return lc["methods"].get(name)
        for c in inspect.getmro(pycls):
            if (c, name) in self.method_models:
                return self.method_models[(c, name)]
            if name in c.__dict__:
                raw = c.__dict__[name]
                if isinstance(raw, types.FunctionType):
                    cl = self.closure_of_live(raw)
                    if cl is None:
                        raise Unsupported(f"no source for {c.__name__}.{name}")
                    if cl.owner is None:
                        cl.owner = c
                    return cl
                if c is object:
                    return None
                return None
        return None

    # ------------------------------------------------------------------ calls
    def call(self, f, args, kwargs, st: State, line=0):
        """Generator of (st, value|Raise)."""
        if isinstance(f, BoundMethod):
            yield from self.call(f.func, [f.self_val] + list(args), kwargs, st, line)
            return
        if isinstance(f, Model):
            yield from f.fn(self, st, list(args), dict(kwargs))
            return
        if isinstance(f, CMFactory):
            yield st, GenCM(f.closure, args, kwargs)
            return
        if isinstance(f, types.FunctionType) and id(f) not in self.models and contextmanager_wrapped(f) is not None:
            cl = self.closure_of_live(contextmanager_wrapped(f))
            if cl is not None and S.is_repo_file(cl.src.path):
                yield st, GenCM(cl, args, kwargs)
                return
        if isinstance(f, Closure):
            yield from self.call_closure(f, args, kwargs, st, line)
            return
        if isinstance(f, SV):
            ok, obj = self.unlift_const(f.t)
            if ok and obj is not None and (callable(obj) or isinstance(obj, (Closure, BoundMethod, Model))):
                yield from self.call(obj, args, kwargs, st, line)
                return
            yield from self.call_opaque(f, args, kwargs, st, line)
            return
        if isinstance(f, (types.MethodType,)):
            yield from self.call(f.__func__, [f.__self__] + list(args), kwargs, st, line)
            return
        m = self.models.get(id(f))
        if m is not None:
            yield from m.fn(self, st, list(args), dict(kwargs))
            return
        import functools as _ft

        if type(f).__name__ == "_lru_cache_wrapper" and hasattr(f, "__wrapped__") and hasattr(f, "cache_info"):
            # functools.lru_cache / cache: the result is the one computed now, or one computed by an earlier call with
            # equal arguments - in whatever state the program was in then.  Without knowledge of the call history that
            # earlier result is arbitrary, so a postcondition that ties the result to the *current* state of a mutable
            # argument cannot be proved for a memoised function.
            st_cached = st.copy()
            stale = V.fresh_val("memoised_result")
            st_cached.assume(self.external_ref_fact(st_cached, stale))
            st_cached.calls.append(("memoised", getattr(f, "__name__", "?")))
            yield st_cached, SV(stale)
            yield from self.call(f.__wrapped__, args, kwargs, st, line)
            return
        if isinstance(f, _ft.partial):
            yield from self.call(f.func, list(f.args) + list(args), {**f.keywords, **kwargs}, st, line)
            return
        if isinstance(f, types.BuiltinFunctionType) and getattr(f, "__self__", None) is not None and not isinstance(f.__self__, types.ModuleType):
            owner = f.__self__ if isinstance(f.__self__, type) else type(f.__self__)
            mm_ = self.method_models.get((owner, f.__name__))
            if mm_ is not None and not self.all_concrete(args, kwargs):
                pre_args = [] if isinstance(f.__self__, type) else [f.__self__]
                yield from mm_.fn(self, st, pre_args + list(args), dict(kwargs))
                return
        if isinstance(f, types.FunctionType):
            if hasattr(f, "registry") and hasattr(f, "dispatch"):
                yield from self.call_singledispatch(f, args, kwargs, st, line)
                return
            cl = self.closure_of_live(f)
            if cl is not None and (S.is_repo_file(cl.src.path) or not self.all_concrete(args, kwargs)):
                yield from self.call_closure(cl, args, kwargs, st, line)
                return
        if isinstance(f, type):
            yield from self.instantiate(f, args, kwargs, st, line)
            return
        if self.all_concrete(args, kwargs) and callable(f):
            try:
                r = f(*args, **kwargs)
            except Exception as e:  # noqa: BLE001
                yield st, Raise(Exc(type(e), e.args, note="native"))
                return
            yield st, r
            return
        raise Unsupported(f"call of {f!r} with symbolic arguments has no model (line {line})")

    def all_concrete(self, args, kwargs=None):
        def conc(x):
            if isinstance(x, (SV, Exc)):
                return False
            if isinstance(x, (Closure, BoundMethod, Model)):
                return False
            if isinstance(x, (list, tuple, set, frozenset)):
                return all(conc(y) for y in x)
            if isinstance(x, dict):
                return all(conc(k) and conc(v) for k, v in x.items())
            return True

        return all(conc(a) for a in args) and all(conc(v) for v in (kwargs or {}).values())

    def call_singledispatch(self, f, args, kwargs, st, line):
        if not args:
            raise Unsupported("singledispatch call without positional argument")
        for st2, pycls in self.class_of(args[0], st):
            impl = f.dispatch(pycls)
            yield from self.call(impl, args, kwargs, st2, line)

    def class_of(self, v, st: State):
        """Fork over the possible Python classes of a value. Yields (st, pycls)."""
        if not isinstance(v, SV):
            if isinstance(v, (Closure, BoundMethod, Model)):
                yield st, types.FunctionType
            else:
                yield st, type(v)
            return
        ok, obj = self.unlift_const(v.t)
        if ok:
            yield st, type(obj)
            return
        if v.hint is not None:
            yield st, v.hint
            return
        if z3.is_app(v.t) and v.t.num_args() == 1:
            # the term is a constructor application of a scalar tag (int(..), frac(..), ...): its class is syntactic
            tm = dict(tag_class_pairs())
            dn = v.t.decl().name()
            if dn in tm and dn != "ref":
                yield st, tm[dn]
                return
        # model enumeration over (tag, class id)
        sol = z3.Solver()
        sol.set("timeout", self.check_timeout_ms)
        for a_ in self.class_axioms():
            sol.add(a_)
        for p_ in self.ground_pc(st):
            sol.add(p_)
        tagmap = dict(tag_class_pairs())
        cases = []
        while True:
            self.stats["feas_checks"] += 1
            r = sol.check()
            if r == z3.unknown:
                sol.set("timeout", 10 * self.check_timeout_ms)  # a loaded machine must not change the case split
                r = sol.check()
                sol.set("timeout", self.check_timeout_ms)
            if r == z3.unsat:
                break
            if r != z3.sat:
                raise Unsupported(f"cannot enumerate the classes of {v} (solver: {r})")
            mdl = sol.model()
            tag = mdl.eval(v.t, model_completion=True).decl().name()
            if tag != "ref":
                cases.append((V.tag_test(tag, v.t), tagmap[tag]))
                sol.add(z3.Not(V.tag_test(tag, v.t)))
                continue
            cid = mdl.eval(V.cls_of(V.Val.a(v.t)), model_completion=True).as_long()
            if cid not in self.class_by_id:
                if self.closed_world_classes and not getattr(sol, "_closed", False):
                    # objects known only through isinstance tests: consider the registered classes only
                    sol.add(z3.Or(z3.Not(V.is_ref(v.t)), *[V.cls_of(V.Val.a(v.t)) == c_ for c_ in self.class_by_id]))
                    sol._closed = True
                    continue
                raise Unsupported(f"class of symbolic object {v} is unconstrained")
            cond = z3.And(V.is_ref(v.t), V.cls_of(V.Val.a(v.t)) == cid)
            cases.append((cond, self.class_by_id[cid]))
            sol.add(z3.Not(cond))
        if len(cases) == 1:
            st.assume(cases[0][0])
            yield st, cases[0][1]
            return
        for cond, pycls in cases:
            st2 = st.copy()
            st2.assume(cond)
            yield st2, pycls

    def instantiate(self, pycls, args, kwargs, st: State, line):
        if isinstance(pycls, type) and issubclass(pycls, BaseException):
            yield st, Exc(pycls, args)
            return
        m = self.models.get(id(pycls))
        if m is not None:
            yield from m.fn(self, st, list(args), dict(kwargs))
            return
        if pycls in self.local_classes:
            obj = self.alloc(st, pycls)
            init = self.lookup_method(pycls, "__init__")
            if init is None:
                yield st, obj
                return
            for st2, r in self.call(init, [obj] + list(args), kwargs, st, line):
                yield st2, (r if isinstance(r, Raise) else obj)
            return
        if pycls is object and not args and not kwargs:
            # a fresh sentinel object: distinct from every value that existed before
            yield st, self.alloc(st, object)
            return
        if self.all_concrete(args, kwargs) and not self._is_repo_class(pycls):
            try:
                yield st, pycls(*args, **kwargs)
            except Exception as e:  # noqa: BLE001
                yield st, Raise(Exc(type(e), e.args, note="native"))
            return
        if not self._is_repo_class(pycls) and isinstance(pycls, type) and issubclass(pycls, ast.AST):
            # ast node constructors are plain records: positional arguments follow _fields, keywords by name
            obj = self.alloc(st, pycls)
            flds = list(pycls._fields)
            if len(args) > len(flds):
                yield st, Raise(Exc(TypeError, (f"{pycls.__name__} constructor takes at most {len(flds)} positional arguments",)))
                return
            given = dict(zip(flds, args))
            given.update(kwargs)
            for n, v in given.items():
                self.store_field(st, obj.t, n, self.lift(v, st), None)
            yield st, obj
            return
        if not self._is_repo_class(pycls):
            raise Unsupported(f"constructor {pycls!r} with symbolic arguments has no model")
        key = f"{pycls.__module__}:{pycls.__qualname__}"
        if key in self.contracts:
            yield from self.contracts[key].apply(self, st, args, kwargs, line)
            return
        if "__attrs_attrs__" in pycls.__dict__:
            yield from self._instantiate_attrs(pycls, args, kwargs, st)
            return
        obj = self.alloc(st, pycls)
        init = self.lookup_method(pycls, "__init__")
        if init is None:
            yield st, obj
            return
        for st2, r in self.call(init, [obj] + list(args), kwargs, st, line):
            if isinstance(r, Raise):
                yield st2, r
            else:
                yield st2, obj

    def _instantiate_attrs(self, pycls, args, kwargs, st):
        import attr

        flds = attr.fields(pycls)
        obj = self.alloc(st, pycls)
        vals = {}
        for i, f in enumerate(flds):
            pname = f.name.lstrip("_")
            if i < len(args):
                vals[f.name] = args[i]
            elif pname in kwargs:
                vals[f.name] = kwargs[pname]
            elif f.default is not attr.NOTHING:
                vals[f.name] = f.default
            else:
                yield st, Raise(Exc(TypeError, (f"missing {pname}",)))
                return
        for n, v in vals.items():
            self.store_field(st, obj.t, n, self.lift(v, st), pycls)
        yield st, obj

    def _is_repo_class(self, pycls):
        mod = getattr(pycls, "__module__", "") or ""
        return mod.startswith("basilisp")

    # -- interpreted call
    def call_closure(self, cl: Closure, args, kwargs, st: State, line=0):
        key = cl.src.key
        con = self.contracts.get(key)
        if con is not None and con.modular and key != self.cur_func_key and not (
            getattr(con, "inline_within", None) and str(self.cur_func_key).startswith(con.inline_within)
        ):
            self.contract_used.add(key)
            yield from con.apply(self, st, args, kwargs, line)
            return
        if st.depth > self.max_depth:
            raise Unsupported(f"call depth exceeded at {key}")
        node = cl.node
        if self.yield_hook is None and any(isinstance(n, (ast.Yield, ast.YieldFrom)) for n in self._own_nodes(node)):
            body = [s for s in node.body if not (isinstance(s, ast.Expr) and isinstance(s.value, ast.Constant))]
            if len(body) == 1 and isinstance(body[0], ast.Expr) and isinstance(body[0].value, ast.YieldFrom):
                # a generator that only delegates: iterating it is iterating the delegate
                self.inlined.add(key)
                fid = next(_frame_ids)
                st.frames[fid] = Frame({}, cl, cl.parents)
                for st1, b in self.bind_args(cl, args, kwargs, st, fid):
                    if isinstance(b, Raise):
                        yield st1, b
                        continue
                    for st2, v in self.eval(body[0].value.value, st1, fid):
                        if isinstance(v, Raise):
                            yield st2, v
                            continue
                        from . import lib

                        yield st2, lib_to_iter(self, st2, v)
                return
            raise Unsupported(f"generator function {key} needs a contract")
        self.inlined.add(key)
        fid = next(_frame_ids)
        frame = Frame({}, cl, cl.parents)
        st.frames[fid] = frame
        for st1, b in self.bind_args(cl, args, kwargs, st, fid):
            if isinstance(b, Raise):
                yield st1, b
                continue
            st1.depth += 1
            if isinstance(node, ast.Lambda):
                for st2, v in self.eval(node.body, st1, fid):
                    st2.depth -= 1
                    yield st2, v
                continue
            for st2, ex in self.exec_block(node.body, st1, fid):
                st2.depth -= 1
                if ex is None:
                    yield st2, None
                elif ex[0] == "return":
                    yield st2, ex[1]
                elif ex[0] == "raise":
                    yield st2, Raise(ex[1])
                else:
                    raise Unsupported(f"bad exit {ex[0]} from function body")

    def _own_nodes(self, fnode):
        """Nodes of a function body excluding nested function bodies."""
        stack = list(fnode.body) if isinstance(fnode.body, list) else [fnode.body]
        while stack:
            n = stack.pop()
            yield n
            for c in ast.iter_child_nodes(n):
                if isinstance(c, (ast.FunctionDef, ast.Lambda, ast.ClassDef, ast.AsyncFunctionDef)):
                    continue
                stack.append(c)

    cur_func_key = ""

    def bind_args(self, cl: Closure, args, kwargs, st: State, fid: int):
        a = cl.node.args
        frame = st.frames[fid]
        kwargs = dict(kwargs)
        pos = list(a.posonlyargs) + list(a.args)
        args = list(args)
        # defaults
        live = getattr(cl, "live", None)
        if cl.defaults is not None:
            defaults = cl.defaults
            kwdefaults = cl.kwdefaults or {}
        elif live is not None:
            defaults = list(live.__defaults__ or ())
            kwdefaults = dict(live.__kwdefaults__ or {})
        else:
            defaults, kwdefaults = [], {}
        ndef = len(defaults)
        for i, p in enumerate(pos):
            if i < len(args):
                if p.arg in kwargs:
                    yield st, Raise(Exc(TypeError, (f"multiple values for {p.arg}",)))
                    return
                frame.vars[p.arg] = args[i]
            elif p.arg in kwargs:
                frame.vars[p.arg] = kwargs.pop(p.arg)
            else:
                j = i - (len(pos) - ndef)
                if j >= 0:
                    frame.vars[p.arg] = defaults[j]
                else:
                    yield st, Raise(Exc(TypeError, (f"{cl.name}() missing argument {p.arg}",)))
                    return
        extra = args[len(pos):]
        if a.vararg is not None:
            frame.vars[a.vararg.arg] = tuple(extra)
        elif extra:
            yield st, Raise(Exc(TypeError, (f"{cl.name}() takes {len(pos)} positional arguments",)))
            return
        for p, d in zip(a.kwonlyargs, a.kw_defaults):
            if p.arg in kwargs:
                frame.vars[p.arg] = kwargs.pop(p.arg)
            elif p.arg in kwdefaults:
                frame.vars[p.arg] = kwdefaults[p.arg]
            else:
                yield st, Raise(Exc(TypeError, (f"missing kw-only {p.arg}",)))
                return
        if a.kwarg is not None:
            frame.vars[a.kwarg.arg] = dict(kwargs)
        elif kwargs:
            yield st, Raise(Exc(TypeError, (f"unexpected keyword {list(kwargs)}",)))
            return
        yield st, None

    # -- opaque (user supplied) callables
    def call_opaque(self, f: SV, args, kwargs, st: State, line=0):
        if self.opaque_hook is not None:
            g = self.opaque_hook(self, st, f, args, kwargs, line)
            if g is not None:
                yield from g
                return
        targs = [self.lift(x, st) for x in args]
        for t in targs:
            self.escape(st, t)
        # normal return
        st_n = st.copy()
        res = V.fresh_val("ret")
        st_n.assume(self.external_ref_fact(st_n, res))
        st_n.calls.append((f.t, targs, dict(kwargs), res))
        # raising
        st_r = st
        e = Exc(None, (), term=V.fresh_int("exc"))
        st_r.calls.append((f.t, targs, dict(kwargs), e))
        self._opaque_effects(st_n)
        self._opaque_effects(st_r)
        yield st_n, SV(res)
        yield st_r, Raise(e)

    opaque_havoc = "shared"  # which heap fields an opaque call may change: 'shared' | 'all' | 'none'

    def _opaque_effects(self, st: State):
        if self.opaque_havoc == "all":
            self.havoc_heap(st)
        elif self.opaque_havoc == "shared":
            self.havoc_heap(st, [f for f in st.heap if f in self.shared_fields and self.shared_fields[f].get("reentrant", True)])

    # ------------------------------------------------------------------ statements
    def exec_block(self, stmts, st: State, fr: int):
        """Generator of (st, exit) with exit None | ('return', v) | ('raise', Exc) | ('break',) | ('continue',)."""
        if not stmts:
            yield st, None
            return
        first, rest = stmts[0], stmts[1:]
        for st1, ex in self.exec_stmt(first, st, fr):
            if ex is not None:
                yield st1, ex
            elif rest:
                yield from self.exec_block(rest, st1, fr)
            else:
                yield st1, None

    def exec_stmt(self, node, st: State, fr: int):
        m = getattr(self, "s_" + type(node).__name__, None)
        if m is None:
            raise Unsupported(f"statement {type(node).__name__} at line {node.lineno}")
        yield from m(node, st, fr)

    def s_Expr(self, node, st, fr):
        if isinstance(node.value, ast.Constant):
            yield st, None
            return
        for st1, v in self.eval(node.value, st, fr):
            yield st1, (("raise", v.exc) if isinstance(v, Raise) else None)

    def s_Pass(self, node, st, fr):
        yield st, None

    def s_Global(self, node, st, fr):
        st.frames[fr].globals_decl.update(node.names)
        yield st, None

    def s_Nonlocal(self, node, st, fr):
        st.frames[fr].nonlocal_decl.update(node.names)
        yield st, None

    def s_Return(self, node, st, fr):
        if node.value is None:
            yield st, ("return", None)
            return
        for st1, v in self.eval(node.value, st, fr):
            yield st1, (("raise", v.exc) if isinstance(v, Raise) else ("return", v))

    def s_Assign(self, node, st, fr):
        for st1, v in self.eval(node.value, st, fr):
            if isinstance(v, Raise):
                yield st1, ("raise", v.exc)
                continue
            yield from self._assign_targets(node.targets, v, st1, fr, node.lineno)

    def _assign_targets(self, targets, v, st, fr, line):
        if not targets:
            yield st, None
            return
        for st1, ex in self.assign(targets[0], v, st, fr, line):
            if ex is not None:
                yield st1, ex
            else:
                yield from self._assign_targets(targets[1:], v, st1, fr, line)

    def s_AnnAssign(self, node, st, fr):
        if node.value is None:
            yield st, None
            return
        for st1, v in self.eval(node.value, st, fr):
            if isinstance(v, Raise):
                yield st1, ("raise", v.exc)
                continue
            yield from self.assign(node.target, v, st1, fr, node.lineno)

    def s_AugAssign(self, node, st, fr):
        load = ast.copy_location(_as_load(node.target), node.target)
        for st1, cur in self.eval(load, st, fr):
            if isinstance(cur, Raise):
                yield st1, ("raise", cur.exc)
                continue
            for st2, rhs in self.eval(node.value, st1, fr):
                if isinstance(rhs, Raise):
                    yield st2, ("raise", rhs.exc)
                    continue
                for st3, res in self.binop(node.op, cur, rhs, st2, node.lineno):
                    if isinstance(res, Raise):
                        yield st3, ("raise", res.exc)
                        continue
                    yield from self.assign(node.target, res, st3, fr, node.lineno)

    def assign(self, target, v, st: State, fr: int, line=0):
        """Generator of (st, exit)."""
        if isinstance(target, ast.Name):
            self.store_name(target.id, v, st, fr)
            yield st, None
        elif isinstance(target, ast.Attribute):
            for st1, obj in self.eval(target.value, st, fr):
                if isinstance(obj, Raise):
                    yield st1, ("raise", obj.exc)
                    continue
                yield from self.store_attr(obj, self._mangle(target.attr, st1, fr), v, st1, line)
        elif isinstance(target, (ast.Tuple, ast.List)) and any(isinstance(e, ast.Starred) for e in target.elts):
            # a, *b, c = <iterable of concrete length on this path>
            stars = [i for i, e in enumerate(target.elts) if isinstance(e, ast.Starred)]
            if len(stars) != 1:
                raise Unsupported("assignment with several starred targets")
            i_star = stars[0]
            n_after = len(target.elts) - i_star - 1
            for st1, items in self.iter_concrete(v, st):
                if isinstance(items, Raise):
                    yield st1, ("raise", items.exc)
                    continue
                if len(items) < len(target.elts) - 1:
                    yield st1, ("raise", Exc(ValueError, ("not enough values to unpack",)))
                    continue
                mid = list(items[i_star:len(items) - n_after])
                # the starred name is bound to a new list
                lst_sv = self.new_list(st1, mid)
                vals = list(items[:i_star]) + [lst_sv] + list(items[len(items) - n_after:] if n_after else [])
                elts = [e.value if isinstance(e, ast.Starred) else e for e in target.elts]
                yield from self._assign_seq(elts, vals, st1, fr, line)
        elif isinstance(target, (ast.Tuple, ast.List)):
            for st1, items in self.unpack(v, len(target.elts), st, line):
                if isinstance(items, Raise):
                    yield st1, ("raise", items.exc)
                    continue
                yield from self._assign_seq(target.elts, items, st1, fr, line)
        elif isinstance(target, ast.Subscript):
            for st1, obj in self.eval(target.value, st, fr):
                if isinstance(obj, Raise):
                    yield st1, ("raise", obj.exc)
                    continue
                for st2, idx in self.eval(target.slice, st1, fr):
                    if isinstance(idx, Raise):
                        yield st2, ("raise", idx.exc)
                        continue
                    for st3, r in self.setitem(obj, idx, v, st2, line):
                        yield st3, (("raise", r.exc) if isinstance(r, Raise) else None)
        else:
            raise Unsupported(f"assignment target {type(target).__name__}")

    def _assign_seq(self, elts, items, st, fr, line):
        if not elts:
            yield st, None
            return
        for st1, ex in self.assign(elts[0], items[0], st, fr, line):
            if ex is not None:
                yield st1, ex
            else:
                yield from self._assign_seq(elts[1:], items[1:], st1, fr, line)

    def unpack(self, v, n, st, line=0):
        if isinstance(v, (tuple, list)):
            if len(v) != n:
                yield st, Raise(Exc(ValueError, ("unpack",)))
            else:
                yield st, list(v)
            return
        if isinstance(v, SV):
            for st1, sq in self.as_seq(v, st):
                if isinstance(sq, Raise):
                    yield st1, sq
                    continue
                ln = z3.Length(sq)
                for st2, ok in self.branch(ln == n, st1):
                    if ok:
                        yield st2, [SV(z3.simplify(sq[i])) for i in range(n)]
                    else:
                        yield st2, Raise(Exc(ValueError, ("unpack",)))
            return
        raise Unsupported(f"unpack of {v!r}")

    def as_seq(self, v: SV, st: State):
        """Sequence content (z3 Seq Val) of a tuple-like symbolic value. Yields (st, seq|Raise)."""
        t = v.t
        if v.hint in (tuple,) or v.hint in self.seq_classes:
            yield st, V.seq_of(V.Val.a(t))
            return
        if v.hint is list:
            yield st, z3.Select(st.lists, V.Val.a(t))
            return
        raise Unsupported(f"sequence view of {v}")

    seq_classes: set = set()

    def s_If(self, node, st, fr):
        for st1, c in self.eval_cond(node.test, st, fr):
            if isinstance(c, Raise):
                yield st1, ("raise", c.exc)
                continue
            for st2, b in self.branch(c, st1):
                yield from self.exec_block(node.body if b else node.orelse, st2, fr)

    def eval_cond(self, test, st, fr):
        """Evaluate an expression for its truth value: yields (st, z3 Bool|bool|Raise)."""
        if isinstance(test, ast.UnaryOp) and isinstance(test.op, ast.Not):
            for st1, c in self.eval_cond(test.operand, st, fr):
                if isinstance(c, Raise):
                    yield st1, c
                elif isinstance(c, bool):
                    yield st1, not c
                else:
                    yield st1, z3.Not(c)
            return
        if isinstance(test, ast.BoolOp):
            yield from self._cond_boolop(test.op, test.values, st, fr)
            return
        for st1, v in self.eval(test, st, fr):
            if isinstance(v, Raise):
                yield st1, v
                continue
            yield from self.truthy(v, st1)

    def _cond_boolop(self, op, values, st, fr):
        first, rest = values[0], values[1:]
        for st1, c in self.eval_cond(first, st, fr):
            if isinstance(c, Raise) or not rest:
                yield st1, c
                continue
            for st2, b in self.branch(c, st1):
                if isinstance(op, ast.And):
                    if b:
                        yield from self._cond_boolop(op, rest, st2, fr)
                    else:
                        yield st2, False
                else:
                    if b:
                        yield st2, True
                    else:
                        yield from self._cond_boolop(op, rest, st2, fr)

    def s_Raise(self, node, st, fr):
        if node.exc is None:
            cur = st.ghost.get("$handling")
            if not cur:
                raise Unsupported("bare raise outside handler")
            yield st, ("raise", cur[-1])
            return
        for st1, v in self.eval(node.exc, st, fr):
            if isinstance(v, Raise):
                yield st1, ("raise", v.exc)
                continue
            if isinstance(v, type) and issubclass(v, BaseException):
                v = Exc(v, ())
            if isinstance(v, BaseException):
                v = Exc(type(v), v.args)
            if not isinstance(v, Exc):
                raise Unsupported(f"raise of non-exception {v!r} (line {node.lineno})")
            yield st1, ("raise", v)

    def s_Assert(self, node, st, fr):
        for st1, c in self.eval_cond(node.test, st, fr):
            if isinstance(c, Raise):
                yield st1, ("raise", c.exc)
                continue
            for st2, b in self.branch(c, st1):
                if b:
                    yield st2, None
                else:
                    yield st2, ("raise", Exc(AssertionError, (), note=f"assert at line {node.lineno}"))

    def s_Delete(self, node, st, fr):
        for t in node.targets:
            if isinstance(t, ast.Name):
                st.frames[fr].vars.pop(t.id, None)
            elif isinstance(t, ast.Subscript) and len(node.targets) == 1:
                for st1, obj in self.eval(t.value, st, fr):
                    if isinstance(obj, Raise):
                        yield st1, ("raise", obj.exc)
                        continue
                    for st2, idx in self.eval(t.slice, st1, fr):
                        if isinstance(idx, Raise):
                            yield st2, ("raise", idx.exc)
                            continue
                        m = self.lookup_method(obj.hint, "__delitem__") if isinstance(obj, SV) and obj.hint else None
                        if m is None:
                            raise Unsupported("del x[i] on unsupported object")
                        for st3, r in self.call(BoundMethod(obj, m), [idx], {}, st2, node.lineno):
                            yield st3, (("raise", r.exc) if isinstance(r, Raise) else None)
                return
            else:
                raise Unsupported("del of non-name")
        yield st, None

    def s_FunctionDef(self, node, st, fr):
        cl = self.make_closure(node, st, fr)
        vals = [cl]
        # decorators: applied bottom-up
        decos = list(reversed(node.decorator_list))

        def apply(i, cur, st_):
            if i == len(decos):
                self.store_name(node.name, cur, st_, fr)
                yield st_, None
                return
            for st1, d in self.eval(decos[i], st_, fr):
                if isinstance(d, Raise):
                    yield st1, ("raise", d.exc)
                    continue
                for st2, r in self.call(d, [cur], {}, st1, node.lineno):
                    if isinstance(r, Raise):
                        yield st2, ("raise", r.exc)
                    else:
                        yield from apply(i + 1, r, st2)

        yield from apply(0, vals[0], st)

    def s_ClassDef(self, node, st, fr):
        """A ``class`` statement inside a function: a new class whose methods are closures over the enclosing frame.
        Supported: no bases or keywords; a body of method definitions, ``__slots__`` and plain constant attributes."""
        if node.bases or node.keywords:
            raise Unsupported(f"local class {node.name} with base classes")
        standin = type(node.name, (), {"__slots__": ()})
        methods, attrs = {}, {}
        for b in node.body:
            if isinstance(b, ast.Expr) and isinstance(b.value, ast.Constant):
                continue
            if isinstance(b, ast.Pass):
                continue
            if isinstance(b, ast.FunctionDef):
                if b.decorator_list:
                    raise Unsupported(f"decorated method in local class {node.name}")
                cl = self.make_closure(b, st, fr)
                cl.owner = standin
                methods[b.name] = cl
                continue
            if isinstance(b, ast.Assign) and len(b.targets) == 1 and isinstance(b.targets[0], ast.Name):
                rs = list(self.eval(b.value, st, fr))
                if len(rs) != 1 or isinstance(rs[0][1], Raise):
                    raise Unsupported(f"class attribute of local class {node.name} forks or raises")
                if b.targets[0].id != "__slots__":
                    attrs[b.targets[0].id] = rs[0][1]
                continue
            raise Unsupported(f"statement {type(b).__name__} in the body of local class {node.name}")
        self.local_classes[standin] = {"methods": methods, "attrs": attrs, "node": node}
        self.class_id(standin)
        decos = list(reversed(node.decorator_list))

        def apply(i, cur, st_):
            if i == len(decos):
                self.store_name(node.name, cur, st_, fr)
                yield st_, None
                return
            for st1, d in self.eval(decos[i], st_, fr):
                if isinstance(d, Raise):
                    yield st1, ("raise", d.exc)
                    continue
                for st2, r in self.call(d, [cur], {}, st1, node.lineno):
                    if isinstance(r, Raise):
                        yield st2, ("raise", r.exc)
                    else:
                        yield from apply(i + 1, r, st2)

        yield from apply(0, standin, st)

    def make_closure(self, node, st, fr):
        f = st.frames[fr]
        outer = f.closure
        qual = f"{outer.src.qualname}.<locals>.{getattr(node, 'name', '<lambda>')}"
        src = S.FuncSource(node, outer.src.path, outer.src.module, qual, None)
        defaults = []
        for d in node.args.defaults:
            rs = list(self.eval(d, st, fr))
            if len(rs) != 1 or isinstance(rs[0][1], Raise):
                raise Unsupported("complex default argument")
            defaults.append(rs[0][1])
        kwdefaults = {}
        for p, d in zip(node.args.kwonlyargs, node.args.kw_defaults):
            if d is not None:
                rs = list(self.eval(d, st, fr))
                kwdefaults[p.arg] = rs[0][1]
        return Closure(src, (fr,) + tuple(f.parents), dict(outer.cells), outer.owner, defaults, kwdefaults, outer.gl)

    def s_Try(self, node, st, fr):
        for st1, ex in self.exec_block(node.body, st, fr):
            if ex is None:
                results = self.exec_block(node.orelse, st1, fr) if node.orelse else [(st1, None)]
                for st2, ex2 in results:
                    yield from self._finally(node, st2, fr, ex2)
            elif ex[0] == "raise":
                yield from self._handlers(node, ex[1], st1, fr)
            else:
                yield from self._finally(node, st1, fr, ex)

    def _finally(self, node, st, fr, ex):
        if not node.finalbody:
            yield st, ex
            return
        for st1, ex2 in self.exec_block(node.finalbody, st, fr):
            yield st1, (ex2 if ex2 is not None else ex)

    def _handlers(self, node, exc: Exc, st, fr, i=0):
        if i == len(node.handlers):
            yield from self._finally(node, st, fr, ("raise", exc))
            return
        h = node.handlers[i]
        if h.type is None:
            conds = [(st, True)]
        else:
            conds = []
            for st1, t in self.eval(h.type, st, fr):
                if isinstance(t, Raise):
                    raise Unsupported("exception in except clause expression")
                conds.extend(self.exc_matches(exc, t, st1))
        for st1, m in conds:
            if m:
                if h.name:
                    self.store_name(h.name, exc, st1, fr)
                st1.ghost["$handling"] = st1.ghost.get("$handling", ()) + (exc,)
                for st2, ex in self.exec_block(h.body, st1, fr):
                    st2.ghost["$handling"] = st2.ghost.get("$handling", ())[:-1]
                    yield from self._finally(node, st2, fr, ex)
            else:
                yield from self._handlers(node, exc, st1, fr, i + 1)

    def exc_matches(self, exc: Exc, t, st):
        """list of (st, bool) - does the exception match class (or tuple of classes) t."""
        classes = t if isinstance(t, tuple) else (t,)
        if exc.pycls is not None:
            return [(st, any(issubclass(exc.pycls, c) for c in classes))]
        cond = z3.Or(*[V.isinst(V.cls_of(exc.term), self.class_id(c)) for c in classes])
        # every exception is a BaseException
        self.class_id(BaseException)
        st.assume(V.isinst(V.cls_of(exc.term), self.class_id(BaseException)))
        out = []
        for st1, b in self.branch(cond, st):
            out.append((st1, b))
        return out

    def s_With(self, node, st, fr):
        if len(node.items) != 1:
            # `with a, b: body` is `with a: with b: body` (Python language reference, 8.5)
            inner = ast.copy_location(ast.With(items=node.items[1:], body=node.body), node)
            outer = ast.copy_location(ast.With(items=node.items[:1], body=[inner]), node)
            yield from self.s_With(outer, st, fr)
            return
        item = node.items[0]
        for st1, cm in self.eval(item.context_expr, st, fr):
            if isinstance(cm, Raise):
                yield st1, ("raise", cm.exc)
                continue
            if isinstance(cm, SV) and cm.hint is not None and (cm.hint, "__enter__") in self.method_models:
                yield from self._with_protocol(node, item, cm, st1, fr)
                continue
            if isinstance(cm, GenCM):
                yield from self._with_generator(node, item, cm, st1, fr)
                continue
            if self.with_hook is None:
                raise Unsupported(f"with statement at line {node.lineno} without a manager model")
            yield from self.with_hook(self, node, item, cm, st1, fr)

    def _with_generator(self, node, item, cm, st, fr):
        """``with <@contextmanager generator>():``  the generator function's real body is executed; its ``yield`` runs
        the with-block (in the frame of the with statement).  A block that ends normally resumes the generator after
        the yield, a block that raises has its exception thrown in at the yield; when the generator then ends normally
        the exception is suppressed, as contextlib does.  return/break/continue out of the block are not modelled."""
        saved = self.yield_hook

        def hook(eng, ynode, s, gfr):
            vals = [(s, None)] if ynode.value is None else list(eng.eval(ynode.value, s, gfr))
            outs = []
            for s1, yv in vals:
                if isinstance(yv, Raise):
                    outs.append((s1, yv))
                    continue
                if item.optional_vars is not None:
                    rs = list(eng.assign(item.optional_vars, yv, s1, fr, node.lineno))
                    if len(rs) != 1 or rs[0][1] is not None:
                        raise Unsupported("with ... as <complex target>")
                    s1 = rs[0][0]
                eng.yield_hook = saved
                try:
                    block = list(eng.exec_block(node.body, s1, fr))
                finally:
                    eng.yield_hook = hook
                for s2, ex in block:
                    if ex is None:
                        outs.append((s2, None))
                    elif ex[0] == "raise":
                        outs.append((s2, Raise(ex[1])))
                    else:
                        # return / break / continue leave the block normally as far as the manager is concerned:
                        # the generator is resumed after its yield, then the jump proceeds
                        s2.ghost[pending_key] = ex
                        outs.append((s2, None))
            yield from outs

        pending_key = ("pending-with-exit", id(node), fr)
        self.yield_hook = hook
        try:
            results = list(self.call_closure(cm.closure, cm.args, cm.kwargs, st, node.lineno))
        finally:
            self.yield_hook = saved
        for s3, r in results:
            pending = s3.ghost.pop(pending_key, None)
            if isinstance(r, Raise):
                yield s3, ("raise", r.exc)
            else:
                yield s3, pending

    def _with_protocol(self, node, item, cm, st, fr):
        """The context-manager protocol for managers whose __enter__/__exit__ are modelled (and never
        suppress exceptions): enter, bind, body, exit on every way out."""
        enter = self.method_models[(cm.hint, "__enter__")]
        exit_ = self.method_models[(cm.hint, "__exit__")]
        for st1, v in enter.fn(self, st, [cm], {}):
            if isinstance(v, Raise):
                yield st1, ("raise", v.exc)
                continue
            if item.optional_vars is not None:
                rs = list(self.assign(item.optional_vars, v, st1, fr, node.lineno))
                if len(rs) != 1 or rs[0][1] is not None:
                    raise Unsupported("with ... as <complex target>")
                st1 = rs[0][0]
            for st2, ex in self.exec_block(node.body, st1, fr):
                for st3, r in exit_.fn(self, st2, [cm, None, None, None], {}):
                    if isinstance(r, Raise):
                        yield st3, ("raise", r.exc)
                    else:
                        yield st3, ex

    def s_While(self, node, st, fr):
        from . import loops

        yield from loops.exec_while(self, node, st, fr)

    def s_For(self, node, st, fr):
        from . import loops

        yield from loops.exec_for(self, node, st, fr)

    def s_Break(self, node, st, fr):
        yield st, ("break",)

    def s_Continue(self, node, st, fr):
        yield st, ("continue",)

    def s_Import(self, node, st, fr):
        import importlib

        for al in node.names:
            mod = importlib.import_module(al.name)
            if al.asname:
                self.store_name(al.asname, mod, st, fr)
            else:
                self.store_name(al.name.split(".")[0], importlib.import_module(al.name.split(".")[0]), st, fr)
        yield st, None

    def s_ImportFrom(self, node, st, fr):
        import importlib

        mod = importlib.import_module(node.module)
        for al in node.names:
            self.store_name(al.asname or al.name, getattr(mod, al.name), st, fr)
        yield st, None

    # ------------------------------------------------------------------ expressions
    def eval(self, node, st: State, fr: int):
        m = getattr(self, "e_" + type(node).__name__, None)
        if m is None:
            raise Unsupported(f"expression {type(node).__name__} at line {getattr(node, 'lineno', '?')}")
        yield from m(node, st, fr)

    def eval_list(self, nodes, st, fr):
        """Evaluate expressions left to right. Yields (st, [values]|Raise)."""
        if not nodes:
            yield st, []
            return
        first, rest = nodes[0], nodes[1:]
        if isinstance(first, ast.Starred):
            for st1, v in self.eval(first.value, st, fr):
                if isinstance(v, Raise):
                    yield st1, v
                    continue
                for st1b, items in self.iter_concrete(v, st1):
                    if isinstance(items, Raise):
                        yield st1b, items
                        continue
                    for st2, vs in self.eval_list(rest, st1b, fr):
                        yield st2, (vs if isinstance(vs, Raise) else list(items) + vs)
            return
        for st1, v in self.eval(first, st, fr):
            if isinstance(v, Raise):
                yield st1, v
                continue
            for st2, vs in self.eval_list(rest, st1, fr):
                yield st2, (vs if isinstance(vs, Raise) else [v] + vs)

    def iter_concrete(self, v, st):
        """Items of an iterable whose length is concrete on this path."""
        if isinstance(v, (tuple, list)):
            yield st, list(v)
            return
        if isinstance(v, dict):  # iterating a dict yields its keys
            yield st, list(v.keys())
            return
        if isinstance(v, SV):
            ok, obj = self.unlift_const(v.t)
            if ok and isinstance(obj, (tuple, list)):
                yield st, list(obj)
                return
            sq = None
            for st1, sq in self.as_seq(v, st):
                n = z3.simplify(z3.Length(sq))
                if z3.is_int_value(n):
                    yield st1, [SV(z3.simplify(sq[i])) for i in range(n.as_long())]
                else:
                    raise Unsupported("star-unpacking a sequence of symbolic length")
            return
        raise Unsupported(f"cannot iterate {v!r} concretely")

    def e_Constant(self, node, st, fr):
        yield st, node.value

    def e_Name(self, node, st, fr):
        yield st, self.lookup_name(node.id, st, fr)

    def e_Tuple(self, node, st, fr):
        for st1, vs in self.eval_list(node.elts, st, fr):
            yield st1, (vs if isinstance(vs, Raise) else tuple(vs))

    def e_List(self, node, st, fr):
        if any(isinstance(e_, ast.Starred) for e_ in node.elts):
            try:
                outs = list(self._list_display_seq(node.elts, st.copy(), fr))
            except Unsupported:
                outs = None
            if outs is not None:
                yield from outs
                return
        for st1, vs in self.eval_list(node.elts, st, fr):
            if isinstance(vs, Raise):
                yield st1, vs
                continue
            yield st1, self.new_list(st1, vs)

    def _list_display_seq(self, elts, st, fr):
        """[a, *xs, b] where xs may have symbolic length: a new list whose content is the concatenation."""
        from . import lib as _lib

        def go(i, st_, parts):
            if i == len(elts):
                sv = self.alloc(st_, list)
                content = z3.Empty(V.ValSeq) if not parts else (parts[0] if len(parts) == 1 else z3.Concat(*parts))
                st_.lists = z3.Store(st_.lists, V.Val.a(sv.t), content)
                yield st_, sv
                return
            e_ = elts[i]
            target = e_.value if isinstance(e_, ast.Starred) else e_
            for st1, v in self.eval(target, st_, fr):
                if isinstance(v, Raise):
                    yield st1, v
                    continue
                if isinstance(e_, ast.Starred):
                    part = _lib.seq_content(self, v, st1)
                else:
                    t = self.lift(v, st1)
                    self.escape(st1, t)
                    part = z3.Unit(t)
                yield from go(i + 1, st1, parts + [part])

        yield from go(0, st, [])

    def new_list(self, st, items):
        sv = self.alloc(st, list)
        a = V.Val.a(sv.t)
        terms = [self.lift(x, st) for x in items]
        for t in terms:
            self.escape(st, t)
        if terms:
            units = [z3.Unit(x) for x in terms]
            content = units[0] if len(units) == 1 else z3.Concat(*units)
        else:
            content = z3.Empty(V.ValSeq)
        st.lists = z3.Store(st.lists, a, content)
        return sv

    def e_Dict(self, node, st, fr):
        if any(k is None for k in node.keys):
            # {**a, **b, k: v}: supported when every unpacked value is a dict of concrete shape on this path
            if not all(k is None for k in node.keys):
                raise Unsupported("dict literal mixing ** unpacking and plain items")
            for st1, ds in self.eval_list(node.values, st, fr):
                if isinstance(ds, Raise):
                    yield st1, ds
                    continue
                if not all(isinstance(d, dict) for d in ds):
                    raise Unsupported("** unpacking of a dict that is not concrete")
                out = {}
                for d in ds:
                    out.update(d)
                yield st1, out
            return
        for st1, ks in self.eval_list(node.keys, st, fr):
            if isinstance(ks, Raise):
                yield st1, ks
                continue
            for st2, vs in self.eval_list(node.values, st1, fr):
                if isinstance(vs, Raise):
                    yield st2, vs
                    continue
                if not self.all_concrete(ks):
                    yield st2, SymDict(list(zip(ks, vs)))
                else:
                    yield st2, dict(zip(ks, vs))

    def e_Lambda(self, node, st, fr):
        yield st, self.make_closure(node, st, fr)

    def e_IfExp(self, node, st, fr):
        for st1, c in self.eval_cond(node.test, st, fr):
            if isinstance(c, Raise):
                yield st1, c
                continue
            for st2, b in self.branch(c, st1):
                yield from self.eval(node.body if b else node.orelse, st2, fr)

    def e_BoolOp(self, node, st, fr):
        yield from self._boolop(node.op, node.values, st, fr)

    def _boolop(self, op, values, st, fr):
        first, rest = values[0], values[1:]
        for st1, v in self.eval(first, st, fr):
            if isinstance(v, Raise) or not rest:
                yield st1, v
                continue
            for st2, c in self.truthy(v, st1):
                if isinstance(c, Raise):
                    yield st2, c
                    continue
                for st3, b in self.branch(c, st2):
                    if isinstance(op, ast.And):
                        if b:
                            yield from self._boolop(op, rest, st3, fr)
                        else:
                            yield st3, v
                    else:
                        if b:
                            yield st3, v
                        else:
                            yield from self._boolop(op, rest, st3, fr)

    def e_UnaryOp(self, node, st, fr):
        if isinstance(node.op, ast.Not):
            for st1, c in self.eval_cond(node.operand, st, fr):
                if isinstance(c, Raise):
                    yield st1, c
                elif isinstance(c, bool):
                    yield st1, not c
                else:
                    yield st1, SV(V.mk_bool(z3.Not(c)))
            return
        for st1, v in self.eval(node.operand, st, fr):
            if isinstance(v, Raise):
                yield st1, v
                continue
            if not isinstance(v, SV):
                try:
                    if isinstance(node.op, ast.USub):
                        yield st1, -v
                    elif isinstance(node.op, ast.UAdd):
                        yield st1, +v
                    else:
                        yield st1, ~v
                except Exception as e:  # noqa: BLE001
                    yield st1, Raise(Exc(type(e), e.args))
                continue
            from . import ops

            yield from ops.unary(self, node.op, v, st1)

    def e_BinOp(self, node, st, fr):
        for st1, l in self.eval(node.left, st, fr):
            if isinstance(l, Raise):
                yield st1, l
                continue
            for st2, r in self.eval(node.right, st1, fr):
                if isinstance(r, Raise):
                    yield st2, r
                    continue
                yield from self.binop(node.op, l, r, st2, node.lineno)

    def binop(self, op, l, r, st, line=0):
        from . import ops

        yield from ops.binop(self, op, l, r, st, line)

    def e_Compare(self, node, st, fr):
        from . import ops

        def go(left, i, st_):
            if i == len(node.ops):
                yield st_, True
                return
            for st1, right in self.eval(node.comparators[i], st_, fr):
                if isinstance(right, Raise):
                    yield st1, right
                    continue
                for st2, res in ops.compare(self, node.ops[i], left, right, st1, node.lineno):
                    if isinstance(res, Raise) or i == len(node.ops) - 1:
                        yield st2, res
                        continue
                    for st3, c in self.truthy(res, st2):
                        if isinstance(c, Raise):
                            yield st3, c
                            continue
                        for st4, b in self.branch(c, st3):
                            if b:
                                yield from go(right, i + 1, st4)
                            else:
                                yield st4, res

        for st1, left in self.eval(node.left, st, fr):
            if isinstance(left, Raise):
                yield st1, left
                continue
            yield from go(left, 0, st1)

    def e_Attribute(self, node, st, fr):
        for st1, obj in self.eval(node.value, st, fr):
            if isinstance(obj, Raise):
                yield st1, obj
                continue
            yield from self.load_attr(obj, self._mangle(node.attr, st1, fr), st1, node.lineno)

    def _mangle(self, attr, st, fr):
        if attr.startswith("__") and not attr.endswith("__"):
            owner = st.frames[fr].closure.owner
            if owner is not None:
                return f"_{owner.__name__.lstrip('_')}{attr}"
        return attr

    def load_attr(self, obj, name, st: State, line=0):
        from . import attrs

        yield from attrs.load_attr(self, obj, name, st, line)

    def store_attr(self, obj, name, v, st, line=0):
        from . import attrs

        yield from attrs.store_attr(self, obj, name, v, st, line)

    def e_Subscript(self, node, st, fr):
        from . import ops

        for st1, obj in self.eval(node.value, st, fr):
            if isinstance(obj, Raise):
                yield st1, obj
                continue
            for st2, idx in self.eval(node.slice, st1, fr):
                if isinstance(idx, Raise):
                    yield st2, idx
                    continue
                yield from ops.getitem(self, obj, idx, st2, node.lineno)

    def setitem(self, obj, idx, v, st, line=0):
        from . import ops

        yield from ops.setitem(self, obj, idx, v, st, line)

    def e_Slice(self, node, st, fr):
        parts = [node.lower, node.upper, node.step]
        vals = []

        def go(i, st_):
            if i == 3:
                yield st_, SliceVal(*vals[-3:])
                return
            if parts[i] is None:
                vals.append(None)
                yield from go(i + 1, st_)
                vals.pop()
                return
            for st1, v in self.eval(parts[i], st_, fr):
                if isinstance(v, Raise):
                    yield st1, v
                    continue
                vals.append(v)
                yield from go(i + 1, st1)
                vals.pop()

        yield from go(0, st)

    def e_Call(self, node, st, fr):
        if isinstance(node.func, ast.Name) and node.func.id == "super" and not node.args and not node.keywords and "super" not in st.frames[fr].vars:
            # zero-argument super(): attribute lookup continues after the defining class in the MRO of self's class
            frame = st.frames[fr]
            owner = getattr(frame.closure, "owner", None)
            a = frame.closure.src.node.args
            first = (a.posonlyargs + a.args)[0].arg if (a.posonlyargs + a.args) else None
            if owner is None or first is None or first not in frame.vars:
                raise Unsupported("super() outside a method")
            yield st, SuperProxy(owner, frame.vars[first])
            return
        for st1, f in self.eval(node.func, st, fr):
            if isinstance(f, Raise):
                yield st1, f
                continue
            if id(getattr(f, "__func__", f)) in self.ignored_calls or id(f) in self.ignored_calls:
                # e.g. logger.debug(...): neither the call nor the evaluation of its (string-formatting)
                # arguments is modelled; the pack lists this as an assumption
                yield st1, None
                continue
            for st2, args in self.eval_list(node.args, st1, fr):
                if isinstance(args, Raise):
                    yield st2, args
                    continue
                yield from self._eval_kwargs(node, f, args, st2, fr)

    def _eval_kwargs(self, node, f, args, st, fr, i=0, acc=None):
        acc = acc or {}
        if i == len(node.keywords):
            yield from self.call(f, args, acc, st, node.lineno)
            return
        kw = node.keywords[i]
        for st1, v in self.eval(kw.value, st, fr):
            if isinstance(v, Raise):
                yield st1, v
                continue
            acc2 = dict(acc)
            if kw.arg is None:
                if isinstance(v, dict):
                    acc2.update(v)
                else:
                    raise Unsupported("** of non-concrete dict")
            else:
                acc2[kw.arg] = v
            yield from self._eval_kwargs(node, f, args, st1, fr, i + 1, acc2)

    def e_JoinedStr(self, node, st, fr):
        from . import ops

        yield from ops.joined_str(self, node, st, fr)

    def e_NamedExpr(self, node, st, fr):
        for st1, v in self.eval(node.value, st, fr):
            if not isinstance(v, Raise):
                self.store_name(node.target.id, v, st1, fr)
            yield st1, v

    def e_ListComp(self, node, st, fr):
        from . import loops

        yield from loops.comprehension(self, node, st, fr, "list")

    def e_GeneratorExp(self, node, st, fr):
        from . import loops

        yield from loops.comprehension(self, node, st, fr, "gen")

    def e_SetComp(self, node, st, fr):
        from . import loops

        yield from loops.comprehension(self, node, st, fr, "set")

    def e_DictComp(self, node, st, fr):
        from . import loops

        yield from loops.comprehension(self, node, st, fr, "dict")

    yield_hook = None  # generator-based context managers: callable(engine, node, st, fr) -> generator

    def e_Yield(self, node, st, fr):
        if self.yield_hook is None:
            raise Unsupported("yield outside a modelled context manager")
        yield from self.yield_hook(self, node, st, fr)

    def e_Starred(self, node, st, fr):
        raise Unsupported("starred expression outside call/list")

    def e_Set(self, node, st, fr):
        for st1, vs in self.eval_list(node.elts, st, fr):
            if isinstance(vs, Raise):
                yield st1, vs
            elif self.all_concrete(vs):
                yield st1, set(vs)
            else:
                raise Unsupported("set literal with symbolic members")


class SliceVal:
    def __init__(self, lower, upper, step):
        self.lower, self.upper, self.step = lower, upper, step


class SymDict:
    """A dict literal with symbolic keys/values, concrete shape (used as argument to hash_map etc.)."""

    def __init__(self, items):
        self.items = items


def _as_load(target):
    import copy

    t = copy.copy(target)
    t.ctx = ast.Load()
    return t


_quant_cache: dict = {}


def _has_quant(f, depth=6):
    if not z3.is_expr(f):
        return False
    k = f.get_id()
    if k in _quant_cache:
        return _quant_cache[k]
    if z3.is_quantifier(f):
        r = True
    elif depth == 0 or not z3.is_app(f):
        r = False
    else:
        r = any(_has_quant(c, depth - 1) for c in f.children())
    _quant_cache[k] = r
    return r


def lib_to_iter(eng, st, v):
    """Iterable value -> list of items (concrete shape) or SymIter."""
    from .loops import _as_symiter, _concrete_items

    items = _concrete_items(eng, v, st)
    if items is not None:
        return items
    return _as_symiter(eng, v, st)
