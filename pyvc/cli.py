"""./check <id> [--tier quick|thorough] [--replay file] [--only substr] [--jobs n]"""
import argparse
import glob
import os
import subprocess
import sys


def packs():
    """Property id -> pack module, discovered from contracts/cNN_*.py."""
    here = os.path.dirname(os.path.dirname(os.path.abspath(__file__)))
    out = {}
    for p in sorted(glob.glob(os.path.join(here, "contracts", "c[0-9][0-9]_*.py"))):
        name = os.path.basename(p)[:-3]
        out["C" + name[1:3]] = "contracts." + name
    return out


def main():
    ap = argparse.ArgumentParser()
    ap.add_argument("prop")
    ap.add_argument("--tier", default=os.environ.get("VERIF_TIER", "quick"))
    ap.add_argument("--replay")
    ap.add_argument("--only")
    ap.add_argument("--jobs", type=int)
    a = ap.parse_args()
    here = os.path.dirname(os.path.dirname(os.path.abspath(__file__)))
    sys.path.insert(0, here)
    if a.replay:
        env = dict(os.environ)
        env["PYTHONPATH"] = "/repo/src" + os.pathsep + env.get("PYTHONPATH", "")
        p = subprocess.run([sys.executable, a.replay], capture_output=True, text=True, timeout=300, env=env)
        print(p.stdout, end="")
        print(p.stderr, end="", file=sys.stderr)
        if "REPRODUCED" in p.stdout:
            print(f"VIOLATION property={a.prop} replay={a.replay}")
            sys.exit(1)
        sys.exit(0)
    PACKS = packs()
    if a.prop not in PACKS:
        print(f"unknown property {a.prop}")
        sys.exit(3)
    tier = a.tier if a.tier in ("quick", "thorough") else "quick"
    from pyvc.run import run_pack

    try:
        code = run_pack(PACKS[a.prop], tier=tier, jobs=a.jobs, only=a.only)
    except Exception:  # noqa: BLE001
        import traceback

        traceback.print_exc()
        code = 3
    sys.exit(code)


if __name__ == "__main__":
    main()
