"""Bitwise operators on mathematical integers (Python ints are unbounded two's complement)."""
from __future__ import annotations

import z3

from . import vals as V
from .engine import SV, Unsupported


def _concrete(t):
    t = z3.simplify(t)
    return t.as_long() if z3.is_int_value(t) else None


def bitop(eng, opn, x, y, st):
    cx, cy = _concrete(x), _concrete(y)
    if opn == "and":
        # x & (2**k - 1) == x mod 2**k for every Python int x (infinite two's complement)
        for a, c in ((x, cy), (y, cx)):
            if c is not None and c >= 0 and (c & (c + 1)) == 0:
                yield st, SV(V.mk_int(a % (c + 1)))
                return
    if opn == "lshift" and cy is not None and cy >= 0:
        yield st, SV(V.mk_int(x * (2 ** cy)))
        return
    if opn == "rshift" and cy is not None and cy >= 0:
        yield st, SV(V.mk_int(z3.ToInt(z3.ToReal(x) / (2 ** cy))))
        return
    raise Unsupported(f"bit operation {opn} on symbolic integers")
