"""Loops: concrete unrolling or the invariant rule (entry / preservation / exit)."""
from __future__ import annotations

import ast

import z3

from . import vals as V
from .engine import SV, Exc, Raise, Unsupported, State, BoundMethod


LOOP_REGION = 1_000_000  # addresses of objects created by earlier iterations of an allocating loop


class LoopSpec:
    def __init__(self, invariant=None, frame=None, decreases=None, lists=True, note="", ghost=(), single_iteration=None, sets=False, allocates=False, aux=(), unroll=None):
        # unroll=N: no invariant; the loop is executed iteration by iteration (every path must leave it within N
        # iterations, otherwise the function is `unsupported` - an unwinding assertion, so nothing is cut off silently).
        # Complete for loops whose trip count is fixed by concrete structure on the path (e.g. the number of arguments).
        self.unroll = unroll
        self.aux = tuple(aux)  # names of library-state arrays in st.aux (deque histories, map mutations ...) the loop may change
        # allocates: the body creates objects.  Objects created by earlier iterations then live in an address region of
        # their own (>= LOOP_REGION), apart from everything that existed when the loop was entered (addresses <= 0 or
        # small positive locals); fields outside `frame` may be written on such new objects only: at loop head every
        # field array agrees with the entry state on all older addresses, and each iteration must preserve that.
        self.allocates = allocates
        self.sets = sets  # the loop may change the content of Python set objects
        self.ghost = tuple(ghost)  # ghost variables (z3 terms in st.ghost) the loop may change
        self.single_iteration = single_iteration  # text: obligation that the back edge is unreachable
        self.invariant = invariant  # callable(LoopCtx) -> z3 Bool (or list of (name, Bool))
        self.frame = frame  # heap fields the loop may modify (None => syntactic stores)
        self.decreases = decreases  # callable(LoopCtx) -> z3 Int
        self.lists = lists
        self.note = note


class SymIter:
    """An iterable with symbolic content: a z3 Seq of Val items.

    ``wrap`` turns an element term into the executor value bound to the target.
    """

    def __init__(self, seq, wrap=None, label="iter", length=None, item=None):
        self.seq = seq
        self.wrap = wrap or (lambda eng, st, t: SV(t))
        self.label = label
        self._length = length
        self._item = item
        self.on_exhaust = None  # an Exc the for statement raises when the items are used up (e.g. a failing unpack of a short last batch)

    @property
    def length(self):
        return self._length if self._length is not None else z3.Length(self.seq)

    def item(self, eng, st, i):
        """Executor value of the i-th item (i a z3 Int, 0 <= i < length assumed by the caller)."""
        if self._item is not None:
            return self._item(eng, st, i)
        t = z3.simplify(self.seq[i])
        st.assume(eng.external_ref_fact(st, t))
        return self.wrap(eng, st, t)

    @staticmethod
    def zip(iters):
        n = iters[0].length
        for it in iters[1:]:
            n = z3.If(it.length < n, it.length, n)
        return SymIter(None, label="zip", length=n, item=lambda eng, st, i: tuple(it.item(eng, st, i) for it in iters))


class LoopCtx:
    def __init__(self, eng, st: State, fr: int, entry=None, index=None, seq=None, it=None):
        self.it = it
        self.eng = eng
        self.st = st
        self.fr = fr
        self.entry = entry
        self.i = index
        self.seq = seq
        self.assuming = False

    def __getitem__(self, name):
        v = self.eng.lookup_name(name, self.st, self.fr)
        return self.eng.lift(v, self.st)

    def has(self, name):
        return name in self.st.frames[self.fr].vars

    def value(self, name):
        return self.eng.lookup_name(name, self.st, self.fr)

    def field(self, obj_term, fname):
        return z3.Select(self.st.field_array(fname), V.Val.a(obj_term))

    def list_of(self, obj_term):
        return z3.Select(self.st.lists, V.Val.a(obj_term))

    def set_of(self, obj_term):
        return z3.Select(self.st.sets, V.Val.a(obj_term))

    def ghost(self, name):
        return self.st.ghost.get(name)


def loop_ordinal(fnode, node):
    loops = sorted(
        (n for n in ast.walk(fnode) if isinstance(n, (ast.While, ast.For))),
        key=lambda n: (n.lineno, n.col_offset),
    )
    for i, n in enumerate(loops):
        if n is node:
            return i
    raise KeyError


def find_spec(eng, st, fr, node):
    cl = st.frames[fr].closure
    try:
        o = loop_ordinal(cl.node, node)
    except KeyError:
        return None
    return eng.loop_specs.get((cl.src.key, o))


def assigned_names(nodes):
    names = set()
    for top in nodes:
        for n in ast.walk(top):
            if isinstance(n, ast.Name) and isinstance(n.ctx, (ast.Store, ast.Del)):
                names.add(n.id)
            elif isinstance(n, ast.ExceptHandler) and n.name:
                names.add(n.name)
    return names


def stored_fields(nodes):
    fields = set()
    for top in nodes:
        for n in ast.walk(top):
            if isinstance(n, ast.Attribute) and isinstance(n.ctx, ast.Store):
                fields.add(n.attr)
    return fields


def _inv_obligations(eng, spec, ctx, st, what, line):
    ctx.assuming = False  # the invariant is a goal here: universal clauses may be stated for an arbitrary constant
    r = spec.invariant(ctx) if spec.invariant else z3.BoolVal(True)
    if isinstance(r, (list, tuple)):
        for nm, g in r:
            eng.oblige(st, f"loop@{line} invariant [{nm}] {what}", g, "loop-" + what.split()[0], line)
    else:
        eng.oblige(st, f"loop@{line} invariant {what}", r, "loop-" + what.split()[0], line)


def _inv_assume(spec, ctx, st):
    ctx.assuming = True  # the invariant is a hypothesis here: universal clauses have to be quantified
    r = spec.invariant(ctx) if spec.invariant else z3.BoolVal(True)
    if isinstance(r, (list, tuple)):
        for _, g in r:
            st.assume(g)
    else:
        st.assume(r)


def _havoc(eng, spec, body_nodes, st: State, fr: int, extra_names=()):
    for n in sorted(assigned_names(body_nodes) | set(extra_names)):
        f = st.frames[fr]
        if n in f.globals_decl:
            continue
        if n in f.vars or True:
            cur = f.vars.get(n)
            hint = cur.hint if isinstance(cur, SV) else None
            v = V.fresh_val(f"loop_{n}")
            if spec.allocates:
                st.assume(z3.Implies(V.is_ref(v), z3.Or(V.Val.a(v) <= 0, V.Val.a(v) >= LOOP_REGION, *[V.Val.a(v) == k_ for k_ in sorted(st.escaped)])))
            else:
                st.assume(eng.external_ref_fact(st, v))
            f.vars[n] = SV(v, hint=hint)
    frame = set(spec.frame) if spec.frame is not None else stored_fields(body_nodes)
    eng.havoc_heap(st, [f for f in frame])
    for f in frame:
        st.field_array(f)
    if spec.allocates:
        mark = len(st.local_objs)
        k = z3.Int(V.fresh_name("k"))
        for f in list(st.heap.keys()):
            if f in frame:
                continue
            old = st.heap[f]
            new = z3.Const(V.fresh_name(f"H.{f}"), old.sort())
            st.assume(z3.ForAll([k], z3.Implies(k <= mark, z3.Select(new, k) == z3.Select(old, k)), patterns=[z3.Select(new, k)]))
            st.heap[f] = new
    if spec.lists:
        st.lists = z3.Const(V.fresh_name("lists"), st.lists.sort())
    if spec.sets:
        st.sets = z3.Const(V.fresh_name("sets"), st.sets.sort())
    for nm in spec.aux:
        if nm in st.aux and z3.is_expr(st.aux[nm]):
            st.aux[nm] = z3.Const(V.fresh_name(nm), st.aux[nm].sort())
    for g in spec.ghost:
        cur = st.ghost.get(g)
        if cur is not None and z3.is_expr(cur):
            st.ghost[g] = z3.Const(V.fresh_name(f"ghost_{g}"), cur.sort())
        elif isinstance(cur, list):
            st.ghost[g] = []
    return frame


def _frame_obligations(eng, st_end: State, head: State, frame, line, lists_free, sets_free=False, allocates=False, aux_free=()):
    for f, arr in st_end.heap.items():
        if f in frame:
            continue
        base = head.heap.get(f)
        if base is None:
            base = z3.Const(f"H0.{f}", arr.sort())
        if not z3.eq(arr, base):
            if allocates:
                k = z3.Int(V.fresh_name("older_addr"))
                eng.oblige(st_end, f"loop@{line} frame: field {f} of every object older than this iteration is unchanged by it",
                           z3.Implies(k <= len(head.local_objs), z3.Select(arr, k) == z3.Select(base, k)), "loop-frame", line)
            else:
                eng.oblige(st_end, f"loop@{line} frame: field {f} unchanged by an iteration", arr == base, "loop-frame", line)
    for nm, arr in st_end.aux.items():
        if nm in aux_free or not z3.is_expr(arr):
            continue
        base = head.aux.get(nm)
        if base is not None and z3.is_expr(base) and not z3.eq(arr, base):
            eng.oblige(st_end, f"loop@{line} frame: library state {nm} unchanged by an iteration", arr == base, "loop-frame", line)
    if not lists_free and not z3.eq(st_end.lists, head.lists):
        eng.oblige(st_end, f"loop@{line} frame: list contents unchanged", st_end.lists == head.lists, "loop-frame", line)
    if not sets_free and not z3.eq(st_end.sets, head.sets):
        eng.oblige(st_end, f"loop@{line} frame: set contents unchanged", st_end.sets == head.sets, "loop-frame", line)


def exec_while(eng, node, st: State, fr: int):
    spec = find_spec(eng, st, fr, node)
    line = node.lineno
    if spec is None:
        yield from _unroll_while(eng, node, st, fr, 0)
        return
    if spec.unroll:
        yield from _unroll_while(eng, node, st, fr, 0, bound=spec.unroll)
        return
    entry = st.copy()
    _inv_obligations(eng, spec, LoopCtx(eng, st, fr, entry=LoopCtx(eng, entry, fr)), st, "holds on entry", line)
    frame = _havoc(eng, spec, node.body + [node.test], st, fr)
    entry_ctx = LoopCtx(eng, entry, fr)
    _inv_assume(spec, LoopCtx(eng, st, fr, entry=entry_ctx), st)
    head = st.copy()
    dec0 = spec.decreases(LoopCtx(eng, head, fr, entry=entry_ctx)) if spec.decreases else None
    for st1, c in eng.eval_cond(node.test, st, fr):
        if isinstance(c, Raise):
            yield st1, ("raise", c.exc)
            continue
        for st2, b in eng.branch(c, st1):
            if not b:
                if node.orelse:
                    yield from eng.exec_block(node.orelse, st2, fr)
                else:
                    yield st2, None
                continue
            for st3, ex in eng.exec_block(node.body, st2, fr):
                if ex is None or ex[0] == "continue":
                    ctx = LoopCtx(eng, st3, fr, entry=entry_ctx)
                    if spec.single_iteration:
                        eng.oblige(st3, f"loop@{line}: {spec.single_iteration}", z3.BoolVal(False), "loop-termination", line)
                    _inv_obligations(eng, spec, ctx, st3, "preserved", line)
                    _frame_obligations(eng, st3, head, frame, line, spec.lists, spec.sets, spec.allocates, spec.aux)
                    if dec0 is not None:
                        d1 = spec.decreases(ctx)
                        eng.oblige(st3, f"loop@{line} variant decreases and is bounded", z3.And(d1 < dec0, dec0 >= 0), "loop-variant", line)
                elif ex[0] == "break":
                    yield st3, None
                else:
                    yield st3, ex


def _unroll_while(eng, node, st, fr, k, bound=None):
    if bound is not None and k > bound:
        raise Unsupported(f"while loop at line {node.lineno} does not end within the {bound} unrollings its contract allows (unwinding assertion)")
    if k > 64:
        raise Unsupported(f"while loop at line {node.lineno} needs an invariant")
    for st1, c in eng.eval_cond(node.test, st, fr):
        if isinstance(c, Raise):
            yield st1, ("raise", c.exc)
            continue
        if not isinstance(c, bool):
            c2 = z3.simplify(c)
            if z3.is_true(c2):
                c = True
            elif z3.is_false(c2):
                c = False
            else:
                # a symbolic condition without an invariant: unroll with a case split, up to a small bound (the loop must
                # then be bounded by something concrete on the path, e.g. a counter - otherwise it needs an invariant)
                if k > 8 and bound is None:
                    raise Unsupported(f"while loop at line {node.lineno} has a symbolic condition, no invariant, and does not end within 8 unrollings")
                for st1b, b in eng.branch(c2, st1):
                    if not b:
                        if node.orelse:
                            yield from eng.exec_block(node.orelse, st1b, fr)
                        else:
                            yield st1b, None
                        continue
                    for st2, ex in eng.exec_block(node.body, st1b, fr):
                        if ex is None or ex[0] == "continue":
                            yield from _unroll_while(eng, node, st2, fr, k + 1, bound)
                        elif ex[0] == "break":
                            yield st2, None
                        else:
                            yield st2, ex
                continue
        if not c:
            if node.orelse:
                yield from eng.exec_block(node.orelse, st1, fr)
            else:
                yield st1, None
            continue
        if isinstance(node.test, ast.Constant) and bound is None:
            raise Unsupported(f"`while True` loop at line {node.lineno} needs an invariant")
        for st2, ex in eng.exec_block(node.body, st1, fr):
            if ex is None or ex[0] == "continue":
                yield from _unroll_while(eng, node, st2, fr, k + 1, bound)
            elif ex[0] == "break":
                yield st2, None
            else:
                yield st2, ex


def exec_for(eng, node, st: State, fr: int):
    line = node.lineno
    for st1, it in eng.eval(node.iter, st, fr):
        if isinstance(it, Raise):
            yield st1, ("raise", it.exc)
            continue
        items = _concrete_items(eng, it, st1)
        if items is not None:
            yield from _unroll_for(eng, node, items, 0, st1, fr)
            continue
        sym = _as_symiter(eng, it, st1)
        spec = find_spec(eng, st1, fr, node)
        if spec is None:
            raise Unsupported(f"for loop at line {line} over a symbolic sequence needs an invariant")
        yield from _for_invariant(eng, node, sym, spec, st1, fr)


def _concrete_items(eng, it, st):
    if isinstance(it, (tuple, list)):
        return list(it)
    if isinstance(it, dict):
        return list(it.keys())
    if isinstance(it, (range, set, frozenset, str)):
        return list(it)
    if isinstance(it, SymIter):
        n = z3.simplify(it.length)
        if z3.is_int_value(n):
            return [it.item(eng, st, z3.IntVal(i)) for i in range(n.as_long())]
        return None
    if isinstance(it, SV):
        ok, obj = eng.unlift_const(it.t)
        if ok and isinstance(obj, (tuple, list, dict, range, set, frozenset)):
            return list(obj)
        if it.hint in (tuple, list):
            sq = V.seq_of(V.Val.a(it.t)) if it.hint is tuple else z3.Select(st.lists, V.Val.a(it.t))
            n = z3.simplify(z3.Length(sq))
            if z3.is_int_value(n):
                return [SV(z3.simplify(sq[i])) for i in range(n.as_long())]
            # the path condition may fix the length (e.g. after `a, b = xs`)
            for k in range(0, 5):
                if eng.feasible(st, [n == k]) and not eng.feasible(st, [n != k]):
                    return [SV(z3.simplify(sq[i])) for i in range(k)]
        return None
    if hasattr(it, "__iter__") and eng.all_concrete([it]) and not isinstance(it, (SymIter,)):
        try:
            return list(it)
        except Exception:  # noqa: BLE001
            return None
    return None


def _as_symiter(eng, it, st):
    if isinstance(it, SymIter):
        return it
    if isinstance(it, SV) and it.hint is tuple:
        return SymIter(V.seq_of(V.Val.a(it.t)))
    if isinstance(it, SV) and it.hint is list:
        return SymIter(z3.Select(st.lists, V.Val.a(it.t)))
    if isinstance(it, SV) and it.hint in eng.seq_classes:
        return SymIter(V.seq_of(V.Val.a(it.t)))
    if isinstance(it, SV) and it.hint is not None:
        m = eng.lookup_method(it.hint, "__iter__")
        from .engine import Model

        if m is not None:
            rs = list(eng.call(BoundMethod(it, m), [], {}, st))
            if len(rs) == 1 and isinstance(rs[0][1], SymIter):
                return rs[0][1]
    if isinstance(it, SV) and it.hint is None:
        cases = list(eng.class_of(it, st.copy()))
        if len(cases) == 1 and cases[0][1] not in (int, bool, float, str, type(None)):
            pycls = cases[0][1]
            st.assume(V.is_ref(it.t), V.cls_of(V.Val.a(it.t)) == eng.class_id(pycls))
            return _as_symiter(eng, SV(it.t, hint=pycls), st)
    raise Unsupported(f"iteration over {it!r}")


def _unroll_for(eng, node, items, k, st, fr):
    if k == len(items):
        if node.orelse:
            yield from eng.exec_block(node.orelse, st, fr)
        else:
            yield st, None
        return
    for st1, ex in eng.assign(node.target, items[k], st, fr, node.lineno):
        if ex is not None:
            yield st1, ex
            continue
        for st2, ex2 in eng.exec_block(node.body, st1, fr):
            if ex2 is None or ex2[0] == "continue":
                yield from _unroll_for(eng, node, items, k + 1, st2, fr)
            elif ex2[0] == "break":
                yield st2, None
            else:
                yield st2, ex2


def _for_invariant(eng, node, sym: SymIter, spec: LoopSpec, st: State, fr: int):
    line = node.lineno
    n = sym.length
    entry = st.copy()
    entry_ctx = LoopCtx(eng, entry, fr, index=z3.IntVal(0), seq=sym.seq, it=sym)
    _inv_obligations(eng, spec, LoopCtx(eng, st, fr, entry=entry_ctx, index=z3.IntVal(0), seq=sym.seq, it=sym), st, "holds on entry", line)
    tnames = assigned_names([node.target])
    frame = _havoc(eng, spec, node.body, st, fr, extra_names=())
    i = V.fresh_int("i")
    st.assume(i >= 0, i <= n)
    _inv_assume(spec, LoopCtx(eng, st, fr, entry=entry_ctx, index=i, seq=sym.seq, it=sym), st)
    head = st.copy()
    for st2, more in eng.branch(i < n, st):
        if not more:
            if getattr(sym, "on_exhaust", None) is not None:
                yield st2, ("raise", sym.on_exhaust)
            elif node.orelse:
                yield from eng.exec_block(node.orelse, st2, fr)
            else:
                yield st2, None
            continue
        elem = sym.item(eng, st2, i)
        for st3, ex0 in eng.assign(node.target, elem, st2, fr, line):
            if ex0 is not None:
                yield st3, ex0
                continue
            for st4, ex in eng.exec_block(node.body, st3, fr):
                if ex is None or ex[0] == "continue":
                    ctx = LoopCtx(eng, st4, fr, entry=entry_ctx, index=i + 1, seq=sym.seq, it=sym)
                    _inv_obligations(eng, spec, ctx, st4, "preserved", line)
                    _frame_obligations(eng, st4, head, frame, line, spec.lists, spec.sets, spec.allocates, spec.aux)
                elif ex[0] == "break":
                    yield st4, None
                else:
                    yield st4, ex


def comprehension(eng, node, st, fr, kind):
    if len(node.generators) != 1:
        raise Unsupported("nested comprehension")
    gen = node.generators[0]
    if gen.is_async:
        raise Unsupported("async comprehension")
    for st1, it in eng.eval(gen.iter, st, fr):
        if isinstance(it, Raise):
            yield st1, it
            continue
        items = _concrete_items(eng, it, st1)
        if items is None and kind == "gen" and not gen.ifs:
            # lazy map over a symbolic iterable: the element expression must be pure and non-forking
            src = _as_symiter(eng, it, st1)

            def item(eng_, st_, i, src=src):
                v = src.item(eng_, st_, i)
                saved_ = dict(st_.frames[fr].vars)
                rs = list(eng_.assign(gen.target, v, st_, fr, node.lineno))
                if len(rs) != 1 or rs[0][1] is not None:
                    raise Unsupported("generator expression target does not bind uniformly")
                out_ = list(eng_.eval(node.elt, st_, fr))
                st_.frames[fr].vars.clear()
                st_.frames[fr].vars.update(saved_)
                if len(out_) != 1 or isinstance(out_[0][1], Raise):
                    raise Unsupported("generator expression element forks or raises")
                return out_[0][1]

            res = SymIter(None, length=src.length, item=item, label="genexpr")
            tgt = gen.target.id if isinstance(gen.target, ast.Name) else None
            first = node.elt.elts[0] if isinstance(node.elt, ast.Tuple) and node.elt.elts else node.elt
            res.distinct_keys = bool(getattr(src, "distinct_keys", False) and isinstance(first, ast.Name) and first.id == tgt)
            res.src = src
            res.pair_of_target = bool(
                tgt is not None and isinstance(node.elt, ast.Tuple) and len(node.elt.elts) == 2 and all(isinstance(e, ast.Name) and e.id == tgt for e in node.elt.elts)
            )
            yield st1, res
            continue
        if items is None and kind == "gen" and getattr(eng, "opaque_message_genexprs", False):
            # a filtered generator expression over a symbolic iterable that only feeds an error message: neither its
            # elements nor exceptions raised while formatting them are modelled (the pack lists this as an assumption)
            yield st1, SV(V.fresh_val("message_parts"))
            continue
        if items is None:
            raise Unsupported(f"comprehension over symbolic iterable at line {node.lineno}")
        # comprehension scope: reuse the frame, restore the target names afterwards
        saved = dict(st1.frames[fr].vars)
        out = []

        def go(k, st_):
            if k == len(items):
                res = list(out)
                names = assigned_names([gen.target])
                for nm in names:
                    if nm in saved:
                        st_.frames[fr].vars[nm] = saved[nm]
                    else:
                        st_.frames[fr].vars.pop(nm, None)
                if kind == "dict":
                    yield st_, dict(res)
                elif kind == "set":
                    yield st_, set(res)
                elif kind == "gen":
                    yield st_, tuple(res)
                else:
                    yield st_, eng.new_list(st_, res)
                return
            for st2, ex in eng.assign(gen.target, items[k], st_, fr, node.lineno):
                if ex is not None:
                    yield st2, Raise(ex[1])
                    continue
                yield from conds(0, k, st2)

        def conds(j, k, st_):
            if j == len(gen.ifs):
                if kind == "dict":
                    for st3, kv in eng.eval_list([node.key, node.value], st_, fr):
                        if isinstance(kv, Raise):
                            yield st3, kv
                            continue
                        out.append(tuple(kv))
                        yield from go(k + 1, st3)
                        out.pop()
                else:
                    for st3, v in eng.eval(node.elt, st_, fr):
                        if isinstance(v, Raise):
                            yield st3, v
                            continue
                        out.append(v)
                        yield from go(k + 1, st3)
                        out.pop()
                return
            for st3, c in eng.eval_cond(gen.ifs[j], st_, fr):
                if isinstance(c, Raise):
                    yield st3, c
                    continue
                for st4, b in eng.branch(c, st3):
                    if b:
                        yield from conds(j + 1, k, st4)
                    else:
                        yield from go(k + 1, st4)

        yield from go(0, st1)
