"""Monitor (lock-invariant) reasoning for ``with self.<lock>:`` blocks, Owicki-Gries style.

A lock field owns a set of fields of the same object (and optionally *guards* other
locations and ghost variables).  While the lock is not held by the executing thread,
an owned field read yields an arbitrary value (any other thread may have written it).
On acquiring the lock the owned locations are havoc'd under the *rely* (what other
threads may have done since this thread last knew them) and the lock invariant is
assumed; every store to the history field inside the critical section updates the
ghost history; on every exit of the block (normal, return, raise) the lock invariant
is an obligation.

Assumptions (trusted): threading.RLock/Lock/Condition give mutual exclusion; single
attribute loads/stores are atomic; sequentially consistent memory (CPython + GIL).
"""
from __future__ import annotations

import ast

import z3

from . import vals as V
from .engine import SV, Raise, Unsupported, Exc, Model


class Monitor:
    def __init__(self, lock_field, owned, hist_field=None, invariant=None, reentrant_callbacks=True, cls=None, rely=None, ghosts=(), guards=None, name=None):
        self.lock_field = lock_field
        self.owned = list(owned)
        self.hist_field = hist_field  # owned field whose successive values form the ghost history
        self.invariant = invariant  # callable(eng, st, obj_term) -> z3 Bool, beyond the built-in hist link
        self.reentrant_callbacks = reentrant_callbacks
        self.cls = cls  # python class whose instances carry this lock (None: any)
        self.rely = rely  # callable(eng, st, obj_term, old: dict, new: dict) -> z3 Bool assumed on acquire
        self.ghosts = tuple(ghosts)  # ghost variables (names in st.ghost) owned by the lock
        self.guards = guards  # callable(eng, st, obj_term) -> [(obj_term2, field)] extra locations protected
        self.name = name or lock_field
        self.on_store_extra = None

    # -- ghost helpers
    def hist(self, st):
        h = st.ghost.get("hist")
        if h is None:
            h = z3.Const("hist0", V.ValSeq)
            st.ghost["hist"] = h
            st.assume(z3.Length(h) > 0)
        return h

    def install(self, eng, st):
        for f in self.owned:
            eng.shared_fields[f] = {
                "lock": self.lock_field,
                "init_ok": True,
                "reentrant": self.reentrant_callbacks,
                "on_store": self.on_store,
                "cls": self.cls,
            }
        prev = eng.with_hook
        eng.monitors = getattr(eng, "monitors", []) + [self]

        def hook(eng_, node, item, cm, st_, fr):
            ce = item.context_expr
            if isinstance(ce, ast.Attribute) and ce.attr == self.lock_field:
                handled = False
                for r in self.with_block(eng_, node, ce, st_, fr, prev, item, cm):
                    handled = True
                    yield r
                return
            if prev is not None:
                yield from prev(eng_, node, item, cm, st_, fr)
                return
            raise Unsupported(f"with statement on {ast.dump(ce)[:80]} has no manager model")

        eng.with_hook = hook
        st.ghost.setdefault("n_mine", z3.IntVal(0))
        if self.hist_field:
            self.hist(st)

    def on_store(self, eng, st, obj_term, fname, val_term):
        if self.on_store_extra is not None:
            self.on_store_extra(eng, st, obj_term, fname, val_term)
        if fname != self.hist_field:
            return
        h = self.hist(st)
        st.ghost["mine_prev"] = h[z3.Length(h) - 1]
        st.ghost["mine_val"] = val_term
        st.ghost["mine_at"] = z3.Length(h)
        st.ghost["hist"] = z3.Concat(h, z3.Unit(val_term))
        st.ghost["n_mine"] = st.ghost.get("n_mine", z3.IntVal(0)) + 1

    def lock_inv(self, eng, st, obj_term):
        facts = []
        if self.hist_field:
            h = self.hist(st)
            cur = z3.Select(st.field_array(self.hist_field), V.Val.a(obj_term))
            facts.append(z3.And(z3.Length(h) > 0, cur == h[z3.Length(h) - 1]))
        if self.invariant is not None:
            facts.append(self.invariant(eng, st, obj_term))
        return z3.And(*facts) if facts else z3.BoolVal(True)

    def locations(self, eng, st, obj_term):
        locs = [(obj_term, f) for f in self.owned]
        if self.guards is not None:
            locs += list(self.guards(eng, st, obj_term))
        return locs

    def snapshot(self, eng, st, obj_term):
        snap = {}
        for o, f in self.locations(eng, st, obj_term):
            snap[f] = z3.Select(st.field_array(f), V.Val.a(o))
        for gname in self.ghosts:
            snap[gname] = st.ghost.get(gname)
        return snap

    def acquire(self, eng, st, obj_term):
        """Effects of acquiring the lock when this thread does not hold it (also: Condition.wait)."""
        old = self.snapshot(eng, st, obj_term)
        known = st.ghost.get(("known", self.name))  # what this thread knew when it last released
        for o, f in self.locations(eng, st, obj_term):
            v = V.fresh_val(f"acq_{f}")
            st.assume(eng.external_ref_fact(st, v))
            st.heap[f] = z3.Store(st.field_array(f), V.Val.a(o), v)
        for gname in self.ghosts:
            cur = st.ghost.get(gname)
            if cur is not None:
                st.ghost[gname] = z3.Const(V.fresh_name(f"acq_{gname}"), cur.sort())
        if self.hist_field:
            h = self.hist(st)
            ext = z3.Const(V.fresh_name("env_appends"), V.ValSeq)
            st.ghost["hist"] = z3.Concat(h, ext)
        new = self.snapshot(eng, st, obj_term)
        if self.rely is not None and known is not None:
            st.assume(self.rely(eng, st, obj_term, known, new))
        st.assume(self.lock_inv(eng, st, obj_term))
        st.ghost[("acq", self.name)] = new

    def release(self, eng, st, obj_term, line=0):
        now = self.snapshot(eng, st, obj_term)
        acq = st.ghost.get(("acq", self.name))
        if self.rely is not None and acq is not None:
            eng.oblige(st, f"guarantee of {self.name}: the critical section is a step other threads may rely on", self.rely(eng, st, obj_term, acq, now), "guarantee", line)
        st.ghost[("known", self.name)] = now

    def applies(self, obj):
        if self.cls is None:
            return True
        return isinstance(obj, SV) and obj.hint is not None and issubclass(obj.hint, self.cls)

    def is_held(self, st, obj_term):
        return any(n == self.lock_field and z3.eq(z3.simplify(o), z3.simplify(obj_term)) for o, n in st.locks)

    def with_block(self, eng, node, ce, st, fr, prev=None, item=None, cm=None):
        for st1, obj in eng.eval(ce.value, st, fr):
            if isinstance(obj, Raise):
                yield st1, ("raise", obj.exc)
                continue
            if not isinstance(obj, SV):
                raise Unsupported("lock owner is not a symbolic object")
            if not self.applies(obj):
                if prev is not None:
                    yield from prev(eng, node, item, cm, st1, fr)
                else:
                    # a lock this pack says nothing about: mutual exclusion only, nothing owned
                    st1.locks.append((obj.t, self.lock_field + "?"))
                    for st2, ex in eng.exec_block(node.body, st1, fr):
                        st2.locks = [lk for lk in st2.locks if not (lk[1] == self.lock_field + "?" and z3.eq(z3.simplify(lk[0]), z3.simplify(obj.t)))]
                        yield st2, ex
                continue
            held = self.is_held(st1, obj.t)
            local = eng._is_local(st1, obj.t) and z3.simplify(V.Val.a(obj.t)).as_long() not in st1.escaped
            if not held and not local and not st1.ghost.get("quiescent"):
                self.acquire(eng, st1, obj.t)
            elif not held and not local:
                st1.assume(self.lock_inv(eng, st1, obj.t))
            st1.locks.append((obj.t, self.lock_field))
            st1.ghost[("lock_owner", self.name)] = obj.t
            if node.items[0].optional_vars is not None:
                raise Unsupported("with lock as name")
            for st2, ex in eng.exec_block(node.body, st1, fr):
                # release
                for k in range(len(st2.locks) - 1, -1, -1):
                    o, n = st2.locks[k]
                    if n == self.lock_field and z3.eq(z3.simplify(o), z3.simplify(obj.t)):
                        del st2.locks[k]
                        break
                if not held:
                    eng.oblige(st2, f"lock invariant of {self.name} re-established on leaving the block at line {node.lineno}", self.lock_inv(eng, st2, obj.t), "lock-inv", node.lineno)
                    self.release(eng, st2, obj.t)
                yield st2, ex

    # -- threading.Condition.wait_for(predicate, timeout): releases the lock while waiting
    def wait_for_model(self):
        mon = self

        def wait_for(eng, st, args, kw):
            cond = args[0]
            pred = args[1]
            timeout = args[2] if len(args) > 2 else kw.get("timeout")
            owner = st.ghost.get(("lock_owner", mon.name))
            if owner is None:
                raise Unsupported("wait_for outside the monitor's with block")
            eng.oblige(st, f"lock invariant of {mon.name} holds when wait_for releases the lock", mon.lock_inv(eng, st, owner), "lock-inv")
            mon.release(eng, st, owner)
            # trusted contract of Condition.wait_for: the predicate is evaluated with the lock held; while waiting
            # the lock is released (other threads run: owned state havoc'd under the rely); it returns the last
            # value of the predicate, which is truthy unless the timeout elapsed.
            mon.acquire(eng, st, owner)
            for st1, r in eng.call(pred, [], {}, st):
                if isinstance(r, Raise):
                    yield st1, r
                    continue
                tt = eng.lift(timeout, st1)
                for st2, c in eng.truthy(r, st1):
                    for st3, b in eng.branch(c, st2):
                        if b:
                            yield st3, r
                        else:
                            # only possible with a timeout
                            st3.assume(z3.Not(V.is_none(tt)))
                            if eng.feasible(st3):
                                st3.ghost["wait_timed_out"] = True
                                yield st3, r

        return Model("Condition.wait_for", wait_for)
