"""Monitor (lock-invariant) reasoning for ``with self.<lock>:`` blocks, Owicki-Gries style.

A lock field owns a set of fields of the same object.  While the lock is not held
by the executing thread, an owned field read yields an arbitrary value (any other
thread may have written it).  On acquiring the lock the owned fields are havoc'd
under the *rely* (the ghost history may have grown by any number of entries that
other threads installed) and the lock invariant is assumed; every store to an
owned field inside the critical section updates the ghost history; on every exit
of the block (normal, return, raise) the lock invariant is an obligation.

Assumptions (trusted): threading.RLock/Lock/Condition give mutual exclusion; single
attribute loads/stores are atomic; sequentially consistent memory (CPython + GIL).
"""
from __future__ import annotations

import ast

import z3

from . import vals as V
from .engine import SV, Raise, Unsupported, Exc


class Monitor:
    def __init__(self, lock_field, owned, hist_field=None, invariant=None, reentrant_callbacks=True):
        self.lock_field = lock_field
        self.owned = list(owned)
        self.hist_field = hist_field  # owned field whose successive values form the ghost history
        self.invariant = invariant  # callable(eng, st, obj_term) -> z3 Bool, beyond the built-in hist link
        self.reentrant_callbacks = reentrant_callbacks

    # -- ghost helpers
    def hist(self, st):
        h = st.ghost.get("hist")
        if h is None:
            h = z3.Const("hist0", V.ValSeq)
            st.ghost["hist"] = h
            st.assume(z3.Length(h) > 0)
        return h

    def install(self, eng, st):
        for f in self.owned:
            eng.shared_fields[f] = {
                "lock": self.lock_field,
                "init_ok": True,
                "reentrant": self.reentrant_callbacks,
                "on_store": self.on_store,
            }
        prev = eng.with_hook
        eng.monitors = getattr(eng, "monitors", []) + [self]

        def hook(eng_, node, item, cm, st_, fr):
            ce = item.context_expr
            if isinstance(ce, ast.Attribute) and ce.attr == self.lock_field:
                yield from self.with_block(eng_, node, ce, st_, fr)
                return
            if prev is not None:
                yield from prev(eng_, node, item, cm, st_, fr)
                return
            raise Unsupported(f"with statement on {ast.dump(ce)[:80]} has no manager model")

        eng.with_hook = hook
        st.ghost.setdefault("n_mine", z3.IntVal(0))
        self.hist(st)

    def on_store(self, eng, st, obj_term, fname, val_term):
        if fname != self.hist_field:
            return
        h = self.hist(st)
        st.ghost["mine_prev"] = h[z3.Length(h) - 1]
        st.ghost["mine_val"] = val_term
        st.ghost["mine_at"] = z3.Length(h)
        st.ghost["hist"] = z3.Concat(h, z3.Unit(val_term))
        st.ghost["n_mine"] = st.ghost.get("n_mine", z3.IntVal(0)) + 1
        st.ghost.setdefault("mine_log", [])
        st.ghost["mine_log"] = st.ghost["mine_log"] + [(st.ghost["mine_prev"], val_term, len(st.calls))]

    def lock_inv(self, eng, st, obj_term):
        facts = []
        if self.hist_field:
            h = self.hist(st)
            cur = z3.Select(st.field_array(self.hist_field), V.Val.a(obj_term))
            facts.append(z3.And(z3.Length(h) > 0, cur == h[z3.Length(h) - 1]))
        if self.invariant is not None:
            facts.append(self.invariant(eng, st, obj_term))
        return z3.And(*facts) if facts else z3.BoolVal(True)

    def acquire(self, eng, st, obj_term):
        """Effects of acquiring the lock when this thread does not hold it."""
        a = V.Val.a(obj_term)
        for f in self.owned:
            v = V.fresh_val(f"acq_{f}")
            st.assume(eng.external_ref_fact(st, v))
            st.heap[f] = z3.Store(st.field_array(f), a, v)
        if self.hist_field:
            h = self.hist(st)
            ext = z3.Const(V.fresh_name("env_appends"), V.ValSeq)
            st.ghost["hist"] = z3.Concat(h, ext)
        if getattr(self, "rely", None) is not None:
            self.rely(eng, st, obj_term)
        st.assume(self.lock_inv(eng, st, obj_term))

    def with_block(self, eng, node, ce, st, fr):
        for st1, obj in eng.eval(ce.value, st, fr):
            if isinstance(obj, Raise):
                yield st1, ("raise", obj.exc)
                continue
            if not isinstance(obj, SV):
                raise Unsupported("lock owner is not a symbolic object")
            held = any(n == self.lock_field and z3.eq(z3.simplify(o), z3.simplify(obj.t)) for o, n in st1.locks)
            local = eng._is_local(st1, obj.t) and z3.simplify(V.Val.a(obj.t)).as_long() not in st1.escaped
            if not held and not local and not st1.ghost.get("quiescent"):
                self.acquire(eng, st1, obj.t)
            elif not held and not local:
                st1.assume(self.lock_inv(eng, st1, obj.t))
            st1.locks.append((obj.t, self.lock_field))
            if node.items[0].optional_vars is not None:
                raise Unsupported("with lock as name")
            for st2, ex in eng.exec_block(node.body, st1, fr):
                # release
                for k in range(len(st2.locks) - 1, -1, -1):
                    o, n = st2.locks[k]
                    if n == self.lock_field and z3.eq(z3.simplify(o), z3.simplify(obj.t)):
                        del st2.locks[k]
                        break
                if not held:
                    eng.oblige(st2, f"lock invariant of {self.lock_field} re-established on leaving the block at line {node.lineno}", self.lock_inv(eng, st2, obj.t), "lock-inv", node.lineno)
                yield st2, ex
