"""Pack runner: verify every contract of a property pack, discharge, replay, report.

Exit codes: 0 all obligations discharged (known findings printed), 1 an
obligation was refuted (VIOLATION line), 2 undecided, 3 internal error.
"""
from __future__ import annotations

import importlib
import json
import multiprocessing as mp
import os
import subprocess
import sys
import time
import traceback

import z3

from . import solve
from . import source as S
from . import vals as V
from .contract import Pack, Contract, verify_contract, Ctx

VERIF = os.path.dirname(os.path.dirname(os.path.abspath(__file__)))
REPLAY_DIR = os.path.join(VERIF, "replay")
EVID_DIR = os.path.join(VERIF, "evidence")
KNOWN_FILE = os.path.join(VERIF, "known_findings.json")


def load_known():
    if not os.path.exists(KNOWN_FILE):
        return []
    with open(KNOWN_FILE) as f:
        return json.load(f).get("findings", [])


_SNIPPET_CACHE: dict = {}


def run_snippet(code: str, path: str, timeout=300):
    os.makedirs(os.path.dirname(path), exist_ok=True)
    with open(path, "w") as f:
        f.write(code)
    # model-free replays are the same script for every obligation of a function: run it once per worker process
    body = "\n".join(l for l in code.splitlines() if not l.startswith("#"))
    if body in _SNIPPET_CACHE:
        return _SNIPPET_CACHE[body]
    res = _run_snippet_uncached(path, timeout)
    _SNIPPET_CACHE[body] = res
    return res


def _run_snippet_uncached(path: str, timeout=300):
    env = dict(os.environ)
    env["PYTHONPATH"] = S.REPO_SRC + os.pathsep + env.get("PYTHONPATH", "")
    env.setdefault("PYTHONHASHSEED", "0")
    try:
        p = subprocess.run([sys.executable, path], capture_output=True, text=True, timeout=timeout, env=env)
        out = p.stdout + p.stderr
        return ("REPRODUCED" in p.stdout), out[-4000:]
    except subprocess.TimeoutExpired as e:
        out = (e.stdout or b"")
        out = out.decode() if isinstance(out, bytes) else out
        return ("REPRODUCED" in out), out[-2000:] + "\n<timeout>"


def _safe(s):
    return "".join(ch if ch.isalnum() or ch in "._-" else "_" for ch in s)[:120]


# ----------------------------------------------------------------------------- worker
def _work(args):
    pack_mod, idx, tier, active_known = args
    try:
        mod = importlib.import_module(pack_mod)
        pack: Pack = mod.build(active_known=set(active_known)) if hasattr(mod, "build") else mod.PACK
        con = pack.contracts[idx]
        modular = {c.key: c for c in pack.contracts if c.modular}
        res = verify_contract(con, pack, modular)
        out = {
            "key": con.key + (f"#{con.label}" if con.label else ""),
            "file": res.file,
            "lines": list(res.lines),
            "error": res.error,
            "paths": res.paths,
            "inlined": res.inlined,
            "contracts_used": res.contracts_used,
            "exits": res.exits,
            "trusted": con.trusted,
            "time_s": 0.0,
            "obligations": [],
            "notes": con.notes,
        }
        if res.error:
            out["time_s"] = res.time_s
            if res.error.startswith("unsupported:") and con.replay_ is not None and getattr(con, "replay_without_model", False):
                # The function (as it is now) uses a construct outside the executor's subset, so no obligation could be
                # generated - by itself that is "undecided".  The contract's model-free witness still runs on the real
                # code: if it shows a failing input, that is a reproduced violation of the contract's statement (on a tree
                # where the property holds the witness reproduces nothing and the function stays undecided).
                try:
                    code = con.replay_(None, None, None)
                except Exception:  # noqa: BLE001
                    code = None
                if code:
                    path = os.path.join(REPLAY_DIR, pack.prop_id, f"{_safe(con.qualname)}__unsupported.py")
                    header = (
                        f"# replay for property {pack.prop_id}\n# function: {con.key}\n"
                        f"# the function could not be brought under the verifier ({res.error.splitlines()[0]}); the contract's witness inputs are run on the real code\n"
                    )
                    ok, outp = run_snippet(header + code, path)
                    if ok:
                        names = "; ".join(nm for nm, _ in con.ensures_)[:400]
                        out["error"] = None
                        out["obligations"].append({
                            "name": f"[not re-verifiable: {res.error.splitlines()[0][:160]}] witness inputs of the contract fail on the real code: {names}",
                            "kind": "post", "line": 0, "verdict": "refuted", "backend": "replay (no obligation could be generated)", "time_s": 0.0,
                            "reproduced": True, "replay": path, "replay_output": outp[-1500:], "model": {},
                        })
            return out
        eng = res.engine
        axioms = eng.class_axioms()
        t_start = time.time()
        for n, ob in enumerate(res.obligations):
            # Once a violation of this function has been confirmed on the real code and more than two minutes of
            # solver time went into it, the remaining obligations get a short budget: they cannot change the exit code
            # any more, and a broken tree must not keep the check running for hours.  (Never triggers on a tree
            # where everything is proved: nothing is confirmed there.)
            confirmed = any(o.get("reproduced") for o in out["obligations"])
            # likewise once three obligations of the function are undecided: the function cannot come out proved any more,
            # the remaining ones are still checked (a refutation would matter) but with the short budget
            stuck = sum(1 for o in out["obligations"] if o["verdict"] == "unknown") >= 3
            short = (confirmed or stuck) and time.time() - t_start > 120
            solve.discharge(ob, axioms, use_cvc5=not short, both=(tier == "thorough" and not short), budget_ms=3000 if short else None)
            rec = {
                "name": ob.name,
                "kind": ob.kind,
                "line": ob.line,
                "verdict": ob.verdict,
                "backend": ob.backend,
                "time_s": round(ob.time_s, 4),
            }
            if ob.verdict == "unknown" and con.replay_ is not None and getattr(con, "replay_without_model", False):
                # the solver could not decide: a model-free witness of the contract may still show a real failing input
                path = os.path.join(REPLAY_DIR, pack.prop_id, f"{_safe(con.qualname)}__{n}.py")
                try:
                    code = con.replay_(None, ob.info.get("ctx"), ob)
                except Exception:  # noqa: BLE001
                    code = None
                if code:
                    header = (
                        f"# replay for property {pack.prop_id}\n# function: {con.key} ({res.file}:{res.lines[0]}-{res.lines[1]})\n"
                        f"# undischarged obligation: {ob.name}\n# solver: {ob.backend} answered unknown; the contract's witness input is run on the real code\n"
                    )
                    ok, outp = run_snippet(header + code, path)
                    if ok:
                        rec.update(verdict="refuted", backend=ob.backend + " unknown; failing input confirmed by replay", reproduced=True, replay=path, replay_output=outp[-1500:], model={})
                out["obligations"].append(rec)
                continue
            if ob.verdict == "refuted":
                m = solve.M(ob.model, eng) if ob.model is not None else None
                rec["model"] = m.describe(res.params) if m else {}
                code = None
                if con.replay_ is not None and m is not None:
                    try:
                        code = con.replay_(m, ob.info.get("ctx") or Ctx(eng, res.params, res.pre, ob.info.get("state")), ob)
                    except Exception as e:  # noqa: BLE001
                        rec["replay_error"] = f"{type(e).__name__}: {e}"
                path = os.path.join(REPLAY_DIR, pack.prop_id, f"{_safe(con.qualname)}__{n}.py")
                header = (
                    f"# replay for property {pack.prop_id}\n# function: {con.key} ({res.file}:{res.lines[0]}-{res.lines[1]})\n"
                    f"# failed obligation: {ob.name}\n# solver: {ob.backend}\n# counter-model (parameters): {rec['model']}\n"
                )
                if code:
                    ok, outp = run_snippet(header + code, path)
                    rec["reproduced"] = ok
                    rec["replay_output"] = outp[-1500:]
                else:
                    os.makedirs(os.path.dirname(path), exist_ok=True)
                    with open(path, "w") as f:
                        f.write(header + "# no concrete failing input could be derived from the counter-model\n")
                        if ob.model is not None:
                            f.write("# full model:\n" + "\n".join("# " + ln for ln in str(ob.model).splitlines()[:200]) + "\n")
                    rec["reproduced"] = False
                rec["replay"] = path
                if ob.info.get("candidate") and not rec.get("reproduced"):
                    # an unconfirmed candidate model of a quantified query is not a refutation
                    rec["verdict"] = "unknown"
            out["obligations"].append(rec)
        if tier == "thorough" and con.replay_ is not None and getattr(con, "replay_without_model", False) and out["obligations"] \
                and all(o["verdict"] in ("proved", "covered") for o in out["obligations"]):
            # Cross-check of the proof against CPython (thorough tier only): every obligation of the function was discharged, so the
            # contract's witness inputs must not fail on the real code.  If they do - twice in a row - the executor's model of the
            # code or a trusted assumption is wrong, and the failing input is a violation in its own right.  A bounded check (the
            # listed inputs only): it adds nothing to what counts as proved.
            carved = [k["id"] for k in load_known() if k.get("status") == "open" and k["id"] in set(active_known)
                      and k.get("obligation", "").split(" :: ")[0].split("#")[0] == con.key]
            try:
                code = None if carved else con.replay_(None, None, None)
            except Exception:  # noqa: BLE001
                code = None
            if carved:
                # a recorded known finding is carved out of this function, and the function's witness is what re-confirms that
                # finding on every run: it fails by design, so it cannot serve as a cross-check
                out["cross_check"] = {"kind": "skipped: the witness of this function re-confirms the known finding " + ", ".join(carved), "reproduced": False, "replay": ""}
            if code:
                path = os.path.join(REPLAY_DIR, pack.prop_id, f"{_safe(con.qualname)}__crosscheck.py")
                header = (f"# replay for property {pack.prop_id}\n# function: {con.key}\n"
                          f"# cross-check: every obligation of this function was discharged; the contract's witness inputs are run on the real code\n")
                ok, outp = run_snippet(header + code, path)
                if ok:
                    ok, outp = _run_snippet_uncached(path)
                out["cross_check"] = {"kind": "bounded: the contract's witness inputs run on the real code", "reproduced": ok, "replay": path}
                if ok:
                    names = "; ".join(nm for nm, _ in con.ensures_)[:400]
                    out["obligations"].append({
                        "name": f"[cross-check] every obligation was discharged, yet the witness inputs of the contract fail on the real code: {names}",
                        "kind": "post", "line": 0, "verdict": "refuted", "backend": "replay cross-check (bounded)", "time_s": 0.0,
                        "reproduced": True, "replay": path, "replay_output": outp[-1500:], "model": {},
                    })
        out["time_s"] = round(res.time_s + sum(o["time_s"] for o in out["obligations"]), 3)
        out["sample"] = _sample(res)
        return out
    except Exception as e:  # noqa: BLE001
        return {"key": f"{pack_mod}[{idx}]", "error": f"worker crash: {type(e).__name__}: {e}\n{traceback.format_exc()}", "obligations": []}


def _sample(res):
    for ob in res.obligations:
        if ob.kind in ("post", "post-raise", "loop-preserved") and ob.verdict == "proved":
            hy = [str(z3.simplify(h)) for h in ob.hyps[-6:]]
            return {"obligation": ob.name, "hyps_tail": [h[:300] for h in hy], "goal": str(z3.simplify(ob.goal))[:600], "verdict": ob.verdict, "backend": ob.backend}
    return None


def _lemma_work(args):
    pack_mod, idx, tier, active_known = args
    try:
        mod = importlib.import_module(pack_mod)
        pack: Pack = mod.build(active_known=set(active_known)) if hasattr(mod, "build") else mod.PACK
        name, fn, meta = pack.lemmas[idx]
        from .engine import Obligation

        r = fn()
        hyps, goal = r if isinstance(r, tuple) else ([], r)
        ob = Obligation(name, meta.get("kind", "lemma"), list(hyps), goal, "lemma")
        solve.discharge(ob, [], use_cvc5=True, both=(tier == "thorough"))
        rec = {"name": name, "kind": "lemma", "verdict": ob.verdict, "backend": ob.backend, "time_s": round(ob.time_s, 4), "line": 0}
        if ob.verdict == "refuted":
            rec["model"] = str(ob.model)[:1500]
            path = os.path.join(REPLAY_DIR, pack.prop_id, f"lemma_{_safe(name)}.py")
            code = None
            if meta.get("replay") and ob.model is not None:
                try:
                    code = meta["replay"](solve.M(ob.model))
                except Exception as e:  # noqa: BLE001
                    rec["replay_error"] = str(e)
            header = f"# replay for property {pack.prop_id}\n# failed lemma: {name}\n# solver: {ob.backend}\n# model: {rec['model'][:800]!r}\n"
            if code:
                ok, outp = run_snippet(header + code, path)
                rec["reproduced"] = ok
                rec["replay_output"] = outp[-1500:]
            else:
                os.makedirs(os.path.dirname(path), exist_ok=True)
                with open(path, "w") as f:
                    f.write(header)
                rec["reproduced"] = False
            rec["replay"] = path
        return {"key": "lemma:" + name, "file": "", "lines": [0, 0], "error": None, "obligations": [rec], "time_s": rec["time_s"], "lemma": True,
                "sample": {"obligation": name, "goal": str(z3.simplify(goal))[:600], "verdict": ob.verdict, "backend": ob.backend}}
    except Exception as e:  # noqa: BLE001
        return {"key": f"lemma[{idx}]", "error": f"lemma crash: {type(e).__name__}: {e}\n{traceback.format_exc()}", "obligations": []}


# ----------------------------------------------------------------------------- main
def run_pack(pack_mod: str, tier="quick", jobs=None, only=None):
    t0 = time.time()
    seed = int(os.environ.get("VERIF_SEED", "0") or 0)
    mod = importlib.import_module(pack_mod)
    known_all = [k for k in load_known()]
    # 1. witnesses of open known findings: only those that still reproduce enable their carve-out
    pack0: Pack = mod.build(active_known=set()) if hasattr(mod, "build") else mod.PACK
    prop = pack0.prop_id
    known = [k for k in known_all if k["property"] == prop and k.get("status", "open") == "open"]
    active = []
    known_lines = []
    for k in known:
        path = os.path.join(REPLAY_DIR, prop, f"known_{_safe(k['id'])}.py")
        ok, outp = run_snippet(f"# witness of known finding {k['id']}: {k['what']}\n" + k["witness"], path)
        if ok:
            active.append(k["id"])
            known_lines.append(f"KNOWN-FINDING: property={prop} {k['id']}: {k['what']}")
    pack: Pack = mod.build(active_known=set(active)) if hasattr(mod, "build") else mod.PACK
    jobs = jobs or min(16, os.cpu_count() or 4)
    tasks = [(pack_mod, i, tier, tuple(active)) for i, c in enumerate(pack.contracts) if not c.trusted and not getattr(c, "spec_only", False) and (only is None or only in c.key)]
    ltasks = [(pack_mod, i, tier, tuple(active)) for i in range(len(pack.lemmas)) if only is None or only in pack.lemmas[i][0]]
    results = []
    if jobs > 1 and len(tasks) + len(ltasks) > 1:
        ctx = mp.get_context("fork")
        with ctx.Pool(jobs) as pool:
            r1 = pool.map_async(_work, tasks, chunksize=1)
            r2 = pool.map_async(_lemma_work, ltasks, chunksize=1)
            results = r1.get() + r2.get()
    else:
        results = [_work(t) for t in tasks] + [_lemma_work(t) for t in ltasks]
    extra_recs = []
    for fn in pack.extra:
        if only is not None:
            continue
        try:
            extra_recs.extend(fn(tier, seed))
        except Exception as e:  # noqa: BLE001
            extra_recs.append({"key": getattr(fn, "__name__", "extra"), "error": f"{type(e).__name__}: {e}\n{traceback.format_exc()}", "obligations": []})
    results.extend(extra_recs)
    return report(pack, results, tier, seed, time.time() - t0, known_lines, active)


def report(pack: Pack, results, tier, seed, wall, known_lines, active):
    prop = pack.prop_id
    n_ob = n_ok = 0
    violations = []
    undecided = []
    errors = []
    by_kind: dict = {}
    by_backend: dict = {}
    funcs = []
    samples = []
    solver_time = 0.0
    bounded = []
    for r in results:
        if r.get("error"):
            errors.append((r["key"], r["error"]))
            continue
        if r.get("bounded"):
            bounded.append({k: r[k] for k in ("key", "bound", "cases", "result") if k in r})
        if r.get("cross_check"):
            bounded.append({"key": r["key"], "bound": r["cross_check"]["kind"],
                            "result": "not run" if r["cross_check"]["kind"].startswith("skipped") else ("a witness input fails" if r["cross_check"]["reproduced"] else "no witness input fails")})
        fo = 0
        for ob in r["obligations"]:
            if ob.get("bounded"):
                # a bounded stand-in never counts as an obligation discharged; a case of it that fails on the real code is a failing
                # input like any other and is reported
                if ob["verdict"] == "refuted":
                    violations.append((r["key"], ob))
                continue
            n_ob += 1
            fo += 1
            by_kind[ob["kind"]] = by_kind.get(ob["kind"], 0) + 1
            solver_time += ob.get("time_s", 0)
            if ob["verdict"] in ("proved", "covered"):
                n_ok += 1
                by_backend[ob["backend"]] = by_backend.get(ob["backend"], 0) + 1
            elif ob["verdict"] in ("refuted", "vacuous"):
                violations.append((r["key"], ob))
            else:
                undecided.append((r["key"], ob))
        if not r.get("lemma") and not r.get("extra") and not r.get("bounded") and fo == 0:
            errors.append((r["key"], "zero obligations generated for a contracted function (vacuity guard)"))
        funcs.append({"function": r["key"], "file": r.get("file", ""), "lines": r.get("lines", [0, 0]), "obligations": fo, "paths": r.get("paths", 0), "inlined_callees": r.get("inlined", []), "callee_contracts_used": r.get("contracts_used", []), "time_s": r.get("time_s", 0)})
        if r.get("sample"):
            samples.append(dict(r["sample"], function=r["key"]))
    for ln in known_lines:
        print(ln)
    code = 0
    for key, ob in violations:
        code = 1
        path = ob.get("replay") or os.path.join(REPLAY_DIR, prop, f"{_safe(key)}_{_safe(ob['name'])}.txt")
        if not os.path.exists(path):
            os.makedirs(os.path.dirname(path), exist_ok=True)
            with open(path, "w") as f:
                f.write(f"# property {prop}\n# function {key}\n# failed obligation: {ob['name']}\n# verdict {ob['verdict']} by {ob.get('backend')}\n")
        tail = "" if ob.get("reproduced") else " no-failing-input-found"
        print(f"  refuted: {key} :: {ob['name']} model={ob.get('model')}")
        if ob.get("replay_output"):
            print("  replay says: " + ob["replay_output"].strip().splitlines()[-1][:300] if ob["replay_output"].strip() else "")
        print(f"VIOLATION property={prop} replay={path}{tail}")
    if not violations:
        if errors:
            code = 3 if any("crash" in e or "engine error" in e for _, e in errors) else 2
        elif undecided:
            code = 2
    for key, ob in undecided:
        print(f"UNDECIDED property={prop} function={key} obligation={ob['name']!r} verdict={ob['verdict']} backend={ob.get('backend')}")
    for key, e in errors:
        print(f"ERROR property={prop} function={key}: {e.strip().splitlines()[0] if e.strip() else e}")
        if os.environ.get("PYVC_DEBUG"):
            print(e)
    trusted = list(BASE_TRUST) + pack.trusted
    assumptions = list(BASE_ASSUME) + pack.assumptions + [f"known finding carved out: {k}" for k in active]
    ev = {
        "property_id": prop,
        "tier": tier,
        "seed": seed,
        "level": "proof",
        "coverage": {
            "obligations": n_ob,
            "discharged": n_ok,
            "checker_cmd": f"./check {prop} --tier {tier}",
            "trusted_base": trusted,
            "functions_under_contract": funcs,
            "obligations_by_kind": by_kind,
            "discharged_by_backend": by_backend,
            "solver_time_s": round(solver_time, 3),
            "undecided": [f"{k} :: {o['name']}" for k, o in undecided],
            "refuted": [f"{k} :: {o['name']}" for k, o in violations],
            "errors": [f"{k}: {e.splitlines()[0] if e else e}" for k, e in errors],
            "known_findings_confirmed": active,
            "bounded_stand_ins": bounded,
            "samples": samples[:8] or [{"note": "no sample"}],
            "exhaustive": False,
        },
        "assumptions": assumptions,
        "wall_s": round(wall, 2),
        "violations": len(violations),
    }
    os.makedirs(EVID_DIR, exist_ok=True)
    with open(os.path.join(EVID_DIR, f"{prop}.json"), "w") as f:
        json.dump(ev, f, indent=1, default=str)
    print(f"{prop}: {n_ok}/{n_ob} obligations discharged over {len(funcs)} functions/lemmas, {len(violations)} refuted, {len(undecided)} undecided, {len(errors)} errors, wall {wall:.1f}s -> exit {code}")
    return code


BASE_TRUST = [
    "pyvc symbolic executor and its encoding of the Python subset (vals.py, engine.py, ops.py, models.py)",
    "z3 5.1 / cvc5 unsat answers",
    "CPython 3.12 semantics of the interpreted constructs; live module objects are used only to resolve names, class hierarchy (MRO) and decorator wiring",
]
BASE_ASSUME = [
    "int is mathematical Z (Python semantics); Fraction is an exact rational with lowest-terms normal form; float/Decimal/complex values are opaque (only their type is tracked)",
    "== / != / < / hash on operands of unknown class are uninterpreted pure functions with no algebraic laws",
]
