"""bytes / bytearray / int<->bytes conversions / marshal, as used by the bytecode-cache codec.

bytes values are ``Val.bytes(Seq Int)``; a well-formed bytes value has every element in
0..255 (``wf_bytes``) - asserted for every bytes value these models *produce*, and a
precondition on bytes that come from outside.
"""
from __future__ import annotations

import marshal

import z3

from . import vals as V
from . import ops
from .engine import SV, Exc, Raise, Unsupported, Model

IntSeq = z3.SeqSort(z3.IntSort())
marshal_dumps = z3.Function("marshal_dumps", V.Val, IntSeq)  # trusted: a pure function of the value
marshal_loads_ok = z3.Function("marshal_loads_ok", IntSeq, z3.BoolSort())
marshal_loads_val = z3.Function("marshal_loads_val", IntSeq, V.Val)
le_value = z3.Function("le_value", IntSeq, z3.IntSort())  # little-endian value of a byte string


def wf_bytes(seq):
    i = z3.Int(V.fresh_name("bi"))
    return z3.ForAll([i], z3.Implies(z3.And(i >= 0, i < z3.Length(seq)), z3.And(seq[i] >= 0, seq[i] <= 255)))


def le32(n):
    """The four little-endian bytes of n (0 <= n < 2**32) as explicit digit variables."""
    ds = [z3.Int(V.fresh_name(f"byte{k}")) for k in range(4)]
    facts = [z3.And(d >= 0, d <= 255) for d in ds]
    facts.append(n == ds[0] + 256 * ds[1] + 65536 * ds[2] + 16777216 * ds[3])
    seq = z3.Concat(*[z3.Unit(d) for d in ds])
    return seq, facts


def install(eng):
    def reg(obj, name):
        def deco(fn):
            eng.models[id(obj)] = Model(name, fn)
            eng._keep.append(obj)
            return fn

        return deco

    def from_bytes(eng_, st, args, kw):
        bs, order = args[0], (args[1] if len(args) > 1 else kw.get("byteorder", "big"))
        if order != "little" or kw.get("signed"):
            raise Unsupported("int.from_bytes other than unsigned little-endian")
        t = eng_.lift(bs, st)
        seq = V.Val.by(t)
        n = z3.Length(seq)
        # expand when the length is fixed on this path
        for k in range(0, 9):
            if not eng_.feasible(st, [n != k]):
                val = z3.IntVal(0)
                for j in range(k):
                    val = val + (256 ** j) * seq[j]
                yield st, SV(V.mk_int(val))
                return
        yield st, SV(V.mk_int(le_value(seq)))

    eng.method_models[(int, "from_bytes")] = Model("int.from_bytes", from_bytes)

    def to_bytes(eng_, st, args, kw):
        self, length, order = args[0], args[1], (args[2] if len(args) > 2 else kw.get("byteorder", "big"))
        if order != "little" or length != 4:
            raise Unsupported("int.to_bytes other than (4, 'little')")
        n = V.int_of(self.t)
        for st1, ok in eng_.branch(z3.And(n >= 0, n < 2 ** 32), st):
            if not ok:
                yield st1, Raise(Exc(OverflowError, ("int too big to convert",)))
            else:
                seq, facts = le32(n)
                st1.assume(*facts)
                yield st1, SV(V.Val.bytes(seq))

    eng.method_models[(int, "to_bytes")] = Model("int.to_bytes", to_bytes)

    @reg(bytearray, "bytearray")
    def m_bytearray(eng_, st, args, kw):
        sv = eng_.alloc(st, bytearray)
        content = z3.Empty(IntSeq) if not args else V.Val.by(eng_.lift(args[0], st))
        st.aux["bytearray"] = z3.Store(_ba(st), V.Val.a(sv.t), content)
        yield st, sv

    def _ba(st):
        if "bytearray" not in st.aux:
            st.aux["bytearray"] = z3.Const("bytearrays0", z3.ArraySort(z3.IntSort(), IntSeq))
        return st.aux["bytearray"]

    def ba_extend(eng_, st, args, kw):
        self, more = args
        a = V.Val.a(self.t)
        mt = eng_.lift(more, st)
        st.aux["bytearray"] = z3.Store(_ba(st), a, z3.Concat(z3.Select(_ba(st), a), V.Val.by(mt)))
        yield st, None

    eng.method_models[(bytearray, "extend")] = Model("bytearray.extend", ba_extend)

    @reg(bytes, "bytes")
    def m_bytes(eng_, st, args, kw):
        if not args:
            yield st, b""
            return
        v = args[0]
        if isinstance(v, SV) and v.hint is bytearray:
            yield st, SV(V.Val.bytes(z3.Select(_ba(st), V.Val.a(v.t))))
            return
        if isinstance(v, SV):
            yield st, v
            return
        yield st, bytes(v)

    @reg(marshal.dumps, "marshal.dumps")
    def m_dumps(eng_, st, args, kw):
        t = eng_.lift(args[0], st)
        d = marshal_dumps(t)
        yield st, SV(V.Val.bytes(d))

    @reg(marshal.loads, "marshal.loads")
    def m_loads(eng_, st, args, kw):
        """Trusted contract of marshal.loads:
        * loads(dumps(v)) succeeds and yields (a copy of) v  - the axiom ``marshal_loads_ok/val`` on dumps images
          is supplied by the pack as a hypothesis;
        * on a strict prefix of some dumps(v) it raises EOFError;
        * on anything else it either returns something or raises EOFError / ValueError / TypeError."""
        seq = V.Val.by(eng_.lift(args[0], st))
        for st1, ok in eng_.branch(marshal_loads_ok(seq), st):
            if ok:
                r = marshal_loads_val(seq)
                st1.assume(eng_.external_ref_fact(st1, r))
                yield st1, SV(r)
            else:
                prefix = ops.opq("marshal_is_strict_prefix_of_a_dump", IntSeq, z3.BoolSort())(seq)
                for st2, isp in eng_.branch(prefix, st1):
                    if isp:
                        yield st2, Raise(Exc(EOFError, ("marshal data too short",)))
                    else:
                        for cls in (EOFError, ValueError, TypeError):
                            yield st2.copy(), Raise(Exc(cls, ("bad marshal data",)))
