"""Contract DSL (sidecar: /repo is never edited) and the per-function verification driver."""
from __future__ import annotations

import importlib
import inspect
import time
import traceback
import types

import z3

from . import source as S
from . import vals as V
from .engine import Engine, State, SV, Exc, Raise, Unsupported, Closure, Frame, Obligation, _frame_ids
from .loops import LoopSpec


# ----------------------------------------------------------------------------- parameter types
class T:
    """A parameter / field type: predicate over a Val term + optional exact class hint."""

    def __init__(self, pred, hint=None, name="T"):
        self.pred = pred
        self.hint = hint
        self.name = name

    def __or__(self, other):
        return T(lambda v, a=self, b=other: z3.Or(a.pred(v), b.pred(v)), None, f"{self.name}|{other.name}")


ANY = T(lambda v: z3.BoolVal(True), None, "any")
INT = T(lambda v: V.is_int(v), None, "int")
BOOL = T(lambda v: V.is_bool(v), None, "bool")
STR = T(lambda v: V.is_str(v), None, "str")
NONE = T(lambda v: V.is_none(v), None, "None")
OPT_STR = T(lambda v: z3.Or(V.is_str(v), V.is_none(v)), None, "str|None")
FRACTION = T(lambda v: V.is_frac(v), None, "Fraction")
FLOAT = T(lambda v: V.is_flt(v), None, "float")
DECIMAL = T(lambda v: V.is_dec(v), None, "Decimal")
BYTES = T(lambda v: z3.And(V.is_bytes(v)), None, "bytes")


class _ObjT(T):
    def __init__(self, pycls):
        self.pycls = pycls
        super().__init__(None, pycls, pycls.__name__)

    def bind(self, eng):
        cid = eng.class_id(self.pycls)
        self.pred = lambda v, cid=cid: z3.And(V.is_ref(v), V.cls_of(V.Val.a(v)) == cid)


def OBJ(pycls):
    return _ObjT(pycls)


class STAR(T):
    """Type of a *args parameter verified at a fixed arity n: the parameters are then named <name>0 .. <name>n-1."""

    def __init__(self, n):
        super().__init__(lambda v: z3.BoolVal(True), None, f"*{n}")
        self.n = n


def OPT(t):
    return T(lambda v, t=t: z3.Or(V.is_none(v), t.pred(v)), None, f"{t.name}|None")


# ----------------------------------------------------------------------------- spec context
class StateView:
    def __init__(self, eng, st: State):
        self.eng = eng
        self.st = st

    def field(self, obj, fname):
        return z3.Select(self.st.field_array(fname), V.Val.a(obj))

    def list_of(self, obj):
        return z3.Select(self.st.lists, V.Val.a(obj))

    def set_of(self, obj):
        return z3.Select(self.st.sets, V.Val.a(obj))

    def glob(self, module, name):
        v = self.st.globals.get((module, name))
        if v is None:
            v = self.eng.global_overrides[(module, name)](self.eng, self.st)
            self.st.globals[(module, name)] = v
        return self.eng.lift(v, self.st)

    def ghost(self, name, default=None):
        return self.st.ghost.get(name, default)


class Ctx:
    """What a spec clause sees: parameters as z3 Val terms, result, pre/post state views."""

    def __init__(self, eng, params, pre: State, post: State | None, result=None, exc=None, assuming=False):
        self._params = params
        self.eng = eng
        # True when the clause is being *assumed* (a precondition inside the function's own proof, a postcondition at a
        # call site), False when it is a goal: lets a spec state a universal fact quantified as a hypothesis and for
        # an arbitrary constant as a goal
        self.assuming = assuming
        self.pre = StateView(eng, pre)
        self.post = StateView(eng, post) if post is not None else None
        self.result = result
        self.exc = exc
        self.calls = post.calls if post is not None else []

    def __getattr__(self, name):
        p = self.__dict__.get("_params", {})
        if name in p:
            return p[name]
        raise AttributeError(name)


# ----------------------------------------------------------------------------- contract
class Contract:
    def __init__(self, key, modular=False):
        self.key = key
        self.module, self.qualname = key.split(":")
        self.params: dict[str, T] = {}
        self.requires_: list = []
        self.ensures_: list = []
        self.raises_: object = None  # None = unchecked; else tuple of classes allowed
        self.raise_conds: list = []  # (name, exc classes, fn(ctx)->Bool must hold when raised)
        self.ensures_on_raise_: list = []
        self.loops: dict[int, LoopSpec] = {}
        self.modular = modular
        self.trusted = False
        self.setup_: list = []
        self.replay_ = None
        self.notes: list = []
        self.modifies_: object = None  # modular use: heap fields havoc'd (None = nothing)
        self.known: dict = {}  # obligation name -> known finding id
        self.result_type: T | None = None
        self.may_raise: list = []  # modular use: [(exc class, cond fn or None)]
        self.pack = None
        self.entry_live = False  # call the live module attribute (e.g. a singledispatch wrapper)
        self.label = None

    # builder API
    def param(self, name, t: T):
        self.params[name] = t
        return self

    def requires(self, name, fn):
        self.requires_.append((name, fn))
        return self

    def ensures(self, name, fn):
        self.ensures_.append((name, fn))
        return self

    def raises(self, *classes):
        self.raises_ = tuple(classes)
        return self

    def raises_only_if(self, name, classes, fn):
        self.raise_conds.append((name, classes, fn))
        return self

    def ensures_on_raise(self, name, fn):
        self.ensures_on_raise_.append((name, fn))
        return self

    def loop(self, ordinal, invariant=None, frame=None, decreases=None, lists=True, ghost=(), single_iteration=None, sets=False, allocates=False, aux=()):
        self.loops[ordinal] = LoopSpec(invariant, frame, decreases, lists, ghost=ghost, single_iteration=single_iteration, sets=sets, allocates=allocates, aux=aux)
        return self

    def modifies(self, *fields, lists=False, sets=False):
        """Frame: only these heap fields (and list/set contents if enabled) may differ at any exit."""
        self.frame_ = (set(fields), lists, sets)
        return self

    def param_value(self, name, fn):
        """fn(eng, st) -> executor value used for the parameter instead of a plain symbolic Val."""
        if not hasattr(self, "param_values"):
            self.param_values = {}
        self.param_values[name] = fn
        return self

    def setup(self, fn):
        """fn(eng, st) run before execution (register models, shared fields, overrides)."""
        self.setup_.append(fn)
        return self

    def replay(self, fn):
        self.replay_ = fn
        return self

    def _havoc_lists(self, st):
        if getattr(self, "modifies_lists", False):
            st.lists = z3.Const(V.fresh_name("lists"), st.lists.sort())
        if getattr(self, "modifies_sets", False):
            st.sets = z3.Const(V.fresh_name("sets"), st.sets.sort())

    # ---- modular application at a call site
    def apply(self, eng: Engine, st: State, args, kwargs, line=0):
        src = S.find_by_qualname(self.module, self.qualname)
        names = [a.arg for a in src.node.args.posonlyargs + src.node.args.args]
        bound = {}
        va = src.node.args.vararg
        for i, a in enumerate(args):
            if i >= len(names):
                if va is None:
                    raise Unsupported(f"contract call {self.key}: too many positional args")
                bound[f"{va.arg}{i - len(names)}"] = eng.lift(a, st)  # *args: named args0, args1, ... as in _verify
                continue
            bound[names[i]] = eng.lift(a, st)
        for k, v in kwargs.items():
            bound[k] = eng.lift(v, st)
        live = _live_function(self.module, self.qualname)
        if live is not None and live.__defaults__:
            dn = names[len(names) - len(live.__defaults__):]
            for n, d in zip(dn, live.__defaults__):
                bound.setdefault(n, eng.lift(d, st))
        for t in bound.values():
            eng.escape(st, t)
        pre = st.copy()
        ctx0 = Ctx(eng, bound, pre, None)
        for n, t in self.params.items():
            if n in bound:
                if isinstance(t, _ObjT):
                    t.bind(eng)
                eng.oblige(st, f"call {self.key}@{line}: argument {n} has type {t.name}", t.pred(bound[n]), "pre", line)
        for nm, fn in self.requires_:
            eng.oblige(st, f"call {self.key}@{line}: requires {nm}", fn(ctx0), "pre", line)
        # exceptional exits
        for exc_cls, cond in self.may_raise:
            st_r = st.copy()
            if self.modifies_:
                eng.havoc_heap(st_r, self.modifies_)
            self._havoc_lists(st_r)
            if cond is not None:
                st_r.assume(cond(Ctx(eng, bound, pre, st_r, assuming=True)))
            for nm, fn in self.ensures_on_raise_:
                st_r.assume(fn(Ctx(eng, bound, pre, st_r, exc=exc_cls, assuming=True)))
            if eng.feasible(st_r):
                yield st_r, Raise(Exc(exc_cls, (), note=f"from contract {self.key}"))
        if self.modifies_:
            eng.havoc_heap(st, self.modifies_)
        self._havoc_lists(st)
        for nm in getattr(self, "modifies_aux", ()):  # library-state arrays (deque histories, map mutations ...)
            if nm in st.aux and z3.is_expr(st.aux[nm]):
                st.aux[nm] = z3.Const(V.fresh_name(nm), st.aux[nm].sort())
        for g in getattr(self, "modifies_ghost", ()):
            cur = st.ghost.get(g)
            if cur is not None and z3.is_expr(cur):
                st.ghost[g] = z3.Const(V.fresh_name(f"ghost_{g}"), cur.sort())
        res = V.fresh_val("res_" + self.qualname.replace(".", "_"))
        st.assume(eng.external_ref_fact(st, res))
        hint = None
        if self.result_type is not None:
            if isinstance(self.result_type, _ObjT):
                self.result_type.bind(eng)
            st.assume(self.result_type.pred(res))
            hint = self.result_type.hint
        ctx = Ctx(eng, bound, pre, st, result=res, assuming=True)
        for nm, fn in self.ensures_:
            st.assume(fn(ctx))
        if eng.feasible(st):
            yield st, SV(res, hint=hint)


def _live_function(module, qualname):
    mod = importlib.import_module(module)
    obj = mod
    for p in qualname.split("."):
        try:
            obj = inspect.getattr_static(obj, p)
        except AttributeError:
            return None
    if isinstance(obj, property):
        obj = obj.fget
    if isinstance(obj, (staticmethod, classmethod)):
        obj = obj.__func__
    obj = getattr(obj, "__wrapped__", obj) if not isinstance(obj, types.FunctionType) else obj
    return obj if isinstance(obj, types.FunctionType) else None


class Pack:
    """A set of contracts + lemmas for one property."""

    def __init__(self, prop_id, title=""):
        self.prop_id = prop_id
        self.title = title
        self.contracts: list[Contract] = []
        self.lemmas: list = []  # (name, fn() -> (hyps, goal) or Bool, meta)
        self.trusted: list[str] = []
        self.assumptions: list[str] = []
        self.extra: list = []  # extra check callables: fn(report) (finite enumeration etc.)
        self.common_setup: list = []

    def contract(self, key, modular=False):
        c = Contract(key, modular)
        c.pack = self
        self.contracts.append(c)
        return c

    def lemma(self, name, fn, **meta):
        self.lemmas.append((name, fn, meta))

    def trust(self, text):
        self.trusted.append(text)

    def assume(self, text):
        self.assumptions.append(text)


# ----------------------------------------------------------------------------- driver
class FuncResult:
    def __init__(self, key):
        self.key = key
        self.file = ""
        self.lines = (0, 0)
        self.obligations: list[Obligation] = []
        self.error = None
        self.paths = 0
        self.inlined = []
        self.contracts_used = []
        self.time_s = 0.0
        self.exits = {}


def verify_contract(con: Contract, pack: Pack, modular_contracts: dict) -> FuncResult:
    res = FuncResult(con.key)
    t0 = time.time()
    try:
        _verify(con, pack, modular_contracts, res)
    except Unsupported as e:
        res.error = f"unsupported: {e}"
    except Exception as e:  # noqa: BLE001
        res.error = f"engine error: {type(e).__name__}: {e}\n{traceback.format_exc()}"
    res.time_s = time.time() - t0
    return res


def _verify(con: Contract, pack: Pack, modular_contracts: dict, res: FuncResult):
    eng = Engine(contracts=modular_contracts)
    eng.cur_func = con.key
    eng.cur_func_key = con.key
    mod = importlib.import_module(con.module)
    if con.entry_live:
        _verify_live(eng, con, pack, modular_contracts, res, mod)
        return
    src = S.find_by_qualname(con.module, con.qualname)
    res.file = src.rel_path()
    res.lines = src.lines
    live = _live_function(con.module, con.qualname)
    owner = None
    if src.owner_cls_name:
        owner = getattr(mod, src.owner_cls_name, None)
    cl = Closure(src, (), {}, owner, gl=mod.__dict__)
    if live is not None:
        cl.live = live
        if live.__closure__:
            for n, c in zip(live.__code__.co_freevars, live.__closure__):
                try:
                    cl.cells[n] = c.cell_contents
                except ValueError:
                    pass
    for key, c in modular_contracts.items():
        for o, ls in c.loops.items():
            eng.loop_specs[(key, o)] = ls
    for o, ls in con.loops.items():
        eng.loop_specs[(con.key, o)] = ls
    st = State()
    for fn in pack.common_setup:
        fn(eng, st)
    for fn in con.setup_:
        fn(eng, st)
    a = src.node.args
    names = [p.arg for p in a.posonlyargs + a.args + a.kwonlyargs]
    params = {}
    argvals = []
    kwvals = {}
    for n in names:
        t = con.params.get(n, ANY)
        if isinstance(t, _ObjT):
            t.bind(eng)
        term = z3.Const(f"arg.{n}", V.Val)
        st.assume(t.pred(term))
        st.assume(eng.external_ref_fact(st, term))
        params[n] = term
        sv = SV(term, hint=t.hint)
        if n in getattr(con, "param_values", {}):
            # a parameter of concrete shape holding symbolic parts (e.g. a dict of symbolic values)
            sv = con.param_values[n](eng, st)
        if n in [p.arg for p in a.kwonlyargs]:
            kwvals[n] = sv
        else:
            argvals.append(sv)
    if a.vararg is not None:
        vt = con.params.get(a.vararg.arg)
        nstar = getattr(vt, "n", 0) if vt is not None else 0
        for i in range(nstar):
            term = z3.Const(f"arg.{a.vararg.arg}{i}", V.Val)
            st.assume(eng.external_ref_fact(st, term))
            params[f"{a.vararg.arg}{i}"] = term
            et = con.params.get(f"{a.vararg.arg}{i}", ANY)  # optional type of the i-th variadic argument
            if isinstance(et, _ObjT):
                et.bind(eng)
            st.assume(et.pred(term))
            argvals.append(SV(term, hint=et.hint))
    if a.kwarg is not None:
        # keyword arguments collected by **kwargs: given by the contract as concrete names with (possibly symbolic) values
        for k_, v_ in getattr(con, "extra_kwargs", {}).items():
            kwvals[k_] = v_
    pre = st.copy()
    ctx0 = Ctx(eng, params, pre, pre, assuming=True)
    for nm, fn in con.requires_:
        st.assume(fn(ctx0))
    pre = st.copy()
    eng.oblige(st, "precondition is satisfiable (vacuity guard)", z3.BoolVal(True), "cover")
    nexits = {"return": 0, "raise": 0}
    for st1, r in eng.call_closure(cl, argvals, kwvals, st):
        eng.stats["paths"] += 1
        if isinstance(r, Raise):
            nexits["raise"] += 1
            _raise_obligations(eng, con, params, pre, st1, r.exc)
        else:
            nexits["return"] += 1
            rt = eng.lift(r, st1)
            ctx = Ctx(eng, params, pre, st1, result=rt)
            ctx.result_value = r
            _frame_obligations(eng, con, pre, st1, "on return")
            for nm, fn in con.ensures_:
                g = fn(ctx)
                eng.oblige(st1, f"ensures {nm}", g, "post", info={"ctx": ctx})
    res.exits = nexits
    if con.ensures_ and nexits["return"] == 0 and not getattr(con, "allow_no_return", False):
        eng.oblige(pre, "some path returns normally (postconditions are not vacuous)", z3.BoolVal(False), "cover-fail")
    res.obligations = eng.obligations
    res.paths = eng.stats["paths"]
    res.inlined = sorted(eng.inlined)
    res.contracts_used = sorted(eng.contract_used)
    res.engine = eng
    res.params = params
    res.pre = pre


def _verify_live(eng, con, pack, modular_contracts, res, mod):
    """Entry through the live module attribute (singledispatch wrappers, decorated functions)."""
    target = mod
    for p in con.qualname.split("."):
        target = getattr(target, p)
    try:
        src = S.find_by_qualname(con.module, con.qualname)
        res.file = src.rel_path()
        res.lines = src.lines
    except KeyError:
        res.file = getattr(mod, "__file__", "")
    for key, c in modular_contracts.items():
        for o, ls in c.loops.items():
            eng.loop_specs[(key, o)] = ls
    st = State()
    for fn in pack.common_setup:
        fn(eng, st)
    for fn in con.setup_:
        fn(eng, st)
    params = {}
    argvals = []
    for n, t in con.params.items():
        if isinstance(t, _ObjT):
            t.bind(eng)
        term = z3.Const(f"arg.{n}", V.Val)
        st.assume(t.pred(term))
        st.assume(eng.external_ref_fact(st, term))
        params[n] = term
        argvals.append(SV(term, hint=t.hint))
    pre = st.copy()
    ctx0 = Ctx(eng, params, pre, pre, assuming=True)
    for nm, fn in con.requires_:
        st.assume(fn(ctx0))
    pre = st.copy()
    eng.oblige(st, "precondition is satisfiable (vacuity guard)", z3.BoolVal(True), "cover")
    nexits = {"return": 0, "raise": 0}
    for st1, r in eng.call(target, argvals, {}, st):
        eng.stats["paths"] += 1
        if isinstance(r, Raise):
            nexits["raise"] += 1
            _raise_obligations(eng, con, params, pre, st1, r.exc)
        else:
            nexits["return"] += 1
            rt = eng.lift(r, st1)
            ctx = Ctx(eng, params, pre, st1, result=rt)
            ctx.result_value = r
            for nm, fn in con.ensures_:
                eng.oblige(st1, f"ensures {nm}", fn(ctx), "post", info={"ctx": ctx})
    res.exits = nexits
    if con.ensures_ and nexits["return"] == 0 and not getattr(con, "allow_no_return", False):
        eng.oblige(pre, "some path returns normally (postconditions are not vacuous)", z3.BoolVal(False), "cover-fail")
    res.obligations = eng.obligations
    res.paths = eng.stats["paths"]
    res.inlined = sorted(eng.inlined)
    res.contracts_used = sorted(eng.contract_used)
    res.engine = eng
    res.params = params
    res.pre = pre


def _frame_obligations(eng, con, pre, st, what):
    fr = getattr(con, "frame_", None)
    if fr is None:
        return
    fields, lists, sets = fr
    # "nothing that existed before the call changed": objects allocated by the call itself (addresses above the
    # allocation mark of the pre-state) are not part of the frame.  k is an arbitrary pre-existing address.
    mark = len(pre.local_objs)
    k = z3.Int(V.fresh_name("frame_addr"))
    for f, arr in st.heap.items():
        if f in fields:
            continue
        base = pre.heap.get(f)
        if base is None:
            base = z3.Const(f"H0.{f}", arr.sort())
        if not z3.eq(arr, base):
            eng.oblige(st, f"frame ({what}): field {f} of every pre-existing object is not modified", z3.Implies(k <= mark, z3.Select(arr, k) == z3.Select(base, k)), "frame")
    if not lists and not z3.eq(st.lists, pre.lists):
        eng.oblige(st, f"frame ({what}): no pre-existing list is modified", z3.Implies(k <= mark, z3.Select(st.lists, k) == z3.Select(pre.lists, k)), "frame")
    if not sets and not z3.eq(st.sets, pre.sets):
        eng.oblige(st, f"frame ({what}): no pre-existing set is modified", z3.Implies(k <= mark, z3.Select(st.sets, k) == z3.Select(pre.sets, k)), "frame")
    for nm in sorted(set(st.aux) | set(pre.aux)):
        if nm in getattr(con, "frame_aux", ()):
            continue
        a1, a0 = st.aux.get(nm), pre.aux.get(nm)
        if a1 is None or not z3.is_expr(a1) or not z3.is_array(a1):
            continue
        if a0 is None:
            a0 = z3.Const(nm + "0", a1.sort())
        if not z3.eq(a1, a0):
            eng.oblige(st, f"frame ({what}): library state {nm} of every pre-existing object is not modified", z3.Implies(k <= mark, z3.Select(a1, k) == z3.Select(a0, k)), "frame")


def _raise_obligations(eng, con, params, pre, st, exc: Exc):
    _frame_obligations(eng, con, pre, st, "on raise")
    ctx = Ctx(eng, params, pre, st, exc=exc)
    label = exc.pycls.__name__ if exc.pycls else "unknown-class exception"
    if con.raises_ is not None:
        if exc.pycls is not None:
            ok = any(issubclass(exc.pycls, c) for c in con.raises_)
            eng.oblige(st, f"raises only {[c.__name__ for c in con.raises_]}: path raising {label} {exc.note}", z3.BoolVal(ok), "raises", info={"ctx": ctx})
        else:
            goal = z3.Or(*[V.isinst(V.cls_of(exc.term), eng.class_id(c)) for c in con.raises_]) if con.raises_ else z3.BoolVal(False)
            if getattr(con, "allow_callback_exceptions", False):
                goal = z3.BoolVal(True)
            eng.oblige(st, f"raises only {[c.__name__ for c in con.raises_]}: exception propagated from a callback", goal, "raises", info={"ctx": ctx})
    for nm, classes, fn in con.raise_conds:
        if exc.pycls is not None and any(issubclass(exc.pycls, c) for c in classes):
            eng.oblige(st, f"raises {label} only if {nm}", fn(ctx), "raises-cond", info={"ctx": ctx})
    for nm, fn in con.ensures_on_raise_:
        eng.oblige(st, f"on raise ({label}): {nm}", fn(ctx), "post-raise", info={"ctx": ctx})
