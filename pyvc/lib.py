"""Trusted contracts (as executable models) of the persistent-collection libraries.

pyrsistent ``pvector`` / evolver / ``plist`` / ``pdeque`` and ``immutables.Map`` /
``MapMutation`` are *values*: an address with state-independent content
(``seq_of`` / ``map_of`` + ``dom_of``).  That they really are persistent (no
operation changes an existing value; an evolver/mutation never writes through to
its source) is exactly what is assumed here and listed in the trusted base.

Key equality in maps is z3 equality on ``key_norm`` (bool/int/integral Fraction
are identified as Python does; everything else is structural/identity) - the
hashing and ``__eq__`` of *user* keys are not modelled here (see C05).
"""
from __future__ import annotations

import z3

from . import vals as V
from . import ops
from .engine import SV, Exc, Raise, Unsupported, Model, BoundMethod
from .loops import SymIter


def classes():
    import immutables
    import pyrsistent

    PVec = type(pyrsistent.pvector())
    Evolver = type(pyrsistent.pvector().evolver())
    PList = type(pyrsistent.plist([1]))
    EmptyPList = type(pyrsistent.plist())
    PDeque = type(pyrsistent.pdeque())
    IMap = immutables.Map
    IMut = type(immutables.Map().mutate())
    return dict(PVec=PVec, Evolver=Evolver, PList=PList, EmptyPList=EmptyPList, PDeque=PDeque, IMap=IMap, IMut=IMut)


map_size = z3.Function("map_size", z3.IntSort(), z3.IntSort())
deque_maxlen = z3.Function("deque_maxlen", z3.IntSort(), z3.IntSort())  # -1: unbounded


def dict_content(st, addr):
    """(map, domain) of the Python dict object at ``addr`` in state ``st`` (mutable: kept in st.aux)."""
    if "pdm" not in st.aux:
        st.aux["pdm"] = z3.Const("pdm0", z3.ArraySort(z3.IntSort(), z3.ArraySort(V.Val, V.Val)))
    if "pdd" not in st.aux:
        st.aux["pdd"] = z3.Const("pdd0", z3.ArraySort(z3.IntSort(), z3.ArraySort(V.Val, z3.BoolSort())))
    return z3.Select(st.aux["pdm"], addr), z3.Select(st.aux["pdd"], addr)


def deque_history(st, addr):
    """(items, count): everything ever appended to the deque at ``addr`` in state ``st`` (kept in st.aux)."""
    if "dqv" not in st.aux:
        st.aux["dqv"] = z3.Const("dqv0", z3.ArraySort(z3.IntSort(), z3.ArraySort(z3.IntSort(), V.Val)))
    if "dqn" not in st.aux:
        st.aux["dqn"] = z3.Const("dqn0", z3.ArraySort(z3.IntSort(), z3.IntSort()))
    return z3.Select(st.aux["dqv"], addr), z3.Select(st.aux["dqn"], addr)


# the set of elements of a sequence (spec function; uninterpreted: only "the same sequence has the same members" is used)
seq_members = z3.Function("seq_members", V.ValSeq, z3.ArraySort(V.Val, z3.BoolSort()))


def key_norm(k):
    """Python-equal scalar keys are the same key: True == 1 == Fraction(1)."""
    return z3.If(
        V.is_bool(k),
        V.mk_int(z3.If(V.Val.b(k), 1, 0)),
        z3.If(z3.And(V.is_frac(k), z3.IsInt(V.Val.q(k))), V.mk_int(z3.ToInt(V.Val.q(k))), k),
    )


def _has_ite(t, depth=12):
    if z3.is_app(t):
        if t.decl().kind() == z3.Z3_OP_ITE:
            return True
        if depth > 0:
            return any(_has_ite(c, depth - 1) for c in t.children())
    return False


class Enum:
    """An arbitrary-order enumeration: item i is the uninterpreted ``f(i)`` for 0 <= i < n."""

    def __init__(self, n, label):
        self.n = n
        self.f = z3.Function(V.fresh_name(label), z3.IntSort(), V.Val)
        self.inv = z3.Function(V.fresh_name(label + "_index"), V.Val, z3.IntSort())  # position of a member

    def axioms(self, member):
        """The enumeration lists exactly the members (``member(k)`` a z3 Bool), each exactly once:
        f is a bijection between [0, n) and the members, with inverse ``inv``."""
        i = z3.Int(V.fresh_name("i"))
        k = z3.Const(V.fresh_name("k"), V.Val)
        body_k = z3.Implies(member(k), z3.And(self.inv(k) >= 0, self.inv(k) < self.n, self.f(self.inv(k)) == k))
        if _has_ite(member(k)):  # not a legal trigger
            ax_k = z3.ForAll([k], body_k, patterns=[self.inv(k)])
        else:
            ax_k = z3.ForAll([k], body_k, patterns=[member(k)])
        return [
            self.n >= 0,
            z3.ForAll([i], z3.Implies(z3.And(i >= 0, i < self.n), z3.And(member(self.f(i)), self.inv(self.f(i)) == i)), patterns=[self.f(i)]),
            ax_k,
        ]

    def __getitem__(self, i):
        return self.f(i if z3.is_expr(i) else z3.IntVal(int(i)))


def knorm(eng, st, k):
    """key_norm of an executor value, skipping the case split when the path already excludes
    bool / Fraction keys (keeps triggers and models free of if-then-else)."""
    if isinstance(k, SV) and k.hint is not None:
        return k.t
    t = eng.lift(k, st)
    ts = z3.simplify(t)
    if z3.is_app(ts) and ts.decl().name() in ("ref", "str", "int", "none", "bytes"):
        return ts
    if not eng.feasible(st, [z3.Or(V.is_bool(t), V.is_frac(t))]):
        return t
    return key_norm(t)


def elem_eq(a, b):
    """Container element comparison: identity shortcut, then ==."""
    return z3.Or(a == b, ops.eq_term(None, a, b))


def mutation_content(st, addr):
    """(map, domain, size) of the immutables MapMutation at ``addr`` in state ``st`` (mutable: kept in st.aux)."""
    for nm, srt in (("mutm", z3.ArraySort(z3.IntSort(), z3.ArraySort(V.Val, V.Val))), ("mutd", z3.ArraySort(z3.IntSort(), z3.ArraySort(V.Val, z3.BoolSort()))),
                    ("mutn", z3.ArraySort(z3.IntSort(), z3.IntSort()))):
        if nm not in st.aux:
            st.aux[nm] = z3.Const(nm + "0", srt)
    return z3.Select(st.aux["mutm"], addr), z3.Select(st.aux["mutd"], addr), z3.Select(st.aux["mutn"], addr)


def new_seq_value(eng, st, pycls, seq_term):
    sv = eng.alloc(st, pycls)
    st.assume(V.seq_of(V.Val.a(sv.t)) == seq_term)
    return sv


def new_map_value(eng, st, pycls, m, d, size):
    sv = eng.alloc(st, pycls)
    a = V.Val.a(sv.t)
    st.assume(V.map_of(a) == m, V.dom_of(a) == d, map_size(a) == size)
    return sv


def seq_content(eng, v, st):
    """z3 Seq(Val) holding the items of an iterable value (tuple, list, pvector ...)."""
    C = eng.libcls
    if type(v) in (C["PVec"], C["PList"], C["EmptyPList"], C["PDeque"]):
        v = list(v)  # a concrete library value (e.g. the wrapped value of a module-level EMPTY constant)
    if isinstance(v, (tuple, list)):
        ts = [eng.lift(x, st) for x in v]
        if not ts:
            return z3.Empty(V.ValSeq)
        us = [z3.Unit(t) for t in ts]
        return us[0] if len(us) == 1 else z3.Concat(*us)
    if isinstance(v, SymIter) and v.seq is not None:
        return v.seq
    if isinstance(v, SV):
        if v.hint is list or v.hint is C["Evolver"]:
            return z3.Select(st.lists, V.Val.a(v.t))
        if v.hint is tuple or v.hint in eng.seq_classes:
            return V.seq_of(V.Val.a(v.t))
        if v.hint is not None:
            it = _iter_of(eng, v, st)
            if it is not None and it.seq is not None:
                return it.seq
    raise Unsupported(f"sequence content of {v!r}")


def _iter_of(eng, v, st):
    from .loops import _as_symiter

    try:
        return _as_symiter(eng, v, st)
    except Unsupported:
        return None


def _int_index(eng, st, idx):
    """(is_int_bool z3, int term) for an index value."""
    t = eng.lift(idx, st)
    return V.is_intlike(t), V.int_of(t)


def install(eng):
    C = classes()
    eng.libcls = C
    eng.seq_classes = set(eng.seq_classes) | {C["PVec"], C["PList"], C["EmptyPList"], C["PDeque"]}
    for c in C.values():
        eng.class_id(c)
    import pyrsistent
    import immutables

    PVec, Evolver, IMap, IMut = C["PVec"], C["Evolver"], C["IMap"], C["IMut"]

    def mm(cls, name):
        def deco(fn):
            eng.method_models[(cls, name)] = Model(f"{cls.__name__}.{name}", fn)
            return fn

        return deco

    def reg(obj, name):
        def deco(fn):
            eng.models[id(obj)] = Model(name, fn)
            eng._keep.append(obj)
            return fn

        return deco

    # ------------------------------------------------------------------ pvector
    @reg(pyrsistent.pvector, "pvector")
    def m_pvector(eng, st, args, kw):
        if not args:
            yield st, new_seq_value(eng, st, PVec, z3.Empty(V.ValSeq))
            return
        v = args[0]
        if isinstance(v, SV) and v.hint is PVec:
            yield st, v
            return
        yield st, new_seq_value(eng, st, PVec, seq_content(eng, v, st))

    def seq_getitem(cls):
        def fn(eng, st, args, kw):
            self, idx = args
            sq = V.seq_of(V.Val.a(self.t))
            n = z3.Length(sq)
            from .engine import SliceVal

            if isinstance(idx, SliceVal):
                for st1, r in ops._seq_getitem(eng, self, sq, idx, st, "tuple"):
                    if isinstance(r, SV):
                        # result of the generic slice is a tuple value: re-tag as this class
                        yield st1, new_seq_value(eng, st1, cls, V.seq_of(V.Val.a(r.t)))
                    else:
                        yield st1, r
                return
            isint, i = _int_index(eng, st, idx)
            for st1, ok in eng.branch(isint, st):
                if not ok:
                    yield st1, Raise(Exc(TypeError, ("indices must be integers",)))
                    continue
                j = ops.norm_index(i, n)
                for st2, inb in eng.branch(z3.And(j >= 0, j < n), st1):
                    if inb:
                        r = z3.simplify(sq[j])
                        st2.assume(eng.external_ref_fact(st2, r))
                        yield st2, SV(r)
                    else:
                        yield st2, Raise(Exc(IndexError, ("index out of range",)))

        return fn

    def seq_len(eng, st, args, kw):
        yield st, SV(V.mk_int(z3.Length(V.seq_of(V.Val.a(args[0].t)))))

    def seq_iter(eng, st, args, kw):
        yield st, SymIter(V.seq_of(V.Val.a(args[0].t)))

    def seq_contains(eng, st, args, kw):
        self, item = args
        sq = V.seq_of(V.Val.a(self.t))
        it = eng.lift(item, st)
        j = z3.Int(V.fresh_name("j"))
        yield st, SV(V.mk_bool(z3.Exists([j], z3.And(j >= 0, j < z3.Length(sq), elem_eq(sq[j], it)))))

    def seq_hash(fname):
        f = ops.opq(fname, V.ValSeq, z3.IntSort())

        def fn(eng, st, args, kw):
            yield st, SV(V.mk_int(f(V.seq_of(V.Val.a(args[0].t)))))

        return fn

    for cls, hname in ((PVec, "H_pvector"), (C["PList"], "H_tuple"), (C["EmptyPList"], "H_tuple"), (C["PDeque"], "H_tuple")):
        eng.method_models[(cls, "__getitem__")] = Model(f"{cls.__name__}.__getitem__", seq_getitem(cls))
        eng.method_models[(cls, "__len__")] = Model(f"{cls.__name__}.__len__", seq_len)
        eng.method_models[(cls, "__iter__")] = Model(f"{cls.__name__}.__iter__", seq_iter)
        eng.method_models[(cls, "__contains__")] = Model(f"{cls.__name__}.__contains__", seq_contains)
        eng.method_models[(cls, "__hash__")] = Model(f"{cls.__name__}.__hash__", seq_hash(hname))

    @mm(PVec, "append")
    def pv_append(eng, st, args, kw):
        self, x = args
        xt = eng.lift(x, st)
        eng.escape(st, xt)
        yield st, new_seq_value(eng, st, PVec, z3.Concat(V.seq_of(V.Val.a(self.t)), z3.Unit(xt)))

    @mm(PVec, "extend")
    def pv_extend(eng, st, args, kw):
        self, xs = args
        yield st, new_seq_value(eng, st, PVec, z3.Concat(V.seq_of(V.Val.a(self.t)), seq_content(eng, xs, st)))

    def _set_seq(eng, st, sq, idx, val, allow_append=True):
        """pvector.set / evolver.set semantics. Yields (st, new_seq|Raise)."""
        n = z3.Length(sq)
        isint, i = _int_index(eng, st, idx)
        vt = eng.lift(val, st)
        eng.escape(st, vt)
        for st1, ok in eng.branch(isint, st):
            if not ok:
                yield st1, Raise(Exc(TypeError, ("'%s' object cannot be interpreted as an index",)))
                continue
            j = ops.norm_index(i, n)
            for st2, inb in eng.branch(z3.And(j >= 0, j < n), st1):
                if inb:
                    yield st2, z3.Concat(z3.SubSeq(sq, 0, j), z3.Unit(vt), z3.SubSeq(sq, j + 1, n - j - 1))
                    continue
                if allow_append:
                    for st3, app in eng.branch(j == n, st2):
                        if app:
                            yield st3, z3.Concat(sq, z3.Unit(vt))
                        else:
                            yield st3, Raise(Exc(IndexError, ("Index out of range",)))
                else:
                    yield st2, Raise(Exc(IndexError, ("Index out of range",)))

    @mm(PVec, "set")
    def pv_set(eng, st, args, kw):
        self, idx, val = args
        for st1, r in _set_seq(eng, st, V.seq_of(V.Val.a(self.t)), idx, val):
            yield st1, (r if isinstance(r, Raise) else new_seq_value(eng, st1, PVec, r))

    @mm(PVec, "mset")
    def pv_mset(eng, st, args, kw):
        self, kvs = args[0], args[1:]
        if len(kvs) % 2:
            yield st, Raise(Exc(TypeError, ("mset expected an even number of arguments",)))
            return

        def go(k, sq, st_):
            if k == len(kvs):
                yield st_, new_seq_value(eng, st_, PVec, sq)
                return
            for st1, r in _set_seq(eng, st_, sq, kvs[k], kvs[k + 1]):
                if isinstance(r, Raise):
                    yield st1, r
                else:
                    yield from go(k + 2, r, st1)

        yield from go(0, V.seq_of(V.Val.a(self.t)), st)

    @mm(PVec, "evolver")
    def pv_evolver(eng, st, args, kw):
        self = args[0]
        ev = eng.alloc(st, Evolver)
        st.lists = z3.Store(st.lists, V.Val.a(ev.t), V.seq_of(V.Val.a(self.t)))
        yield st, ev

    # ------------------------------------------------------------------ evolver (mutable; content in st.lists)
    def ev_seq(st, self):
        return z3.Select(st.lists, V.Val.a(self.t))

    @mm(Evolver, "append")
    def ev_append(eng, st, args, kw):
        self, x = args
        xt = eng.lift(x, st)
        eng.escape(st, xt)
        st.lists = z3.Store(st.lists, V.Val.a(self.t), z3.Concat(ev_seq(st, self), z3.Unit(xt)))
        yield st, self

    @mm(Evolver, "extend")
    def ev_extend(eng, st, args, kw):
        self, xs = args
        st.lists = z3.Store(st.lists, V.Val.a(self.t), z3.Concat(ev_seq(st, self), seq_content(eng, xs, st)))
        yield st, self

    def ev_set(eng, st, args, kw):
        self, idx, val = args
        for st1, r in _set_seq(eng, st, ev_seq(st, self), idx, val):
            if isinstance(r, Raise):
                yield st1, r
            else:
                st1.lists = z3.Store(st1.lists, V.Val.a(self.t), r)
                yield st1, self

    eng.method_models[(Evolver, "set")] = Model("evolver.set", ev_set)

    @mm(Evolver, "__setitem__")
    def ev_setitem(eng, st, args, kw):
        for st1, r in ev_set(eng, st, args, kw):
            yield st1, (r if isinstance(r, Raise) else None)

    @mm(Evolver, "__getitem__")
    def ev_getitem(eng, st, args, kw):
        self, idx = args
        sq = ev_seq(st, self)
        n = z3.Length(sq)
        isint, i = _int_index(eng, st, idx)
        for st1, ok in eng.branch(isint, st):
            if not ok:
                yield st1, Raise(Exc(TypeError, ("indices must be integers",)))
                continue
            j = ops.norm_index(i, n)
            for st2, inb in eng.branch(z3.And(j >= 0, j < n), st1):
                if inb:
                    r = z3.simplify(sq[j])
                    st2.assume(eng.external_ref_fact(st2, r))
                    yield st2, SV(r)
                else:
                    yield st2, Raise(Exc(IndexError, ("index out of range",)))

    @mm(Evolver, "__delitem__")
    def ev_delitem(eng, st, args, kw):
        self, idx = args
        sq = ev_seq(st, self)
        n = z3.Length(sq)
        isint, i = _int_index(eng, st, idx)
        j = ops.norm_index(i, n)
        for st2, inb in eng.branch(z3.And(isint, j >= 0, j < n), st):
            if inb:
                st2.lists = z3.Store(st2.lists, V.Val.a(self.t), z3.Concat(z3.SubSeq(sq, 0, j), z3.SubSeq(sq, j + 1, n - j - 1)))
                yield st2, None
            else:
                yield st2, Raise(Exc(IndexError, ("index out of range",)))

    @mm(Evolver, "__len__")
    def ev_len(eng, st, args, kw):
        yield st, SV(V.mk_int(z3.Length(ev_seq(st, args[0]))))

    @mm(Evolver, "__contains__")
    def ev_contains(eng, st, args, kw):
        # PVectorEvolver defines no __contains__/__iter__: Python falls back to __getitem__ iteration
        self, item = args
        sq = ev_seq(st, self)
        it = eng.lift(item, st)
        j = z3.Int(V.fresh_name("j"))
        yield st, SV(V.mk_bool(z3.Exists([j], z3.And(j >= 0, j < z3.Length(sq), elem_eq(sq[j], it)))))

    @mm(Evolver, "persistent")
    def ev_persistent(eng, st, args, kw):
        yield st, new_seq_value(eng, st, PVec, ev_seq(st, args[0]))

    # ------------------------------------------------------------------ immutables.Map
    def map_parts(self):
        a = V.Val.a(self.t)
        return V.map_of(a), V.dom_of(a), map_size(a)

    @reg(immutables.Map, "immutables.Map")
    def m_imap(eng, st, args, kw):
        if args or kw:
            a0 = args[0] if args else None
            if isinstance(a0, SV) and a0.hint is IMap and not kw and len(args) == 1:
                yield st, a0
                return
            from .engine import SymDict

            items = None
            if isinstance(a0, (dict, immutables.Map)) and not kw:
                items = list(a0.items())
            elif isinstance(a0, type({}.items())) and not kw:
                items = list(a0)
            elif isinstance(a0, SymDict):
                items = list(a0.items)
            elif isinstance(a0, (tuple, list)) and all(isinstance(p, tuple) and len(p) == 2 for p in a0) and not kw:
                items = list(a0)
            if items is None and isinstance(a0, SymIter) and getattr(a0, "pair_of_target", False) and getattr(getattr(a0, "src", None), "set_content", None) is not None:
                # Map((x, x) for x in <set>): domain = the set's members, every member maps to itself
                content = a0.src.set_content
                kk = z3.Const(V.fresh_name("k"), V.Val)
                ident = z3.Lambda([kk], kk)
                nn = set_card(content)
                st.assume(nn >= 0)
                yield st, new_map_value(eng, st, IMap, ident, content, nn)
                return
            if items is None and isinstance(a0, SymIter) and getattr(a0, "pair_of_target", False) and getattr(getattr(a0, "src", None), "map_parts", None) is not None:
                # Map((x, x) for x in <keys of a Map>): same domain and size, every member maps to itself
                _, d_src, n_src = a0.src.map_parts
                kk = z3.Const(V.fresh_name("k"), V.Val)
                yield st, new_map_value(eng, st, IMap, z3.Lambda([kk], kk), d_src, n_src)
                return
            if items is None and isinstance(a0, SymIter):
                # Map(iterable of (key, value) pairs) with keys known to be pairwise distinct
                if not getattr(a0, "distinct_keys", False):
                    raise Unsupported("immutables.Map(pairs): keys of the symbolic iterable are not known to be distinct")
                n = a0.length
                i = z3.Int(V.fresh_name("i"))
                kk = z3.Const(V.fresh_name("k"), V.Val)
                m = z3.Const(V.fresh_name("m"), z3.ArraySort(V.Val, V.Val))
                d = z3.Const(V.fresh_name("d"), z3.ArraySort(V.Val, z3.BoolSort()))
                pair = a0.item(eng, st, i)
                if not (isinstance(pair, tuple) and len(pair) == 2):
                    raise Unsupported("immutables.Map(iterable): items are not pairs")
                kt, vt = knorm(eng, st, pair[0]), eng.lift(pair[1], st)
                st.assume(
                    n >= 0,
                    z3.ForAll([i], z3.Implies(z3.And(i >= 0, i < n), z3.And(z3.Select(d, kt), z3.Select(m, kt) == vt))),
                    z3.ForAll([kk], z3.Implies(z3.Select(d, kk), z3.Exists([i], z3.And(i >= 0, i < n, kt == kk)))),
                )
                yield st, new_map_value(eng, st, IMap, m, d, n)
                return
            if items is None:
                raise Unsupported("immutables.Map(...) from a symbolic iterable")
            m = z3.K(V.Val, V.VNone)
            d = z3.K(V.Val, z3.BoolVal(False))
            size = z3.IntVal(0)
            for k, v in items:
                kt, vt = knorm(eng, st, k), eng.lift(v, st)
                size = size + z3.If(z3.Select(d, kt), 0, 1)
                m, d = z3.Store(m, kt, vt), z3.Store(d, kt, True)
            yield st, new_map_value(eng, st, IMap, m, d, size)
            return
        yield st, new_map_value(eng, st, IMap, z3.K(V.Val, V.VNone), z3.K(V.Val, z3.BoolVal(False)), z3.IntVal(0))

    def _wf_map(st, self):
        m, d, n = map_parts(self)
        st.assume(n >= 0)

    @mm(IMap, "set")
    def im_set(eng, st, args, kw):
        self, k, v = args
        m, d, n = map_parts(self)
        kt, vt = knorm(eng, st, k), eng.lift(v, st)
        eng.escape(st, kt)
        eng.escape(st, vt)
        yield st, new_map_value(eng, st, IMap, z3.Store(m, kt, vt), z3.Store(d, kt, True), n + z3.If(z3.Select(d, kt), 0, 1))

    @mm(IMap, "delete")
    def im_delete(eng, st, args, kw):
        self, k = args
        m, d, n = map_parts(self)
        kt = knorm(eng, st, k)
        for st1, present in eng.branch(z3.Select(d, kt), st):
            if present:
                yield st1, new_map_value(eng, st1, IMap, m, z3.Store(d, kt, False), n - 1)
            else:
                yield st1, Raise(Exc(KeyError, ()))

    def map_get(eng, st, args, kw):
        self, k = args[0], args[1]
        default = args[2] if len(args) > 2 else kw.get("default")
        m, d, n = map_parts(self)
        kt = knorm(eng, st, k)
        dt = eng.lift(default, st)
        r = z3.If(z3.Select(d, kt), z3.Select(m, kt), dt)
        st.assume(eng.external_ref_fact(st, r))
        vt_ = getattr(eng, "value_type", None)
        if callable(vt_) and not hasattr(vt_, "pred"):
            vt_ = vt_(eng, st, self)  # per-map declaration: function of the map being looked up
        if vt_ is not None:
            if hasattr(vt_, "bind"):
                vt_.bind(eng)
            fact = z3.Implies(z3.Select(d, kt), vt_.pred(z3.Select(m, kt)))
            eng.oblige(st, f"declared value type {vt_.name} of the looked-up map entry follows from the preconditions", fact, "value-type")
            st.assume(fact)
        yield st, SV(z3.simplify(r))

    eng.method_models[(IMap, "get")] = Model("Map.get", map_get)

    def map_getitem(eng, st, args, kw):
        self, k = args
        m, d, n = map_parts(self)
        kt = knorm(eng, st, k)
        for st1, present in eng.branch(z3.Select(d, kt), st):
            if present:
                r = z3.simplify(z3.Select(m, kt))
                st1.assume(eng.external_ref_fact(st1, r))
                yield st1, SV(r)
            else:
                yield st1, Raise(Exc(KeyError, ()))

    eng.method_models[(IMap, "__getitem__")] = Model("Map.__getitem__", map_getitem)

    def map_contains(eng, st, args, kw):
        self, k = args
        m, d, n = map_parts(self)
        yield st, SV(V.mk_bool(z3.Select(d, knorm(eng, st, k))))

    eng.method_models[(IMap, "__contains__")] = Model("Map.__contains__", map_contains)

    def map_len(eng, st, args, kw):
        m, d, n = map_parts(args[0])
        # trusted: the size is the cardinality of the domain - here only "size 0 iff empty domain" is needed
        st.assume(n >= 0, (n == 0) == (d == z3.K(V.Val, z3.BoolVal(False))))
        yield st, SV(V.mk_int(n))

    eng.method_models[(IMap, "__len__")] = Model("Map.__len__", map_len)

    def map_iter_seq(eng, st, self, what):
        """Iteration order of a hash map is arbitrary: a fresh sequence constrained to enumerate
        exactly the entries (each key once)."""
        m, d, n = map_parts(self)
        st.assume(n >= 0)
        key = ("map_iter", what, z3.simplify(V.Val.a(self.t)).get_id())
        ks = Enum(n, "keys")
        st.assume(*ks.axioms(lambda k_: z3.Select(d, k_)))
        return ks, m

    def typed_key(eng, st_, kk, where):
        """Declared element type of map keys / set members (pack option eng.key_type: a contract.T).
        It is an obligation first (it must follow from the function's preconditions) and only then used."""
        kt = getattr(eng, "key_type", None)
        if kt is None:
            return SV(kk)
        if hasattr(kt, "bind"):
            kt.bind(eng)
        eng.oblige(st_, f"declared key type {kt.name} of the iterated {where} follows from the preconditions", kt.pred(kk), "key-type")
        st_.assume(kt.pred(kk))
        return SV(kk, hint=kt.hint)

    def map_keys(eng, st, args, kw):
        ks, m = map_iter_seq(eng, st, args[0], "keys")

        def item(eng, st_, i):
            kk = ks[i]
            st_.assume(eng.external_ref_fact(st_, kk))
            return typed_key(eng, st_, kk, "keys")

        it = SymIter(None, length=ks.n, item=item, label="keys")
        it.distinct_keys = True
        it.keys_seq = ks
        it.map_parts = map_parts(args[0])
        yield st, it

    def map_values(eng, st, args, kw):
        ks, m = map_iter_seq(eng, st, args[0], "values")

        def item(eng, st_, i):
            r = z3.Select(m, ks[i])
            st_.assume(eng.external_ref_fact(st_, r))
            return SV(r)

        yield st, SymIter(None, length=ks.n, item=item, label="values")

    def map_items(eng, st, args, kw):
        ks, m = map_iter_seq(eng, st, args[0], "items")

        def item(eng, st_, i):
            kk = ks[i]
            r = z3.Select(m, kk)
            st_.assume(eng.external_ref_fact(st_, kk), eng.external_ref_fact(st_, r))
            vt_ = getattr(eng, "value_type", None)
            if callable(vt_) and not hasattr(vt_, "pred"):
                vt_ = vt_(eng, st_, args[0])
            hint = None
            if vt_ is not None:
                if hasattr(vt_, "bind"):
                    vt_.bind(eng)
                eng.oblige(st_, f"declared value type {vt_.name} of the iterated map's values follows from the preconditions", vt_.pred(r), "value-type")
                st_.assume(vt_.pred(r))
                hint = vt_.hint
            return (typed_key(eng, st_, kk, "items"), SV(r, hint=hint))

        it = SymIter(None, length=ks.n, item=item, label="items")
        it.keys_seq = ks
        yield st, it

    for cls in (IMap,):
        eng.method_models[(cls, "keys")] = Model("Map.keys", map_keys)
        eng.method_models[(cls, "__iter__")] = Model("Map.__iter__", map_keys)
        eng.method_models[(cls, "values")] = Model("Map.values", map_values)
        eng.method_models[(cls, "items")] = Model("Map.items", map_items)

    # ------------------------------------------------------------------ immutables MapMutation (mutable; content in st.aux)
    def mut_parts(st, self):
        return mutation_content(st, V.Val.a(self.t))

    def mut_store(st, self, m, d, n):
        a = V.Val.a(self.t)
        st.aux["mutm"] = z3.Store(st.aux["mutm"], a, m)
        st.aux["mutd"] = z3.Store(st.aux["mutd"], a, d)
        st.aux["mutn"] = z3.Store(st.aux["mutn"], a, n)

    @mm(IMap, "mutate")
    def im_mutate(eng, st, args, kw):
        # trusted: a mutation starts as a copy of its source and never writes through to it
        m, d, n = map_parts(args[0])
        mu = eng.alloc(st, IMut)
        mut_parts(st, mu)
        mut_store(st, mu, m, d, n)
        yield st, mu

    @mm(IMut, "__enter__")
    def mu_enter(eng, st, args, kw):
        yield st, args[0]

    @mm(IMut, "__exit__")
    def mu_exit(eng, st, args, kw):
        yield st, None

    def mu_set(eng, st, args, kw):
        self, k, v = args
        m, d, n = mut_parts(st, self)
        kt, vt = knorm(eng, st, k), eng.lift(v, st)
        eng.escape(st, kt)
        eng.escape(st, vt)
        mut_store(st, self, z3.Store(m, kt, vt), z3.Store(d, kt, True), n + z3.If(z3.Select(d, kt), 0, 1))
        yield st, None

    eng.method_models[(IMut, "set")] = Model("MapMutation.set", mu_set)
    eng.method_models[(IMut, "__setitem__")] = Model("MapMutation.__setitem__", mu_set)

    @mm(IMut, "__delitem__")
    def mu_del(eng, st, args, kw):
        self, k = args
        m, d, n = mut_parts(st, self)
        kt = knorm(eng, st, k)
        for st1, present in eng.branch(z3.Select(d, kt), st):
            if present:
                mut_store(st1, self, m, z3.Store(d, kt, False), n - 1)
                yield st1, None
            else:
                yield st1, Raise(Exc(KeyError, ()))

    @mm(IMut, "get")
    def mu_get(eng, st, args, kw):
        self, k = args[0], args[1]
        default = args[2] if len(args) > 2 else kw.get("default")
        m, d, n = mut_parts(st, self)
        kt = knorm(eng, st, k)
        r = z3.If(z3.Select(d, kt), z3.Select(m, kt), eng.lift(default, st))
        st.assume(eng.external_ref_fact(st, r))
        yield st, SV(z3.simplify(r))

    @mm(IMut, "__getitem__")
    def mu_getitem(eng, st, args, kw):
        self, k = args
        m, d, n = mut_parts(st, self)
        kt = knorm(eng, st, k)
        for st1, present in eng.branch(z3.Select(d, kt), st):
            if present:
                r = z3.simplify(z3.Select(m, kt))
                st1.assume(eng.external_ref_fact(st1, r))
                yield st1, SV(r)
            else:
                yield st1, Raise(Exc(KeyError, ()))

    @mm(IMut, "__contains__")
    def mu_contains(eng, st, args, kw):
        self, k = args
        m, d, n = mut_parts(st, self)
        yield st, SV(V.mk_bool(z3.Select(d, knorm(eng, st, k))))

    @mm(IMut, "__len__")
    def mu_len(eng, st, args, kw):
        m, d, n = mut_parts(st, args[0])
        st.assume(n >= 0)
        yield st, SV(V.mk_int(n))

    @mm(IMut, "finish")
    def mu_finish(eng, st, args, kw):
        m, d, n = mut_parts(st, args[0])
        yield st, new_map_value(eng, st, IMap, m, d, n)

    # ------------------------------------------------------------------ plist / pdeque
    PList, EmptyPList, PDeque = C["PList"], C["EmptyPList"], C["PDeque"]

    # trusted (pyrsistent): the empty plist is one singleton object of its own class; every PList instance is non-empty
    EMPTY_PLIST = pyrsistent.plist()
    eng._keep.append(EMPTY_PLIST)

    def describe_empty_plist(e, s, obj, term):
        if obj is EMPTY_PLIST:
            s.assume(V.seq_of(V.Val.a(term)) == z3.Empty(V.ValSeq))
        elif type(obj) in (PVec, PList, PDeque) and len(obj) <= 8:
            # a concrete library sequence (the wrapped value of a module-level constant): its items
            s.assume(V.seq_of(V.Val.a(term)) == seq_content(e, list(obj), s))
        elif type(obj) is IMap and len(obj) == 0:
            a = V.Val.a(term)
            s.assume(V.dom_of(a) == z3.K(V.Val, z3.BoolVal(False)), map_size(a) == 0)

    eng.const_describers.append(describe_empty_plist)

    def plist_value(eng, st, sq):
        """The PList with content sq: the singleton when sq is empty."""
        for st1, empty in eng.branch(z3.Length(sq) == 0, st):
            if empty:
                yield st1, SV(eng.lift(EMPTY_PLIST, st1), hint=EmptyPList)
            else:
                yield st1, new_seq_value(eng, st1, PList, sq)

    eng.plist_value = plist_value
    eng.empty_plist = EMPTY_PLIST

    @reg(pyrsistent.plist, "plist")
    def m_plist(eng, st, args, kw):
        src = args[0] if args else kw.get("iterable", ())
        if kw.get("reverse"):
            raise Unsupported("plist(reverse=True)")
        yield from plist_value(eng, st, seq_content(eng, src, st))

    for cls in (PList, EmptyPList):
        @mm(cls, "cons")
        def pl_cons(eng, st, args, kw):
            self, x = args
            xt = eng.lift(x, st)
            eng.escape(st, xt)
            yield st, new_seq_value(eng, st, PList, z3.Concat(z3.Unit(xt), V.seq_of(V.Val.a(self.t))))

        def pl_first(eng, st, args, kw):
            sq = V.seq_of(V.Val.a(args[0].t))
            for st1, ne in eng.branch(z3.Length(sq) > 0, st):
                if ne:
                    r = z3.simplify(sq[0])
                    st1.assume(eng.external_ref_fact(st1, r))
                    yield st1, SV(r)
                else:
                    yield st1, Raise(Exc(AttributeError, ("Empty PList has no first",)))

        def pl_rest(eng, st, args, kw):
            sq = V.seq_of(V.Val.a(args[0].t))
            for st1, short in eng.branch(z3.Length(sq) <= 1, st):
                if short:
                    yield st1, SV(eng.lift(EMPTY_PLIST, st1), hint=EmptyPList)
                else:
                    yield st1, new_seq_value(eng, st1, PList, z3.SubSeq(sq, 1, z3.Length(sq) - 1))

        mf_, mr_ = Model("plist.first", pl_first), Model("plist.rest", pl_rest)
        mf_.is_property = True
        mr_.is_property = True
        eng.method_models[(cls, "first")] = mf_
        eng.method_models[(cls, "rest")] = mr_

    @reg(pyrsistent.pdeque, "pdeque")
    def m_pdeque(eng, st, args, kw):
        src = args[0] if args else kw.get("iterable", ())
        if kw.get("maxlen") is not None:
            raise Unsupported("pdeque(maxlen=...)")
        yield st, new_seq_value(eng, st, PDeque, seq_content(eng, src, st))

    @mm(PDeque, "extend")
    def pd_extend(eng, st, args, kw):
        self, xs = args
        yield st, new_seq_value(eng, st, PDeque, z3.Concat(V.seq_of(V.Val.a(self.t)), seq_content(eng, xs, st)))

    def pd_left(eng, st, args, kw):
        sq = V.seq_of(V.Val.a(args[0].t))
        for st1, ne in eng.branch(z3.Length(sq) > 0, st):
            if ne:
                r = z3.simplify(sq[0])
                st1.assume(eng.external_ref_fact(st1, r))
                yield st1, SV(r)
            else:
                yield st1, Raise(Exc(IndexError, ("No elements in empty deque",)))

    ml_ = Model("pdeque.left", pd_left)
    ml_.is_property = True
    eng.method_models[(PDeque, "left")] = ml_

    @mm(PDeque, "popleft")
    def pd_popleft(eng, st, args, kw):
        sq = V.seq_of(V.Val.a(args[0].t))
        rest = z3.If(z3.Length(sq) > 0, z3.SubSeq(sq, 1, z3.Length(sq) - 1), sq)
        yield st, new_seq_value(eng, st, PDeque, rest)

    import itertools as _it

    if hasattr(_it, "batched"):
        @reg(_it.batched, "itertools.batched")
        def m_batched(eng, st, args, kw):
            seq, n = args[0], args[1]
            if not isinstance(seq, (tuple, list)) or not isinstance(n, int):
                raise Unsupported("itertools.batched over a symbolic-length sequence")
            yield st, [tuple(seq[i:i + n]) for i in range(0, len(seq), n)]

    map_hash = ops.opq("H_map", z3.ArraySort(V.Val, V.Val), z3.ArraySort(V.Val, z3.BoolSort()), z3.IntSort())

    @mm(IMap, "__hash__")
    def im_hash(eng, st, args, kw):
        m, d, n = map_parts(args[0])
        yield st, SV(V.mk_int(map_hash(m, d)))

    # ------------------------------------------------------------------ Python set() (mutable; content in st.sets)
    import builtins

    set_card = ops.opq("set_card", z3.ArraySort(V.Val, z3.BoolSort()), z3.IntSort())
    EMPTY_SET = z3.K(V.Val, z3.BoolVal(False))

    @reg(builtins.set, "set")
    def m_set(eng, st, args, kw):
        sv = eng.alloc(st, set)
        if not args:
            content = EMPTY_SET
        else:
            src = args[0]
            if isinstance(src, (tuple, list)):
                content = EMPTY_SET
                for x in src:
                    content = z3.Store(content, knorm(eng, st, x), True)
            elif isinstance(src, SV) and src.hint is set:
                content = z3.Select(st.sets, V.Val.a(src.t))
            elif isinstance(src, SV) and src.hint is list:
                content = seq_members(z3.Select(st.lists, V.Val.a(src.t)))
            elif isinstance(src, SV) and src.hint is None:
                # a value read from a container: its class is decided by the path condition
                for st1, pycls in eng.class_of(src, st):
                    if pycls not in (set, list):
                        raise Unsupported(f"set(iterable) of a symbolic {pycls.__name__}")
                    yield from m_set(eng, st1, [SV(src.t, hint=pycls)], kw)
                return
            else:
                raise Unsupported("set(iterable) of a symbolic iterable")
        st.sets = z3.Store(st.sets, V.Val.a(sv.t), content)
        yield st, sv

    def set_content_of(eng, st, v, what):
        """content of a value that is a Python set: by hint, or (for values read from containers) by its class fact,
        which is then an obligation"""
        if isinstance(v, SV) and v.hint is set:
            return z3.Select(st.sets, V.Val.a(v.t))
        t = eng.lift(v, st)
        eng.oblige(st, f"{what}: the operand is a set", z3.And(V.is_ref(t), V.cls_of(V.Val.a(t)) == eng.class_id(set)), "type")
        return z3.Select(st.sets, V.Val.a(t))

    @mm(set, "__sub__")
    def set_sub(eng, st, args, kw):
        self, other = args
        a, b = z3.Select(st.sets, V.Val.a(self.t)), set_content_of(eng, st, other, "set difference")
        kk = z3.Const(V.fresh_name("k"), V.Val)
        sv = eng.alloc(st, set)
        st.sets = z3.Store(st.sets, V.Val.a(sv.t), z3.SetDifference(a, b))
        yield st, sv

    @mm(set, "update")
    def set_update(eng, st, args, kw):
        self, other = args
        a, b = z3.Select(st.sets, V.Val.a(self.t)), set_content_of(eng, st, other, "set.update")
        kk = z3.Const(V.fresh_name("k"), V.Val)
        st.sets = z3.Store(st.sets, V.Val.a(self.t), z3.SetUnion(a, b))
        yield st, None

    # ------------------------------------------------------------------ Python dict objects held in fields / containers
    # (a dict *value* with symbolic identity: content in st.aux; keys are compared by key_norm, as for maps)
    def pd_get(st, a):
        return dict_content(st, a)

    @mm(dict, "__getitem__")
    def pd_getitem(eng, st, args, kw):
        self, k = args
        if not isinstance(self, SV):
            raise Unsupported("dict model: concrete dict with symbolic key")
        m, d = pd_get(st, V.Val.a(self.t))
        kt = knorm(eng, st, k)
        for st1, present in eng.branch(z3.Select(d, kt), st):
            if present:
                r = z3.Select(m, kt)
                st1.assume(eng.external_ref_fact(st1, r))
                yield st1, SV(r)
            else:
                yield st1, Raise(Exc(KeyError, ()))

    @mm(dict, "__setitem__")
    def pd_setitem(eng, st, args, kw):
        self, k, v = args
        if not isinstance(self, SV):
            raise Unsupported("dict model: store into a concrete dict")
        a = V.Val.a(self.t)
        m, d = pd_get(st, a)
        kt, vt = knorm(eng, st, k), eng.lift(v, st)
        eng.escape(st, kt)
        eng.escape(st, vt)
        st.aux["pdm"] = z3.Store(st.aux["pdm"], a, z3.Store(m, kt, vt))
        st.aux["pdd"] = z3.Store(st.aux["pdd"], a, z3.Store(d, kt, True))
        yield st, None

    @mm(dict, "__contains__")
    def pd_contains(eng, st, args, kw):
        self, k = args
        if not isinstance(self, SV):
            raise Unsupported("dict model: concrete dict with symbolic key")
        m, d = pd_get(st, V.Val.a(self.t))
        yield st, SV(V.mk_bool(z3.Select(d, knorm(eng, st, k))))

    # ------------------------------------------------------------------ collections.deque (append / index / len only)
    # The *history* of everything appended is kept (st.aux: an array of items and a count per deque); a bounded
    # deque shows its last `maxlen` items.  pop / popleft / appendleft are not modelled (bounded deques would need
    # the dropped items back).
    import collections as _coll

    def dq_parts(st, self):
        a = V.Val.a(self.t)
        items, cnt = deque_history(st, a)
        mx = deque_maxlen(a)
        return a, items, cnt, z3.If(z3.And(mx >= 0, mx < cnt), mx, cnt)

    @reg(_coll.deque, "collections.deque")
    def m_deque(eng, st, args, kw):
        sv = eng.alloc(st, _coll.deque)
        src = args[0] if args else kw.get("iterable", ())
        mx = args[1] if len(args) > 1 else kw.get("maxlen")
        if isinstance(src, SV):
            for st1, its in eng.iter_concrete(src, st):
                src = its
                st = st1
                break
        if not isinstance(src, (tuple, list)):
            raise Unsupported("deque(iterable) of symbolic length")
        mt = z3.IntVal(-1) if mx is None else V.int_of(eng.lift(mx, st))
        a = V.Val.a(sv.t)
        st.assume(deque_maxlen(a) == mt)
        items, _ = deque_history(st, a)
        for i_, x in enumerate(src):
            items = z3.Store(items, i_, eng.lift(x, st))
        st.aux["dqv"] = z3.Store(st.aux["dqv"], a, items)
        st.aux["dqn"] = z3.Store(st.aux["dqn"], a, z3.IntVal(len(src)))
        # (an initial iterable longer than maxlen would be truncated: not needed, so it is an obligation)
        eng.oblige(st, "deque(iterable, maxlen): the initial items fit", z3.Or(mt < 0, len(src) <= mt), "model-pre")
        yield st, sv

    @mm(_coll.deque, "append")
    def dq_append(eng, st, args, kw):
        self, x = args
        a, items, cnt, n = dq_parts(st, self)
        xt = eng.lift(x, st)
        eng.escape(st, xt)
        st.aux["dqv"] = z3.Store(st.aux["dqv"], a, z3.Store(items, cnt, xt))
        st.aux["dqn"] = z3.Store(st.aux["dqn"], a, cnt + 1)
        yield st, None

    @mm(_coll.deque, "__len__")
    def dq_len(eng, st, args, kw):
        a, items, cnt, n = dq_parts(st, args[0])
        yield st, SV(V.mk_int(n))

    @mm(_coll.deque, "__getitem__")
    def dq_getitem(eng, st, args, kw):
        self, idx = args
        a, items, cnt, n = dq_parts(st, self)
        isint, i = _int_index(eng, st, idx)
        for st1, ok in eng.branch(isint, st):
            if not ok:
                yield st1, Raise(Exc(TypeError, ("sequence index must be integer",)))
                continue
            j = z3.If(i < 0, i + n, i)
            for st2, inb in eng.branch(z3.And(j >= 0, j < n), st1):
                if inb:
                    r = z3.Select(items, z3.simplify(cnt - n + j))
                    st2.assume(eng.external_ref_fact(st2, r))
                    et = getattr(eng, "elem_type", None)
                    et = et(eng, st2, self) if et is not None else None
                    if et is not None:
                        # declared element type of this deque (pack option): an obligation first, then a fact
                        eng.oblige(st2, f"declared element type {et.name} of the indexed deque follows from the preconditions", et.pred(r), "elem-type")
                        st2.assume(et.pred(r))
                    yield st2, SV(r)
                else:
                    yield st2, Raise(Exc(IndexError, ("deque index out of range",)))

    @reg(builtins.list, "list")
    def m_list(eng, st, args, kw):
        if eng.all_concrete(args, kw):
            yield st, list(*args)
            return
        if args and not (isinstance(args[0], SV) and args[0].hint is set):
            try:
                for st1, items in eng.iter_concrete(args[0], st):
                    yield st1, (items if isinstance(items, Raise) else list(items))
                return
            except Unsupported:
                pass
        sv = eng.alloc(st, list)
        if not args:
            sq = z3.Empty(V.ValSeq)
        elif isinstance(args[0], SV) and args[0].hint is set:
            # list(<set>): some duplicate-free listing of exactly the members (order unspecified)
            sq = z3.Const(V.fresh_name("listing"), V.ValSeq)
            content = z3.Select(st.sets, V.Val.a(args[0].t))
            st.assume(seq_members(sq) == content, z3.Length(sq) == set_card(content), (z3.Length(sq) == 0) == (content == EMPTY_SET))
        else:
            sq = seq_content(eng, args[0], st)
        st.lists = z3.Store(st.lists, V.Val.a(sv.t), sq)
        yield st, sv

    @mm(set, "add")
    def set_add(eng, st, args, kw):
        self, x = args
        a = V.Val.a(self.t)
        xt = eng.lift(x, st) if isinstance(x, SV) and x.hint is not None else knorm(eng, st, x)
        eng.escape(st, xt)
        st.sets = z3.Store(st.sets, a, z3.Store(z3.Select(st.sets, a), xt, True))
        yield st, None

    @mm(set, "__contains__")
    def set_contains(eng, st, args, kw):
        self, x = args
        yield st, SV(V.mk_bool(z3.Select(z3.Select(st.sets, V.Val.a(self.t)), knorm(eng, st, x))))

    @mm(set, "__len__")
    def set_len(eng, st, args, kw):
        c = z3.Select(st.sets, V.Val.a(args[0].t))
        n = set_card(c)
        st.assume(n >= 0, (n == 0) == (c == EMPTY_SET))
        yield st, SV(V.mk_int(n))

    def enum_set(eng, st, content):
        """Arbitrary-order enumeration of a set: fresh sequence listing exactly the members, each once."""
        n = set_card(content)
        ks = Enum(n, "members")
        st.assume(*ks.axioms(lambda k_: z3.Select(content, k_)))
        return ks

    eng.enum_set = enum_set

    @mm(set, "__iter__")
    def set_iter(eng, st, args, kw):
        content = z3.Select(st.sets, V.Val.a(args[0].t))
        ks = enum_set(eng, st, content)

        def item(eng_, st_, i, ks=ks):
            kk = ks[i]
            st_.assume(eng_.external_ref_fact(st_, kk))
            return typed_key(eng_, st_, kk, "set")

        it = SymIter(None, length=ks.n, item=item, label="set members")
        it.keys_seq = ks
        it.distinct_keys = True
        it.set_content = content
        yield st, it

    # ------------------------------------------------------------------ builtins over symbolic iterables

    def to_iter(eng, st, v):
        from .loops import _as_symiter, _concrete_items

        items = _concrete_items(eng, v, st)
        if items is not None:
            return items
        return _as_symiter(eng, v, st)

    @reg(builtins.zip, "zip")
    def m_zip(eng, st, args, kw):
        its = [to_iter(eng, st, a) for a in args]
        if all(isinstance(i, list) for i in its):
            yield st, list(zip(*its))
            return
        syms = []
        for it in its:
            if isinstance(it, list):
                vals = it
                syms.append(SymIter(None, length=z3.IntVal(len(vals)), item=lambda e, s, i, vals=vals: _pick(e, s, vals, i)))
            else:
                syms.append(it)
        yield st, SymIter.zip(syms)

    def _pick(eng, st, vals, i):
        r = eng.lift(vals[-1], st) if vals else V.VNone
        for k in range(len(vals) - 2, -1, -1):
            r = z3.If(i == k, eng.lift(vals[k], st), r)
        return SV(r)

    import itertools

    @reg(itertools.chain, "itertools.chain")
    def m_chain(eng, st, args, kw):
        # chain(a, b, ...) over iterables of concrete shape (Python lists / tuples whose elements may be symbolic): their
        # elements in order; a heap list of symbolic content contributes its content as one opaque run
        parts = []
        for a_ in args:
            if isinstance(a_, (list, tuple)):
                parts.append(list(a_))
            else:
                it = to_iter(eng, st, a_)
                if isinstance(it, list):
                    parts.append(it)
                elif it.seq is not None:
                    parts.append(it.seq)
                else:
                    raise Unsupported("itertools.chain over an iterable whose items are not known as a sequence")
        if all(isinstance(p_, list) for p_ in parts):
            yield st, eng.new_list(st, [x for p_ in parts for x in p_])  # (a heap list: it may be stored in an object)
            return
        seqs = []
        for p_ in parts:
            if isinstance(p_, list):
                seqs.extend(z3.Unit(eng.lift(x, st)) for x in p_)
            else:
                seqs.append(p_)
        content = seqs[0] if len(seqs) == 1 else z3.Concat(*seqs)
        r = eng.alloc(st, list)
        st.lists = z3.Store(st.lists, V.Val.a(r.t), content)
        yield st, r

    @reg(itertools.islice, "itertools.islice")
    def m_islice(eng, st, args, kw):
        # islice(iterable, stop): the first min(stop, len) items
        if len(args) != 2:
            raise Unsupported("itertools.islice with start/step")
        it = to_iter(eng, st, args[0])
        stop = eng.lift(args[1], st)
        if isinstance(it, list) or it.seq is None:
            raise Unsupported("itertools.islice over an iterable whose items are not known as a sequence")
        n = V.Val.i(stop)
        take = z3.If(n < 0, 0, z3.If(n < z3.Length(it.seq), n, z3.Length(it.seq)))
        yield st, SymIter(z3.SubSeq(it.seq, 0, take))

    @reg(itertools.zip_longest, "itertools.zip_longest")
    def m_zip_longest(eng, st, args, kw):
        fill = kw.get("fillvalue")
        its = []
        for a_ in args:
            it = to_iter(eng, st, a_)
            if isinstance(it, list):
                vals = it
                it = SymIter(None, length=z3.IntVal(len(vals)), item=lambda e, s, i, vals=vals: _pick(e, s, vals, i))
            its.append(it)
        n = its[0].length
        for it in its[1:]:
            n = z3.If(it.length > n, it.length, n)
        ft = eng.lift(fill, st)

        def item(e, s, i):
            out = []
            for it in its:
                v = it.item(e, s, i)
                vt = e.lift(v, s)
                out.append(SV(z3.If(i < it.length, vt, ft)))
            return tuple(out)

        res = SymIter(None, length=n, item=item, label="zip_longest")
        res.parts = its
        yield st, res

    @reg(builtins.hasattr, "hasattr")
    def m_hasattr(eng, st, args, kw):
        obj, name = args
        if not isinstance(obj, SV):
            yield st, hasattr(obj, name)
            return
        for st1, pycls in eng.class_of(obj, st):
            yield st1, hasattr(pycls, name)

    @reg(builtins.enumerate, "enumerate")
    def m_enumerate(eng, st, args, kw):
        it = to_iter(eng, st, args[0])
        start = args[1] if len(args) > 1 else kw.get("start", 0)
        if isinstance(it, list):
            yield st, list(enumerate(it, start))
            return
        st0 = eng.lift(start, st)
        yield st, SymIter(None, length=it.length, item=lambda e, s, i: (SV(V.mk_int(V.int_of(st0) + i)), it.item(e, s, i)), label="enumerate")

    @reg(builtins.iter, "iter")
    def m_iter(eng, st, args, kw):
        yield st, to_iter(eng, st, args[0])

    @reg(builtins.reversed, "reversed")
    def m_reversed(eng, st, args, kw):
        it = to_iter(eng, st, args[0])
        if isinstance(it, list):
            yield st, list(reversed(it))
            return
        n = it.length
        yield st, SymIter(None, length=n, item=lambda e, s, i: it.item(e, s, n - 1 - i), label="reversed")


def install_wrappers(eng):
    """Type invariants of basilisp's wrapper classes (_inner is the right library value) and the
    collections.abc mixin methods (items/keys/values of Mapping) in terms of the wrapped value."""
    from basilisp.lang.map import PersistentMap
    from basilisp.lang.set import PersistentSet
    from basilisp.lang.vector import PersistentVector, MapEntry

    C = eng.libcls
    imap, pvec = C["IMap"], C["PVec"]
    imid, pvid = eng.class_id(imap), eng.class_id(pvec)
    for cls in (PersistentMap, PersistentSet, PersistentVector, MapEntry):
        eng.class_id(cls)
    eng.field_types[("PersistentMap", "_inner")] = lambda v: (z3.And(V.is_ref(v), V.cls_of(V.Val.a(v)) == imid), imap)
    eng.field_types[("PersistentSet", "_inner")] = lambda v: (z3.And(V.is_ref(v), V.cls_of(V.Val.a(v)) == imid), imap)
    eng.field_types[("PersistentVector", "_inner")] = lambda v: (z3.And(V.is_ref(v), V.cls_of(V.Val.a(v)) == pvid), pvec)

    from basilisp.lang.list import PersistentList
    from basilisp.lang.queue import PersistentQueue

    plid, eplid, pdid = eng.class_id(C["PList"]), eng.class_id(C["EmptyPList"]), eng.class_id(C["PDeque"])
    eng.class_id(PersistentList)
    eng.class_id(PersistentQueue)
    empty_plist_term = eng._const_obj("obj", eng.empty_plist)

    def plist_type(v):
        # a PList instance is never empty; the empty plist is the singleton instance of its own class (trusted: pyrsistent)
        a = V.Val.a(v)
        nonempty = z3.And(V.cls_of(a) == plid, z3.Length(V.seq_of(a)) > 0)
        empty = z3.And(v == empty_plist_term, V.cls_of(a) == eplid, z3.Length(V.seq_of(a)) == 0)
        return z3.And(V.is_ref(v), z3.Or(nonempty, empty)), C["PList"]

    eng.field_types[("PersistentList", "_inner")] = plist_type
    eng.field_types[("PersistentQueue", "_inner")] = lambda v: (z3.And(V.is_ref(v), V.cls_of(V.Val.a(v)) == pdid), C["PDeque"])

    def plist_iter(e, s, args, k):
        # ISeq.__iter__ (SeqIterator of the native extension) walks first/rest: for a PersistentList these are the
        # items of the wrapped plist in order (trusted)
        inner = e.load_field(s, args[0].t, "_inner", PersistentList)
        yield s, SymIter(V.seq_of(V.Val.a(inner.t)))

    eng.method_models[(PersistentList, "__iter__")] = Model("PersistentList.__iter__", plist_iter)

    def describe_wrapper(e, s, obj, term):
        """Concrete persistent wrappers (e.g. lmap.EMPTY, lset.EMPTY, vec.EMPTY) that flow into symbolic state:
        their wrapped library value is read from the live object (size and, for empty ones, the exact content)."""
        if isinstance(obj, (PersistentMap, PersistentSet)) and len(obj._inner) == 0:
            ia = V.fresh_int("const_inner")
            s.assume(ia <= 0, V.cls_of(ia) == imid, V.dom_of(ia) == z3.K(V.Val, z3.BoolVal(False)), map_size(ia) == 0)
            s.assume(z3.Select(s.field_array("_inner"), V.Val.a(term)) == V.mk_ref(ia))
            s.assume(z3.Select(s.field_array("_meta"), V.Val.a(term)) == e.lift(obj._meta, s))
        elif isinstance(obj, PersistentVector) and len(obj._inner) == 0:
            ia = V.fresh_int("const_inner")
            s.assume(ia <= 0, V.cls_of(ia) == pvid, V.seq_of(ia) == z3.Empty(V.ValSeq))
            s.assume(z3.Select(s.field_array("_inner"), V.Val.a(term)) == V.mk_ref(ia))
            s.assume(z3.Select(s.field_array("_meta"), V.Val.a(term)) == e.lift(obj._meta, s))
        elif isinstance(obj, PersistentList) and len(obj._inner) == 0:
            s.assume(z3.Select(s.field_array("_inner"), V.Val.a(term)) == e.lift(e.empty_plist, s))
            s.assume(z3.Select(s.field_array("_meta"), V.Val.a(term)) == e.lift(obj._meta, s))
        elif isinstance(obj, PersistentQueue) and len(obj._inner) == 0:
            ia = V.fresh_int("const_inner")
            s.assume(ia <= 0, V.cls_of(ia) == pdid, V.seq_of(ia) == z3.Empty(V.ValSeq))
            s.assume(z3.Select(s.field_array("_inner"), V.Val.a(term)) == V.mk_ref(ia))
            s.assume(z3.Select(s.field_array("_meta"), V.Val.a(term)) == e.lift(obj._meta, s))

    eng.const_describers.append(describe_wrapper)

    def via_inner(name):
        def fn(e, s, args, k):
            inner = e.load_field(s, args[0].t, "_inner", PersistentMap)
            yield from e.method_models[(imap, name)].fn(e, s, [inner] + list(args[1:]), k)

        return fn

    # collections.abc.Mapping.items/keys/values iterate __iter__ and look each key up with __getitem__,
    # both of which PersistentMap delegates to the wrapped immutables.Map (trusted: stdlib mixins)
    for nm in ("items", "keys", "values", "get"):
        eng.method_models[(PersistentMap, nm)] = Model(f"PersistentMap.{nm}", via_inner(nm))


def install_assoc_model(eng):
    """Call-site model of PersistentMap.assoc(k, v) / dissoc(k): a new wrapper around inner.set / inner.delete
    with the same metadata.  The real bodies are verified against exactly this statement in the C04 pack."""
    from basilisp.lang.map import PersistentMap

    imap = eng.libcls["IMap"]

    def assoc(e, s, args, k):
        if len(args) != 3:
            raise Unsupported("assoc model: exactly one key/value pair")
        self, key, val = args
        inner = e.load_field(s, self.t, "_inner", PersistentMap)
        for s1, new_inner in e.method_models[(imap, "set")].fn(e, s, [inner, key, val], {}):
            obj = e.alloc(s1, PersistentMap)
            e.store_field(s1, obj.t, "_inner", new_inner.t, PersistentMap)
            e.store_field(s1, obj.t, "_meta", z3.Select(s1.field_array("_meta"), V.Val.a(self.t)), PersistentMap)
            yield s1, obj

    eng.method_models[(PersistentMap, "assoc")] = Model("PersistentMap.assoc", assoc)

    def dissoc(e, s, args, k):
        if len(args) != 2:
            raise Unsupported("dissoc model: exactly one key")
        self, key = args
        inner = e.load_field(s, self.t, "_inner", PersistentMap)
        a = V.Val.a(inner.t)
        m, d, n = V.map_of(a), V.dom_of(a), map_size(a)
        kt = knorm(e, s, key)
        new_inner = new_map_value(e, s, imap, m, z3.Store(d, kt, False), n - z3.If(z3.Select(d, kt), 1, 0))
        obj = e.alloc(s, PersistentMap)
        e.store_field(s, obj.t, "_inner", new_inner.t, PersistentMap)
        e.store_field(s, obj.t, "_meta", z3.Select(s.field_array("_meta"), V.Val.a(self.t)), PersistentMap)
        yield s, obj

    eng.method_models[(PersistentMap, "dissoc")] = Model("PersistentMap.dissoc", dissoc)

    from basilisp.lang.set import PersistentSet

    def set_cons(e, s, args, k):
        if len(args) != 2:
            raise Unsupported("PersistentSet.cons model: exactly one element")
        self, elem = args
        inner = e.load_field(s, self.t, "_inner", PersistentSet)
        a = V.Val.a(inner.t)
        m, d, n = V.map_of(a), V.dom_of(a), map_size(a)
        kt = knorm(e, s, elem)
        new_inner = new_map_value(e, s, imap, z3.Store(m, kt, kt), z3.Store(d, kt, True), n + z3.If(z3.Select(d, kt), 0, 1))
        obj = e.alloc(s, PersistentSet)
        e.store_field(s, obj.t, "_inner", new_inner.t, PersistentSet)
        e.store_field(s, obj.t, "_meta", z3.Select(s.field_array("_meta"), V.Val.a(self.t)), PersistentSet)
        yield s, obj

    eng.method_models[(PersistentSet, "cons")] = Model("PersistentSet.cons", set_cons)
