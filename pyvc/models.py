"""Models of Python builtins and the few stdlib callables the verified code uses.

These are part of the trusted base ("the encoding of Python's semantics").
Each model is a generator of (state, value|Raise).
"""
from __future__ import annotations

import decimal
import fractions
import functools
import math
import threading

import z3

from . import vals as V
from .engine import SV, Exc, Raise, Unsupported, Model, Closure, BoundMethod, tag_class_pairs, TAG_CLASSES
from . import ops


def install(eng):
    def reg(obj, name=None):
        def deco(fn):
            eng.models[id(obj)] = Model(name or getattr(obj, "__name__", str(obj)), fn)
            eng._keep = getattr(eng, "_keep", [])
            eng._keep.append(obj)
            return fn

        return deco

    # ------------------------------------------------------------ isinstance / type
    @reg(isinstance)
    def m_isinstance(eng, st, args, kw):
        v, cls = args
        from .engine import SliceVal

        if isinstance(v, SliceVal):
            classes = cls if isinstance(cls, tuple) else (cls,)
            yield st, any(c in (slice, object) for c in classes)
            return
        if not isinstance(v, SV):
            if isinstance(v, Exc):
                classes = cls if isinstance(cls, tuple) else (cls,)
                yield st, (v.pycls is not None and any(issubclass(v.pycls, c) for c in classes))
                return
            if isinstance(v, (Closure, BoundMethod, Model)):
                import collections.abc

                classes = cls if isinstance(cls, tuple) else (cls,)
                yield st, any(c in (object, collections.abc.Callable) for c in classes)
                return
            yield st, isinstance(v, cls)
            return
        ok, obj = eng.unlift_const(v.t)
        if ok:
            yield st, isinstance(obj, cls)
            return
        yield st, SV(V.mk_bool(isinstance_term(eng, v, cls, st)))

    @reg(type)
    def m_type(eng, st, args, kw):
        if len(args) != 1:
            raise Unsupported("type() with 3 args")
        yield from eng.class_of(args[0], st)

    @reg(callable)
    def m_callable(eng, st, args, kw):
        v = args[0]
        if isinstance(v, (Closure, BoundMethod, Model)):
            yield st, True
        elif isinstance(v, SV):
            yield st, SV(V.mk_bool(ops.opq("is_callable", V.Val, z3.BoolSort())(v.t)))
        else:
            yield st, callable(v)

    @reg(len)
    def m_len(eng, st, args, kw):
        v = args[0]
        if not isinstance(v, SV):
            yield st, len(v)
            return
        if v.hint is not None and v.hint not in (tuple, list):
            m = eng.lookup_method(v.hint, "__len__")
            if m is not None:
                yield from eng.call(BoundMethod(v, m), [], {}, st)
                return
        for st1, tag in ops._kind_cases(eng, v, st):
            if tag == "str":
                yield st1, SV(V.mk_int(z3.Length(V.Val.s(v.t))))
            elif tag == "bytes":
                yield st1, SV(V.mk_int(z3.Length(V.Val.by(v.t))))
            elif tag == "ref" and v.hint is tuple:
                yield st1, SV(V.mk_int(z3.Length(V.seq_of(V.Val.a(v.t)))))
            elif tag == "ref" and v.hint is list:
                yield st1, SV(V.mk_int(z3.Length(z3.Select(st1.lists, V.Val.a(v.t)))))
            elif tag == "ref":
                raise Unsupported(f"len() of object {v}")
            else:
                yield st1, Raise(Exc(TypeError, ("object has no len()",)))

    @reg(bool)
    def m_bool(eng, st, args, kw):
        if not args:
            yield st, False
            return
        for st1, c in eng.truthy(args[0], st):
            if isinstance(c, (Raise, bool)):
                yield st1, c
            else:
                yield st1, SV(V.mk_bool(c))

    @reg(hash)
    def m_hash(eng, st, args, kw):
        v = args[0]
        if isinstance(v, SV) and v.hint is tuple:
            # hash of a tuple: a function of its items (uninterpreted)
            yield st, SV(V.mk_int(ops.opq("H_tuple", V.ValSeq, z3.IntSort())(V.seq_of(V.Val.a(v.t)))))
            return
        if isinstance(v, SV) and v.hint is not None:
            m = eng.lookup_method(v.hint, "__hash__")
            if m is not None:
                yield from eng.call(BoundMethod(v, m), [], {}, st)
                return
        if isinstance(v, tuple):
            ts = [eng.lift(x, st) for x in v]
            f = ops.opq(f"hash_tuple{len(ts)}", *([V.Val] * len(ts) + [z3.IntSort()]))
            yield st, SV(V.mk_int(f(*ts)))
            return
        if not isinstance(v, SV):
            yield st, SV(V.mk_int(V.py_hash(eng.lift(v, st))))
            return
        yield st, SV(V.mk_int(V.py_hash(v.t)))

    @reg(id)
    def m_id(eng, st, args, kw):
        raise Unsupported("id()")

    @reg(int)
    def m_int(eng, st, args, kw):
        if not args:
            yield st, 0
            return
        v = args[0]
        if len(args) > 1 or kw:
            raise Unsupported("int(x, base) on symbolic value")
        for st1, tag in ops._kind_cases(eng, v if isinstance(v, SV) else SV(eng.lift(v, st)), st):
            t = eng.lift(v, st1)
            if tag in ("int", "bool"):
                yield st1, SV(V.mk_int(V.int_of(t)))
            elif tag == "frac":
                q = V.Val.q(t)
                yield st1, SV(V.mk_int(trunc_real(q)))
            elif tag in ("flt", "dec"):
                yield st1, SV(V.mk_int(ops.opq(f"int_of_{tag}", V.Val, z3.IntSort())(t)))
            else:
                raise Unsupported(f"int() of symbolic {tag}")

    @reg(float)
    def m_float(eng, st, args, kw):
        if not args:
            yield st, 0.0
            return
        v = args[0]
        t = eng.lift(v, st)
        for st1, tag in ops._kind_cases(eng, SV(t), st):
            if tag == "flt":
                yield st1, SV(t)
            elif tag in ("int", "bool", "frac", "dec", "str"):
                yield st1, SV(V.Val.flt(ops.opq(f"float_of_{tag}", V.Val, z3.IntSort())(t)))
            else:
                yield st1, Raise(Exc(TypeError, ("float() argument",)))

    @reg(str)
    def m_str(eng, st, args, kw):
        if not args:
            yield st, ""
            return
        v = args[0]
        t = eng.lift(v, st)
        for st1, tag in ops._kind_cases(eng, SV(t), st):
            if tag == "str":
                yield st1, SV(t)
            else:
                yield st1, SV(V.mk_str(ops.opq("str_of", V.Val, z3.StringSort())(t)))

    @reg(abs)
    def m_abs(eng, st, args, kw):
        v = args[0]
        t = eng.lift(v, st)
        for st1, tag in ops._kind_cases(eng, SV(t), st):
            if tag in ("int", "bool"):
                x = V.int_of(t)
                yield st1, SV(V.mk_int(z3.If(x < 0, -x, x)))
            elif tag == "frac":
                q = V.Val.q(t)
                yield st1, SV(V.mk_frac(z3.If(q < 0, -q, q)))
            elif tag in ("flt", "dec"):
                con = V.Val.flt if tag == "flt" else V.Val.dec
                yield st1, SV(con(ops.opq(f"abs_{tag}", V.Val, z3.IntSort())(t)))
            else:
                raise Unsupported(f"abs of {tag}")

    @reg(tuple)
    def m_tuple(eng, st, args, kw):
        if not args:
            yield st, ()
            return
        try:
            for st1, items in eng.iter_concrete(args[0], st):
                yield st1, (items if isinstance(items, Raise) else tuple(items))
        except Unsupported:
            # tuple(<sequence of symbolic length>): a tuple value with the same items
            from . import lib as _lib

            seq = _lib.seq_content(eng, args[0], st)
            sv = eng.alloc(st, tuple)
            st.assume(V.seq_of(V.Val.a(sv.t)) == seq)
            yield st, sv

    @reg(getattr)
    def m_getattr(eng, st, args, kw):
        obj, name = args[0], args[1]
        if isinstance(name, SV):
            raise Unsupported("getattr with symbolic name")
        for st1, r in eng.load_attr(obj, name, st):
            if isinstance(r, Raise) and len(args) > 2 and r.exc.pycls is AttributeError:
                yield st1, args[2]
            else:
                yield st1, r

    @reg(print)
    def m_print(eng, st, args, kw):
        yield st, None

    # ------------------------------------------------------------ math / fractions / decimal
    @reg(math.trunc)
    def m_trunc(eng, st, args, kw):
        t = eng.lift(args[0], st)
        for st1, tag in ops._kind_cases(eng, SV(t), st):
            if tag in ("int", "bool"):
                yield st1, SV(V.mk_int(V.int_of(t)))
            elif tag == "frac":
                yield st1, SV(V.mk_int(trunc_real(V.Val.q(t))))
            elif tag in ("flt", "dec"):
                # math.trunc(float/Decimal) -> int (may raise on nan/inf: Overflow/ValueError)
                p = ops.opq(f"is_finite_{tag}", V.Val, z3.BoolSort())(t)
                for st2, fin in eng.branch(p, st1):
                    if fin:
                        yield st2, SV(V.mk_int(ops.opq(f"trunc_{tag}", V.Val, z3.IntSort())(t)))
                    else:
                        yield st2, Raise(Exc(ValueError if tag == "flt" else decimal.InvalidOperation, ("cannot convert",)))
            else:
                yield st1, Raise(Exc(TypeError, ("type doesn't define __trunc__",)))

    @reg(__import__("operator").neg)
    def m_neg(eng, st, args, kw):
        # operator.neg(x) is -x (documented)
        import ast as _ast

        v = args[0]
        if not isinstance(v, SV):
            yield st, -v
            return
        yield from ops.unary(eng, _ast.USub(), v, st)

    @reg(math.floor)
    def m_floor(eng, st, args, kw):
        t = eng.lift(args[0], st)
        for st1, tag in ops._kind_cases(eng, SV(t), st):
            if tag in ("int", "bool"):
                yield st1, SV(V.mk_int(V.int_of(t)))
            elif tag == "frac":
                yield st1, SV(V.mk_int(z3.ToInt(V.Val.q(t))))
            elif tag in ("flt", "dec"):
                p = ops.opq(f"is_finite_{tag}", V.Val, z3.BoolSort())(t)
                for st2, fin in eng.branch(p, st1):
                    if fin:
                        yield st2, SV(V.mk_int(ops.opq(f"floor_{tag}", V.Val, z3.IntSort())(t)))
                    else:
                        yield st2, Raise(Exc(ValueError if tag == "flt" else decimal.InvalidOperation, ("cannot convert",)))
            else:
                yield st1, Raise(Exc(TypeError, ("must be real number",)))

    @reg(math.isnan)
    def m_isnan(eng, st, args, kw):
        t = eng.lift(args[0], st)
        for st1, tag in ops._kind_cases(eng, SV(t), st):
            if tag == "flt":
                yield st1, SV(V.mk_bool(V.flt_isnan(V.Val.f(t))))
            elif tag in ("int", "bool", "frac"):
                yield st1, False
            else:
                yield st1, SV(V.mk_bool(ops.opq("isnan_other", V.Val, z3.BoolSort())(t)))

    @reg(fractions.Fraction)
    def m_fraction(eng, st, args, kw):
        if kw and set(kw) <= {"numerator", "denominator"} and len(args) + len(kw) <= 2:
            args = list(args) + [kw[k_] for k_ in ("numerator", "denominator") if k_ in kw]
        if len(args) == 2:
            a, b = eng.lift(args[0], st), eng.lift(args[1], st)
            for st1, ta in ops._kind_cases(eng, SV(a), st):
                for st2, tb in ops._kind_cases(eng, SV(b), st1.copy()):
                    if ta in ("int", "bool", "frac") and tb in ("int", "bool", "frac"):
                        x, y = V.real_of(a), V.real_of(b)
                        for st3, z in eng.branch(y == 0, st2):
                            if z:
                                yield st3, Raise(Exc(ZeroDivisionError, ("Fraction(%s, 0)",)))
                            else:
                                yield st3, SV(V.mk_frac(x / y))
                    else:
                        yield st2, Raise(Exc(TypeError, ("both arguments should be Rational instances",)))
            return
        if len(args) == 1:
            a = eng.lift(args[0], st)
            for st1, ta in ops._kind_cases(eng, SV(a), st):
                if ta in ("int", "bool", "frac"):
                    yield st1, SV(V.mk_frac(V.real_of(a)))
                elif ta in ("flt", "dec", "str"):
                    # exact conversion of an opaque value: some rational (may raise on nan/inf/bad text)
                    p = ops.opq(f"frac_ok_{ta}", V.Val, z3.BoolSort())(a)
                    for st2, ok in eng.branch(p, st1):
                        if ok:
                            yield st2, SV(V.mk_frac(ops.opq(f"frac_of_{ta}", V.Val, z3.RealSort())(a)))
                        else:
                            yield st2, Raise(Exc(ValueError, ("cannot convert to Fraction",)))
                else:
                    yield st1, Raise(Exc(TypeError, ("argument should be a string or a Rational instance",)))
            return
        raise Unsupported("Fraction() arity")

    @reg(decimal.Decimal)
    def m_decimal(eng, st, args, kw):
        if not args:
            yield st, decimal.Decimal()
            return
        a = eng.lift(args[0], st)
        for st1, ta in ops._kind_cases(eng, SV(a), st):
            if ta == "dec":
                yield st1, SV(a)
            elif ta in ("int", "bool", "flt", "str"):
                r = V.Val.dec(ops.opq(f"dec_of_{ta}", V.Val, z3.IntSort())(a))
                if ta in ("int", "bool"):
                    # Decimal(int) is exact: zero iff the int is zero
                    st1.assume(ops.num_iszero(r) == (V.int_of(a) == 0))
                yield st1, SV(r)
            else:
                yield st1, Raise(Exc(TypeError, (f"conversion from {ta} to Decimal is not supported",)))

    def frac_as_integer_ratio(eng, st, args, kw):
        from .attrs import frac_parts

        self = args[0]
        n, d = frac_parts(eng, st, V.Val.q(self.t))
        yield st, (SV(V.mk_int(n)), SV(V.mk_int(d)))

    eng.method_models[(fractions.Fraction, "as_integer_ratio")] = Model("Fraction.as_integer_ratio", frac_as_integer_ratio)

    # ------------------------------------------------------------ functools
    @reg(functools.wraps)
    def m_wraps(eng, st, args, kw):
        yield st, Model("wraps-identity", lambda e, s, a, k: iter([(s, a[0])]))

    def _str_affix(name, fn):
        def model(eng, st, args, kw):
            self, affix = args[0], args[1]
            if len(args) != 2 or not isinstance(affix, str):
                raise Unsupported(f"str.{name} with a symbolic affix or a range")
            t = self.t if isinstance(self, SV) else eng.lift(self, st)
            yield st, SV(V.mk_bool(fn(z3.StringVal(affix), V.Val.s(t))))

        return Model(f"str.{name}", model)

    eng.method_models.setdefault((str, "startswith"), _str_affix("startswith", z3.PrefixOf))
    eng.method_models.setdefault((str, "endswith"), _str_affix("endswith", z3.SuffixOf))

    @reg(functools.total_ordering)
    def m_total_ordering(eng, st, args, kw):
        # the class itself: the derived operators (<=, >, >=) are not modelled, using one of them is unsupported
        yield st, args[0]

    # list methods (on heap lists)
    def list_append(eng, st, args, kw):
        self, v = args
        a = V.Val.a(self.t)
        vt = eng.lift(v, st)
        eng.escape(st, vt)
        st.lists = z3.Store(st.lists, a, z3.Concat(z3.Select(st.lists, a), z3.Unit(vt)))
        yield st, None

    def list_pop(eng, st, args, kw):
        self = args[0]
        if len(args) > 1:
            raise Unsupported("list.pop(i)")
        a = V.Val.a(self.t)
        sq = z3.Select(st.lists, a)
        n = z3.Length(sq)
        for st1, nonempty in eng.branch(n > 0, st):
            if not nonempty:
                yield st1, Raise(Exc(IndexError, ("pop from empty list",)))
            else:
                res = z3.simplify(sq[n - 1])
                st1.lists = z3.Store(st1.lists, a, z3.SubSeq(sq, 0, n - 1))
                st1.assume(eng.external_ref_fact(st1, res))
                yield st1, SV(res)

    def dict_get(eng, st, args, kw):
        """dict.get on a concrete dict with a symbolic key: one path per key, one for 'absent'."""
        d, key = args[0], args[1]
        default = args[2] if len(args) > 2 else None
        if not isinstance(d, dict):
            raise Unsupported("dict.get on a non-concrete dict")
        kt = eng.lift(key, st)
        for k, v in d.items():
            st2 = st.copy()
            st2.assume(ops.eq_term(eng, kt, eng.lift(k, st2)))
            if eng.feasible(st2):
                yield st2, v
        st.assume(*[z3.Not(ops.eq_term(eng, kt, eng.lift(k, st))) for k in d])
        if eng.feasible(st):
            yield st, default

    eng.method_models[(dict, "get")] = Model("dict.get", dict_get)

    def dict_items(eng, st, args, kw):
        """items() of a dict literal of concrete shape whose keys / values may be symbolic"""
        d = args[0]
        if not isinstance(d, dict):
            raise Unsupported("dict.items on a non-concrete dict")
        yield st, [(k, v) for k, v in d.items()]

    eng.method_models[(dict, "items")] = Model("dict.items", dict_items)

    # compiled regular expressions applied to a string of at most one character (how the reader classifies the
    # character under its cursor): the set of single characters the *live* pattern matches is computed by running it
    # over every code point (and the empty string) - exact for such arguments; the argument's length is an obligation
    import re as _re

    def re_match_one_char(eng, st, args, kw):
        pat, s = args[0], args[1]
        if isinstance(pat, SV):
            ok_, obj_ = eng.unlift_const(pat.t)
            pat = obj_ if ok_ else pat
        if not isinstance(pat, _re.Pattern) or len(args) != 2:
            raise Unsupported("regex match with a symbolic pattern / extra arguments")
        if not isinstance(s, SV):
            yield st, pat.match(s)
            return
        yes, no, empty = _single_char_matches(pat)
        t = s.t
        # "at most one character": a pack may supply its own predicate for it (avoids string-length arithmetic)
        pred = getattr(eng, "single_char_pred", None)
        short = pred(t) if pred is not None else z3.And(V.is_str(t), z3.Length(V.Val.s(t)) <= 1)
        eng.oblige(st, f"the string matched against {pat.pattern!r} has at most one character (the single-character regex model is exact)", short, "model-pre")
        st.assume(V.is_str(t), short)
        sv = V.Val.s(t)
        is_empty = sv == z3.StringVal("")
        if yes is not None:
            one = z3.Or(*[sv == z3.StringVal(c) for c in yes]) if yes else z3.BoolVal(False)
        else:
            one = z3.And(z3.Not(is_empty), *[sv != z3.StringVal(c) for c in no])
        cond = z3.Or(one, z3.And(is_empty, z3.BoolVal(empty)))
        yield st, SV(z3.If(cond, V.mk_bool(True), V.VNone))  # only the truth value of the match object is modelled

    eng.method_models[(_re.Pattern, "match")] = Model("re.Pattern.match (single character)", re_match_one_char)

    def re_search_char_class(eng, st, args, kw):
        """pattern.search(s) for a pattern that is one character class (or literal): some character of s is in the class.
        The class is read off the live pattern (sre parse tree must be a single IN / LITERAL item; its members are found
        by running the pattern over every code point)."""
        pat, s = args[0], args[1]
        if isinstance(pat, SV):
            ok_, obj_ = eng.unlift_const(pat.t)
            pat = obj_ if ok_ else pat
        if not isinstance(pat, _re.Pattern) or len(args) != 2:
            raise Unsupported("regex search with a symbolic pattern / extra arguments")
        if not isinstance(s, SV):
            yield st, pat.search(s)
            return
        try:
            import re._parser as _sre_parse  # Python >= 3.11
        except ImportError:  # pragma: no cover
            import sre_parse as _sre_parse
        tree = _sre_parse.parse(pat.pattern, pat.flags)
        if len(tree) != 1 or str(tree[0][0]) not in ("IN", "LITERAL"):
            raise Unsupported(f"regex search with a pattern that is not a single character class: {pat.pattern!r}")
        yes, no, empty = _single_char_matches(pat)
        if yes is None:
            raise Unsupported(f"regex search with a co-finite character class: {pat.pattern!r}")
        st.assume(V.is_str(s.t))
        sv = V.Val.s(s.t)
        found = z3.Or(*[z3.Contains(sv, z3.StringVal(c)) for c in yes]) if yes else z3.BoolVal(False)
        yield st, SV(z3.If(found, V.mk_bool(True), V.VNone))  # only the truth value of the match object is modelled

    eng.method_models[(_re.Pattern, "search")] = Model("re.Pattern.search (one character class)", re_search_char_class)

    def _all_any(is_all):
        def fn(eng, st, args, kw):
            from .engine import lib_to_iter

            items = lib_to_iter(eng, st, args[0])
            if not isinstance(items, list):
                raise Unsupported("all()/any() over an iterable of symbolic length")
            terms = []
            for it in items:
                rs = list(eng.truthy(it, st))
                if len(rs) != 1 or isinstance(rs[0][1], Raise):
                    raise Unsupported("all()/any(): element truth value forks")
                c = rs[0][1]
                terms.append(c if not isinstance(c, bool) else z3.BoolVal(c))
            if not terms:
                yield st, is_all
                return
            yield st, SV(V.mk_bool(z3.And(*terms) if is_all else z3.Or(*terms)))

        return fn

    import builtins as _b

    eng.models[id(_b.all)] = Model("all", _all_any(True))
    eng.models[id(_b.any)] = Model("any", _all_any(False))
    def list_len(eng, st, args, kw):
        yield st, SV(V.mk_int(z3.Length(z3.Select(st.lists, V.Val.a(args[0].t)))))

    eng.method_models[(list, "__len__")] = Model("list.__len__", list_len)
    def list_extend(eng, st, args, kw):
        from .loops import _as_symiter

        self, it = args
        a = V.Val.a(self.t)
        try:
            src = _as_symiter(eng, it, st)
            more = src.seq
        except Unsupported:
            more = None
        if more is None:
            # an iterable whose items are not known as a sequence: some items are appended (over-approximation)
            more = z3.Const(V.fresh_name("extended_by"), V.ValSeq)
        st.lists = z3.Store(st.lists, a, z3.Concat(z3.Select(st.lists, a), more))
        yield st, None

    eng.method_models[(list, "extend")] = Model("list.extend", list_extend)
    eng.method_models[(list, "append")] = Model("list.append", list_append)
    eng.method_models[(list, "pop")] = Model("list.pop", list_pop)


_SINGLE_CHAR_CACHE: dict = {}


def _single_char_matches(pat):
    """(matching chars | None, non-matching chars | None, matches the empty string) for a compiled pattern applied with
    .match to strings of length <= 1; whichever of the two sets is small is returned."""
    key = (pat.pattern, pat.flags)
    if key not in _SINGLE_CHAR_CACHE:
        import sys as _sys

        yes = [chr(c) for c in range(_sys.maxunicode + 1) if not (0xD800 <= c <= 0xDFFF) and pat.match(chr(c)) is not None]
        total = _sys.maxunicode + 1 - 0x800
        if len(yes) <= 4096:
            res = (yes, None, pat.match("") is not None)
        elif total - len(yes) <= 4096:
            ys = set(yes)
            res = (None, [chr(c) for c in range(_sys.maxunicode + 1) if not (0xD800 <= c <= 0xDFFF) and chr(c) not in ys], pat.match("") is not None)
        else:
            raise Unsupported(f"regex {pat.pattern!r}: neither the matching nor the non-matching single characters are few")
        _SINGLE_CHAR_CACHE[key] = res
    return _SINGLE_CHAR_CACHE[key]


def trunc_real(q):
    return z3.If(q >= 0, z3.ToInt(q), -z3.ToInt(-q))


def isinstance_term(eng, v: SV, cls, st):
    classes = cls if isinstance(cls, tuple) else (cls,)
    alts = []
    import numbers

    for c in classes:
        if c is object:
            return z3.BoolVal(True)
        if c in TAG_CLASSES:
            alts.append(TAG_CLASSES[c](v.t))
            continue
        if c in (numbers.Number, numbers.Complex):
            alts.append(z3.Or(V.is_intlike(v.t), V.is_frac(v.t), V.is_flt(v.t), V.is_dec(v.t) if c is numbers.Number else False, V.is_cplx(v.t)))
            continue
        if c is numbers.Real:
            alts.append(z3.Or(V.is_intlike(v.t), V.is_frac(v.t), V.is_flt(v.t)))
            continue
        if c is numbers.Rational:
            alts.append(z3.Or(V.is_intlike(v.t), V.is_frac(v.t)))
            continue
        if c is numbers.Integral:
            alts.append(V.is_intlike(v.t))
            continue
        # abstract classes that builtin scalars are virtual subclasses of
        scal = []
        for tag, pc in tag_class_pairs():
            try:
                if issubclass(pc, c):
                    scal.append(V.tag_test(tag, v.t))
            except TypeError:
                pass
        if v.hint is not None:
            try:
                sub = issubclass(v.hint, c)
            except TypeError:
                sub = False
            alts.append(z3.And(V.is_ref(v.t), z3.BoolVal(sub)))
        else:
            cid = eng.class_id(c)
            alts.append(z3.And(V.is_ref(v.t), V.isinst(V.cls_of(V.Val.a(v.t)), cid)))
        alts.extend(scal)
    return z3.Or(*alts) if alts else z3.BoolVal(False)
