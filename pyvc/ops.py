"""Operators of the Python subset: arithmetic, comparison, subscripts.

Encoding assumptions (reported in every evidence file):
 * int is mathematical Z; Fraction is an exact rational (z3 Real, only + - * /
   applied); float / Decimal / complex are opaque (type tracked, value not).
 * ``==``/``!=``/``<`` on operands that may be arbitrary objects are the
   uninterpreted relations py_eq / py_ne / py_lt with no algebraic laws.
"""
from __future__ import annotations

import ast

import z3

from . import vals as V
from .engine import SV, Exc, Raise, Unsupported, SliceVal, BoundMethod

# uninterpreted arithmetic on opaque numeric kinds (result identity only)
_opq = {}


def opq(name, *sorts):
    if name not in _opq:
        _opq[name] = z3.Function(name, *sorts)
    return _opq[name]


def _kind_cases(eng, v, st):
    """Fork a symbolic value over its possible tags. Yields (st, tag)."""
    if not isinstance(v, SV):
        raise AssertionError
    t = z3.simplify(v.t)
    if z3.is_app(t) and t.decl().name() in V.TAGS:
        yield st, t.decl().name()
        return
    tags = eng.feasible_tags(v.t, st)
    if len(tags) == 1:
        st.assume(V.tag_test(tags[0], v.t))
        yield st, tags[0]
        return
    for tag in tags:
        st2 = st.copy()
        st2.assume(V.tag_test(tag, v.t))
        yield st2, tag


def num_iszero(t):
    """z3 Bool: the numeric value is zero (opaque for float/Decimal/complex)."""
    return z3.If(V.is_exact_num(t), V.real_of(t) == 0, opq("opaque_iszero", V.Val, z3.BoolSort())(t))


NUMERIC = ("bool", "int", "frac", "flt", "dec", "cplx")
OPNAME = {
    ast.Add: "add",
    ast.Sub: "sub",
    ast.Mult: "mul",
    ast.Div: "truediv",
    ast.FloorDiv: "floordiv",
    ast.Mod: "mod",
    ast.Pow: "pow",
    ast.LShift: "lshift",
    ast.RShift: "rshift",
    ast.BitOr: "or",
    ast.BitAnd: "and",
    ast.BitXor: "xor",
}


def _tag_of_concrete(x):
    import decimal
    import fractions

    if x is None:
        return "none"
    if isinstance(x, bool):
        return "bool"
    if isinstance(x, int):
        return "int"
    if isinstance(x, fractions.Fraction):
        return "frac"
    if isinstance(x, float):
        return "flt"
    if isinstance(x, decimal.Decimal):
        return "dec"
    if isinstance(x, complex):
        return "cplx"
    if isinstance(x, str):
        return "str"
    if isinstance(x, bytes):
        return "bytes"
    return "ref"


def binop(eng, op, l, r, st, line=0):
    opn = OPNAME.get(type(op))
    if opn is None:
        raise Unsupported(f"binary operator {type(op).__name__}")
    if not isinstance(l, SV) and not isinstance(r, SV):
        if isinstance(l, (tuple, list)) or isinstance(r, (tuple, list)):
            if opn == "add" and type(l) is type(r):
                yield st, l + r
                return
        if eng.all_concrete([l, r]):
            import operator

            f = {
                "add": operator.add,
                "sub": operator.sub,
                "mul": operator.mul,
                "truediv": operator.truediv,
                "floordiv": operator.floordiv,
                "mod": operator.mod,
                "pow": operator.pow,
                "lshift": operator.lshift,
                "rshift": operator.rshift,
                "or": operator.or_,
                "and": operator.and_,
                "xor": operator.xor,
            }[opn]
            try:
                yield st, f(l, r)
            except Exception as e:  # noqa: BLE001
                yield st, Raise(Exc(type(e), e.args))
            return
    if isinstance(l, SV) and l.hint is not None and (l.hint, f"__{opn}__") in eng.method_models:
        # a library value with a modelled operator method (e.g. set difference)
        yield from eng.method_models[(l.hint, f"__{opn}__")].fn(eng, st, [l, r], {})
        return
    lsv = l if isinstance(l, SV) else SV(eng.lift(l, st))
    rsv = r if isinstance(r, SV) else SV(eng.lift(r, st))
    for st1, lt in _kind_cases(eng, lsv, st):
        for st2, rt in _kind_cases(eng, rsv, st1.copy()):
            yield from _binop_tags(eng, opn, lsv, lt, rsv, rt, st2, line)


def _binop_tags(eng, opn, l, lt, r, rt, st, line):
    a, b = l.t, r.t
    exact = ("bool", "int", "frac")
    if lt in ("bool", "int") and rt in ("bool", "int"):
        x, y = V.int_of(a), V.int_of(b)
        if opn == "add":
            yield st, SV(V.mk_int(x + y))
        elif opn == "sub":
            yield st, SV(V.mk_int(x - y))
        elif opn == "mul":
            yield st, SV(V.mk_int(x * y))
        elif opn in ("floordiv", "mod", "truediv"):
            for st1, z in eng.branch(y == 0, st):
                if z:
                    yield st1, Raise(Exc(ZeroDivisionError, ("division by zero",)))
                elif opn == "truediv":
                    yield st1, SV(V.Val.flt(opq("int_truediv", z3.IntSort(), z3.IntSort(), z3.IntSort())(x, y)))
                else:
                    # Python floor division / modulo (sign of divisor) from SMT-LIB div/mod (Euclidean)
                    # Python floor division: floor of the real quotient (z3 to_int is floor)
                    fq = z3.ToInt(z3.ToReal(x) / z3.ToReal(y))
                    if opn == "floordiv":
                        yield st1, SV(V.mk_int(fq))
                    else:
                        yield st1, SV(V.mk_int(x - y * fq))
        elif opn == "pow":
            ok, yv = V.as_concrete(V.mk_int(y))
            if ok and isinstance(yv, int) and 0 <= yv <= 4:
                res = z3.IntVal(1)
                for _ in range(yv):
                    res = res * x
                yield st, SV(V.mk_int(res))
            elif getattr(eng, "float_overflow", False):
                # x ** y with a symbolic exponent: an (opaque) integer for y >= 0, a float for y < 0 (ZeroDivisionError for 0 ** negative)
                st_f = st.copy()
                st.assume(y >= 0)
                if eng.feasible(st):
                    yield st, SV(V.mk_int(opq("int_pow", z3.IntSort(), z3.IntSort(), z3.IntSort())(x, y)))
                st_f.assume(y < 0)
                if eng.feasible(st_f):
                    for st1, z in eng.branch(x == 0, st_f):
                        if z:
                            yield st1, Raise(Exc(ZeroDivisionError, ("0.0 cannot be raised to a negative power",)))
                        else:
                            yield st1, SV(V.Val.flt(opq("int_pow_neg", z3.IntSort(), z3.IntSort(), z3.IntSort())(x, y)))
            else:
                raise Unsupported("integer power with symbolic exponent")
        elif opn in ("lshift", "rshift", "or", "and", "xor"):
            if lt == "bool" and rt == "bool" and opn in ("or", "and", "xor"):
                p, q_ = V.Val.b(a), V.Val.b(b)
                res = {"or": z3.Or(p, q_), "and": z3.And(p, q_), "xor": z3.Xor(p, q_)}[opn]
                yield st, SV(V.mk_bool(res))
            else:
                from .bits import bitop

                yield from bitop(eng, opn, x, y, st)
        else:
            raise Unsupported(opn)
        return
    if lt in exact and rt in exact:
        x, y = V.real_of(a), V.real_of(b)
        if opn == "add":
            yield st, SV(V.mk_frac(x + y))
        elif opn == "sub":
            yield st, SV(V.mk_frac(x - y))
        elif opn == "mul":
            yield st, SV(V.mk_frac(x * y))
        elif opn == "truediv":
            for st1, z in eng.branch(y == 0, st):
                if z:
                    yield st1, Raise(Exc(ZeroDivisionError, ("Fraction(%s, 0)",)))
                else:
                    yield st1, SV(V.mk_frac(x / y))
        elif opn in ("floordiv", "mod"):
            for st1, z in eng.branch(y == 0, st):
                if z:
                    yield st1, Raise(Exc(ZeroDivisionError, ("division by zero",)))
                else:
                    fq = z3.ToInt(x / y)
                    if opn == "floordiv":
                        yield st1, SV(V.mk_int(fq))
                    else:
                        yield st1, SV(V.mk_frac(x - y * z3.ToReal(fq)))
        else:
            raise Unsupported(f"{opn} on Fraction")
        return
    if lt in NUMERIC and rt in NUMERIC:
        kinds = {lt, rt}
        # Python numeric tower for opaque kinds
        if ("dec" in kinds and ("flt" in kinds or "frac" in kinds or "cplx" in kinds)):
            yield st, Raise(Exc(TypeError, (f"unsupported operand type(s) for {opn}: {lt} and {rt}",)))
            return
        if "cplx" in kinds:
            res_tag = "cplx"
        elif "flt" in kinds:
            res_tag = "flt"
        else:
            res_tag = "dec"
        f = opq(f"{opn}_{lt}_{rt}", V.Val, V.Val, z3.IntSort())
        con = {"cplx": V.Val.cplx, "flt": V.Val.flt, "dec": V.Val.dec}[res_tag]
        res = SV(con(f(a, b)))
        if getattr(eng, "float_overflow", False) and res_tag in ("flt", "cplx") and ("int" in kinds or "frac" in kinds):
            # mixed arithmetic converts the exact operand to float first: OverflowError when it is out of the range of a double
            # (the largest integer that still rounds to a finite double is 2**1024 - 2**970 - 1)
            ex_t, ex_tag = (a, lt) if lt in ("int", "frac") else (b, rt)
            q = V.real_of(ex_t) if ex_tag == "frac" else z3.ToReal(V.int_of(ex_t))
            bound = z3.RealVal(2**1024 - 2**970)
            st_o = st.copy()
            st_o.assume(z3.Or(q >= bound, q <= -bound))
            if eng.feasible(st_o):
                yield st_o, Raise(Exc(OverflowError, ("int too large to convert to float",)))
            st.assume(z3.And(q < bound, q > -bound))
            if not eng.feasible(st):
                return
        if opn in ("truediv", "floordiv", "mod"):
            # raises iff the divisor is zero (float: ZeroDivisionError; Decimal: DivisionByZero, or
            # InvalidOperation for 0/0, under the default context traps)
            p = num_iszero(b)
            for st1, z in eng.branch(p, st):
                if z:
                    import decimal

                    if res_tag != "dec":
                        yield st1, Raise(Exc(ZeroDivisionError, ("division by zero",)))
                    else:
                        st1b = st1.copy()
                        yield st1, Raise(Exc(decimal.DivisionByZero, ("division by zero",)))
                        yield st1b, Raise(Exc(decimal.InvalidOperation, ("0/0",)))
                else:
                    yield st1, res
        else:
            yield st, res
        return
    if lt == "str" and rt == "str" and opn == "add":
        yield st, SV(V.mk_str(z3.Concat(V.Val.s(a), V.Val.s(b))))
        return
    if lt == "bytes" and rt == "bytes" and opn == "add":
        yield st, SV(V.Val.bytes(z3.Concat(V.Val.by(a), V.Val.by(b))))
        return
    if lt == "str" and opn == "mod":
        raise Unsupported("%-formatting of symbolic string")
    if lt == "ref" or rt == "ref":
        # user-defined operator methods
        dunder = f"__{opn}__"
        rdunder = f"__r{opn}__"
        if lt == "ref" and l.hint is not None:
            m = eng.lookup_method(l.hint, dunder)
            if m is not None:
                yield from eng.call(BoundMethod(l, m), [r], {}, st, line)
                return
        if rt == "ref" and r.hint is not None:
            m = eng.lookup_method(r.hint, rdunder)
            if m is not None:
                yield from eng.call(BoundMethod(r, m), [l], {}, st, line)
                return
        if lt == "ref" and l.hint in (tuple,) and rt == "ref" and r.hint in (tuple,) and opn == "add":
            sq = z3.Concat(V.seq_of(V.Val.a(a)), V.seq_of(V.Val.a(b)))
            sv = eng.alloc(st, tuple)
            st.assume(V.seq_of(V.Val.a(sv.t)) == sq)
            yield st, sv
            return
        raise Unsupported(f"operator {opn} on object operands ({l}, {r}) line {line}")
    yield st, Raise(Exc(TypeError, (f"unsupported operand type(s) for {opn}: {lt} and {rt}",)))


def unary(eng, op, v: SV, st):
    for st1, tag in _kind_cases(eng, v, st):
        t = v.t
        if isinstance(op, ast.USub):
            if tag in ("int", "bool"):
                yield st1, SV(V.mk_int(-V.int_of(t)))
            elif tag == "frac":
                yield st1, SV(V.mk_frac(-V.Val.q(t)))
            elif tag in ("flt", "dec", "cplx"):
                con = {"cplx": V.Val.cplx, "flt": V.Val.flt, "dec": V.Val.dec}[tag]
                yield st1, SV(con(opq(f"neg_{tag}", V.Val, z3.IntSort())(t)))
            else:
                yield st1, Raise(Exc(TypeError, ("bad operand type for unary -",)))
        elif isinstance(op, ast.UAdd):
            if tag in ("int", "bool"):
                yield st1, SV(V.mk_int(V.int_of(t)))
            elif tag in ("frac", "flt", "dec", "cplx"):
                yield st1, v
            else:
                yield st1, Raise(Exc(TypeError, ("bad operand type for unary +",)))
        else:
            raise Unsupported("unary ~ on symbolic value")


# ----------------------------------------------------------------------------- comparison


def scalar_decidable(t):
    return z3.Or(V.is_none(t), V.is_bool(t), V.is_int(t), V.is_frac(t), V.is_str(t), V.is_bytes(t), V.is_notimpl(t))


def scalar_eq(a, b):
    return z3.Or(
        z3.And(V.is_none(a), V.is_none(b)),
        z3.And(V.is_notimpl(a), V.is_notimpl(b)),
        z3.And(V.is_exact_num(a), V.is_exact_num(b), V.real_of(a) == V.real_of(b)),
        z3.And(V.is_str(a), V.is_str(b), V.Val.s(a) == V.Val.s(b)),
        z3.And(V.is_bytes(a), V.is_bytes(b), V.Val.by(a) == V.Val.by(b)),
    )


def eq_term(eng, a, b):
    """z3 Bool for Python ``a == b`` when no user-defined __eq__ has to be run."""
    both = z3.And(scalar_decidable(a), scalar_decidable(b))
    return z3.If(both, scalar_eq(a, b), V.py_eq(a, b))


def ne_term(eng, a, b):
    both = z3.And(scalar_decidable(a), scalar_decidable(b))
    return z3.If(both, z3.Not(scalar_eq(a, b)), V.py_ne(a, b))


def _is_identity_obj(x):
    return not isinstance(x, (SV, int, float, str, bytes, tuple, type(None), bool)) or x is None or isinstance(x, bool)


def compare(eng, op, l, r, st, line=0):
    """Yields (st, value|Raise)."""
    if isinstance(op, (ast.Is, ast.IsNot)):
        res = identity(eng, l, r, st)
        if isinstance(op, ast.IsNot):
            res = (not res) if isinstance(res, bool) else z3.Not(res)
        yield st, (res if isinstance(res, bool) else SV(V.mk_bool(res)))
        return
    if isinstance(op, (ast.In, ast.NotIn)):
        for st1, res in contains(eng, r, l, st, line):
            if isinstance(res, Raise):
                yield st1, res
            elif isinstance(op, ast.NotIn):
                yield st1, ((not res) if isinstance(res, bool) else SV(V.mk_bool(z3.Not(res))))
            else:
                yield st1, (res if isinstance(res, bool) else SV(V.mk_bool(res)))
        return
    if not isinstance(l, (SV, Exc)) and not isinstance(r, (SV, Exc)) and eng.all_concrete([l, r]):
        import operator

        f = {ast.Eq: operator.eq, ast.NotEq: operator.ne, ast.Lt: operator.lt, ast.LtE: operator.le, ast.Gt: operator.gt, ast.GtE: operator.ge}[type(op)]
        try:
            yield st, f(l, r)
        except Exception as e:  # noqa: BLE001
            yield st, Raise(Exc(type(e), e.args))
        return
    if isinstance(op, (ast.Eq, ast.NotEq)):
        yield from equality(eng, l, r, st, negate=isinstance(op, ast.NotEq), line=line)
        return
    yield from ordering(eng, op, l, r, st, line)


def identity(eng, l, r, st):
    if not isinstance(l, SV) and not isinstance(r, SV):
        if isinstance(l, (tuple,)) or isinstance(r, (tuple,)):
            return l is r
        return l is r
    a, b = eng.lift(l, st), eng.lift(r, st)
    # identity of scalars is not defined by the language except for singletons;
    # for refs it is address equality; for None/bool/NotImplemented value equality.
    return a == b


def equality(eng, l, r, st, negate=False, line=0):
    # tuples with concrete shape: elementwise (identity shortcut then ==)
    if isinstance(l, tuple) and isinstance(r, tuple):
        if len(l) != len(r):
            yield st, negate
            return

        def go(i, st_):
            if i == len(l):
                yield st_, (not negate)
                return
            for st1, res in equality(eng, l[i], r[i], st_, False, line):
                if isinstance(res, Raise):
                    yield st1, res
                    continue
                for st2, c in eng.truthy(res, st1):
                    ident = identity(eng, l[i], r[i], st2)
                    if not isinstance(c, bool) or not isinstance(ident, bool):
                        c = z3.Or(ident if not isinstance(ident, bool) else z3.BoolVal(ident), c if not isinstance(c, bool) else z3.BoolVal(c))
                    else:
                        c = ident or c
                    for st3, b in eng.branch(c, st2):
                        if b:
                            yield from go(i + 1, st3)
                        else:
                            yield st3, negate

        yield from go(0, st)
        return
    lsv = l if isinstance(l, SV) else SV(eng.lift(l, st))
    rsv = r if isinstance(r, SV) else SV(eng.lift(r, st))
    # attrs-generated __eq__ (no source text): same class and all eq-fields equal, as attrs documents
    for side, other in ((lsv, rsv), (rsv, lsv)):
        if side.hint is not None and "__attrs_attrs__" in getattr(side.hint, "__dict__", {}) and "__eq__" in side.hint.__dict__:
            import attr

            if other.hint is not side.hint:
                if other.hint is not None:
                    yield st, negate
                    return
                raise Unsupported("attrs equality against a value of unknown class")
            flds = [f.name for f in attr.fields(side.hint) if f.eq]
            lt = tuple(eng.load_field(st, side.t, n, side.hint) for n in flds)
            rt = tuple(eng.load_field(st, other.t, n, side.hint) for n in flds)
            yield from equality(eng, lt, rt, st, negate, line)
            return
    # user-defined __eq__/__ne__ on hinted objects
    for side, other in ((lsv, rsv), (rsv, lsv)):
        if side.hint is not None and side.hint not in (tuple, list):
            mname = "__ne__" if negate else "__eq__"
            m = eng.lookup_method(side.hint, mname)
            flip = False
            if m is None and negate:
                m = eng.lookup_method(side.hint, "__eq__")
                flip = True
            if m is not None:
                for st1, res in eng.call(BoundMethod(side, m), [other], {}, st, line):
                    if isinstance(res, Raise):
                        yield st1, res
                        continue
                    # NotImplemented -> fall back to identity comparison
                    rt = eng.lift(res, st1)
                    for st2, ni in eng.branch(V.is_notimpl(rt), st1):
                        if ni:
                            idt = lsv.t == rsv.t
                            yield st2, SV(V.mk_bool(z3.Not(idt) if negate else idt))
                        elif flip:
                            for st3, c in eng.truthy(res if isinstance(res, SV) else SV(rt), st2):
                                yield st3, (SV(V.mk_bool(z3.Not(c))) if not isinstance(c, bool) else (not c))
                        else:
                            yield st2, res
                return
    if negate:
        yield st, SV(V.mk_bool(ne_term(eng, lsv.t, rsv.t)))
    else:
        yield st, SV(V.mk_bool(eq_term(eng, lsv.t, rsv.t)))


def ordering(eng, op, l, r, st, line=0):
    lsv = l if isinstance(l, SV) else SV(eng.lift(l, st))
    rsv = r if isinstance(r, SV) else SV(eng.lift(r, st))
    name = {ast.Lt: "__lt__", ast.LtE: "__le__", ast.Gt: "__gt__", ast.GtE: "__ge__"}[type(op)]
    refl = {"__lt__": "__gt__", "__le__": "__ge__", "__gt__": "__lt__", "__ge__": "__le__"}[name]
    def _ctor(t):
        t = z3.simplify(t)
        return z3.is_app(t) and t.decl().name() in V.TAGS

    if getattr(eng, "abstract_order", False) and lsv.hint is None and rsv.hint is None and name in ("__lt__", "__gt__") and not _ctor(lsv.t) and not _ctor(rsv.t):
        # elements of an abstract ordered family: x < y is the uninterpreted relation py_lt,
        # x > y its converse (assumption stated by the pack that enables this mode)
        a, b = (lsv.t, rsv.t) if name == "__lt__" else (rsv.t, lsv.t)
        yield st, SV(V.mk_bool(V.py_lt(a, b)))
        return
    for st1, lt in _kind_cases(eng, lsv, st):
        for st2, rt in _kind_cases(eng, rsv, st1.copy()):
            a, b = lsv.t, rsv.t
            exact = ("bool", "int", "frac")
            if lt in exact and rt in exact:
                x, y = V.real_of(a), V.real_of(b)
                res = {"__lt__": x < y, "__le__": x <= y, "__gt__": x > y, "__ge__": x >= y}[name]
                yield st2, SV(V.mk_bool(res))
            elif lt == "str" and rt == "str":
                x, y = V.Val.s(a), V.Val.s(b)
                res = {"__lt__": x < y, "__le__": x <= y, "__gt__": y < x, "__ge__": y <= x}[name]
                yield st2, SV(V.mk_bool(res))
            elif lt in NUMERIC and rt in NUMERIC and "cplx" not in (lt, rt):
                f = opq(f"num{name}", V.Val, V.Val, z3.BoolSort())
                yield st2, SV(V.mk_bool(f(a, b)))
            elif lt == "ref" or rt == "ref":
                done = False
                if lt == "ref" and lsv.hint is not None:
                    m = eng.lookup_method(lsv.hint, name)
                    if m is not None:
                        done = True
                        for st3, res in eng.call(BoundMethod(lsv, m), [rsv], {}, st2, line):
                            if isinstance(res, Raise):
                                yield st3, res
                                continue
                            rtm = eng.lift(res, st3)
                            for st4, ni in eng.branch(V.is_notimpl(rtm), st3):
                                if not ni:
                                    yield st4, res
                                else:
                                    yield from _reflected(eng, rsv, lsv, refl, st4, line)
                if not done:
                    yield from _reflected(eng, rsv, lsv, refl, st2, line)
            else:
                yield st2, Raise(Exc(TypeError, (f"'{name}' not supported between {lt} and {rt}",)))


def _reflected(eng, rsv, lsv, refl, st, line):
    if rsv.hint is not None:
        m = eng.lookup_method(rsv.hint, refl)
        if m is not None:
            for st3, res in eng.call(BoundMethod(rsv, m), [lsv], {}, st, line):
                if isinstance(res, Raise):
                    yield st3, res
                    continue
                rtm = eng.lift(res, st3)
                for st4, ni in eng.branch(V.is_notimpl(rtm), st3):
                    if ni:
                        yield st4, Raise(Exc(TypeError, ("ordering not supported",)))
                    else:
                        yield st4, res
            return
    if lsv.hint is None or rsv.hint is None:
        # unknown classes: opaque order relation
        yield st, SV(V.mk_bool(V.py_lt(lsv.t, rsv.t)))
        return
    yield st, Raise(Exc(TypeError, ("ordering not supported",)))


def contains(eng, container, item, st, line=0):
    """``item in container``. Yields (st, z3 Bool|bool|Raise)."""
    if type(container) is dict and getattr(eng, "libcls", None) is not None and (id(container) in st.ghost.get("lifted_dicts", {}) or (isinstance(item, SV) and not container)):
        # (see setitem: a dict display that has received, or is asked about, a symbolic key lives in the heap)
        container = SV(eng.lift(container, st), hint=dict)
    if not isinstance(container, SV):
        if isinstance(container, (tuple, list, set, frozenset, dict)) and not isinstance(item, SV) and eng.all_concrete([container, item]):
            yield st, item in container
            return
        if isinstance(container, (tuple, list, set, frozenset, dict)) and eng.all_concrete([container]):
            it = eng.lift(item, st)
            alts = [eq_term(eng, it, eng.lift(c, st)) for c in container]
            yield st, (z3.Or(*alts) if alts else False)
            return
        if isinstance(container, str) and isinstance(item, SV):
            yield st, z3.And(V.is_str(item.t), z3.Contains(z3.StringVal(container), V.Val.s(item.t)))
            return
        mm = eng.method_models.get((type(container), "__contains__"))
        if mm is not None:  # a concrete library constant (e.g. a module-level persistent set) with a contract-supplied model
            for st1, res in mm.fn(eng, st, [container, item], {}):
                if isinstance(res, Raise):
                    yield st1, res
                else:
                    yield from eng.truthy(res, st1)
            return
        raise Unsupported(f"'in' on {container!r}")
    if container.hint is not None:
        m = eng.lookup_method(container.hint, "__contains__")
        if m is not None:
            for st1, res in eng.call(BoundMethod(container, m), [item], {}, st, line):
                if isinstance(res, Raise):
                    yield st1, res
                else:
                    yield from eng.truthy(res, st1)
            return
    for st1, tag in _kind_cases(eng, container, st):
        if tag == "str":
            it = eng.lift(item, st1)
            yield st1, z3.Contains(V.Val.s(container.t), V.Val.s(it))
        elif tag == "ref":
            for st2, pycls in eng.class_of(container, st1):
                m = eng.lookup_method(pycls, "__contains__")
                if m is None:
                    raise Unsupported(f"'in' on object of class {pycls.__name__}")
                for st3, res in eng.call(BoundMethod(SV(container.t, hint=pycls), m), [item], {}, st2, line):
                    if isinstance(res, Raise):
                        yield st3, res
                    else:
                        yield from eng.truthy(res, st3)
        else:
            raise Unsupported(f"'in' on symbolic {tag}")


# ----------------------------------------------------------------------------- subscripts


def norm_index(i, n):
    return z3.If(i < 0, i + n, i)


def getitem(eng, obj, idx, st, line=0):
    if not isinstance(obj, SV):
        if isinstance(idx, SliceVal):
            if all(not isinstance(x, SV) for x in (idx.lower, idx.upper, idx.step)):
                try:
                    yield st, obj[slice(idx.lower, idx.upper, idx.step)]
                except Exception as e:  # noqa: BLE001
                    yield st, Raise(Exc(type(e), e.args))
                return
            raise Unsupported("symbolic slice of concrete sequence")
        if not isinstance(idx, SV):
            try:
                yield st, obj[idx]
            except Exception as e:  # noqa: BLE001
                yield st, Raise(Exc(type(e), e.args))
            return
        if isinstance(obj, dict):
            # concrete dict, symbolic key: one path per key + KeyError
            it = idx.t
            for k, v in obj.items():
                st2 = st.copy()
                st2.assume(eq_term(eng, it, eng.lift(k, st2)))
                if eng.feasible(st2):
                    yield st2, v
            st3 = st
            st3.assume(*[z3.Not(eq_term(eng, it, eng.lift(k, st3))) for k in obj])
            if eng.feasible(st3):
                yield st3, Raise(Exc(KeyError, ()))
            return
        if isinstance(obj, (tuple, list)):
            i = V.int_of(idx.t)
            n = len(obj)
            for k in range(n):
                st2 = st.copy()
                st2.assume(z3.Or(i == k, i == k - n))
                if eng.feasible(st2):
                    yield st2, obj[k]
            st3 = st
            st3.assume(z3.Or(i >= n, i < -n))
            if eng.feasible(st3):
                yield st3, Raise(Exc(IndexError, ()))
            return
        raise Unsupported(f"subscript of concrete {type(obj).__name__} with symbolic index")
    # symbolic container
    if obj.hint is not None and obj.hint not in (tuple, list):
        m = eng.lookup_method(obj.hint, "__getitem__")
        if m is not None:
            yield from eng.call(BoundMethod(obj, m), [idx], {}, st, line)
            return
    for st1, tag in _kind_cases(eng, obj, st):
        if tag == "bytes":
            yield from _seq_getitem(eng, obj, V.Val.by(obj.t), idx, st1, "bytes")
        elif tag == "str":
            yield from _seq_getitem(eng, obj, V.Val.s(obj.t), idx, st1, "str")
        elif tag == "ref" and obj.hint is tuple:
            yield from _seq_getitem(eng, obj, V.seq_of(V.Val.a(obj.t)), idx, st1, "tuple")
        elif tag == "ref" and obj.hint is list:
            yield from _seq_getitem(eng, obj, z3.Select(st1.lists, V.Val.a(obj.t)), idx, st1, "list")
        elif tag == "ref" and obj.hint is None:
            # an object read from a container / field without a declared type: its class is decided by the path condition
            for st2, pycls in eng.class_of(obj, st1):
                m = eng.lookup_method(pycls, "__getitem__")
                if m is None:
                    raise Unsupported(f"subscript of an object of class {pycls.__name__} (line {line})")
                yield from eng.call(BoundMethod(SV(obj.t, hint=pycls), m), [idx], {}, st2, line)
        else:
            raise Unsupported(f"subscript of symbolic {tag} {obj} (line {line})")


def _seq_getitem(eng, obj, sq, idx, st, kind):
    n = z3.Length(sq)
    if isinstance(idx, SliceVal):
        if idx.step is not None:
            raise Unsupported("slice step")
        lo = z3.IntVal(0) if idx.lower is None else V.int_of(eng.lift(idx.lower, st))
        hi = n if idx.upper is None else V.int_of(eng.lift(idx.upper, st))

        def clamp(i):
            j = z3.If(i < 0, i + n, i)
            return z3.If(j < 0, 0, z3.If(j > n, n, j))

        lo, hi = clamp(lo), clamp(hi)
        ln = z3.If(hi > lo, hi - lo, 0)
        sub = z3.SubSeq(sq, lo, ln) if kind != "str" else z3.SubString(sq, lo, ln)
        if kind == "bytes":
            yield st, SV(V.Val.bytes(sub))
        elif kind == "str":
            yield st, SV(V.mk_str(sub))
        else:
            pycls = tuple if kind == "tuple" else list
            if kind == "list":
                sv = eng.alloc(st, list)
                st.lists = z3.Store(st.lists, V.Val.a(sv.t), sub)
            else:
                sv = eng.alloc(st, pycls)
                st.assume(V.seq_of(V.Val.a(sv.t)) == sub)
            yield st, sv
        return
    i = V.int_of(eng.lift(idx, st))
    j = norm_index(i, n)
    for st1, ok in eng.branch(z3.And(j >= 0, j < n), st):
        if not ok:
            yield st1, Raise(Exc(IndexError, ("index out of range",)))
        elif kind == "bytes":
            yield st1, SV(V.mk_int(sq[j]))
        elif kind == "str":
            yield st1, SV(V.mk_str(z3.SubString(sq, j, 1)))
        else:
            res = z3.simplify(sq[j])
            st1.assume(eng.external_ref_fact(st1, res))
            yield st1, SV(res)


def setitem(eng, obj, idx, v, st, line=0):
    if isinstance(obj, SV) and obj.hint is list:
        a = V.Val.a(obj.t)
        sq = z3.Select(st.lists, a)
        n = z3.Length(sq)
        i = V.int_of(eng.lift(idx, st))
        j = norm_index(i, n)
        for st1, ok in eng.branch(z3.And(j >= 0, j < n), st):
            if not ok:
                yield st1, Raise(Exc(IndexError, ("list assignment index out of range",)))
            else:
                vt = eng.lift(v, st1)
                eng.escape(st1, vt)
                new = z3.Concat(z3.SubSeq(sq, 0, j), z3.Unit(vt), z3.SubSeq(sq, j + 1, n - j - 1))
                st1.lists = z3.Store(st1.lists, a, new)
                yield st1, None
        return
    if isinstance(obj, SV) and obj.hint is not None:
        m = eng.lookup_method(obj.hint, "__setitem__")
        if m is not None:
            yield from eng.call(BoundMethod(obj, m), [idx, v], {}, st, line)
            return
    if isinstance(obj, dict) and isinstance(idx, SV):
        t = z3.simplify(idx.t)  # a key that is a literal integer / string behind a symbolic wrapper
        if z3.is_app(t) and t.decl().name() == "int" and z3.is_int_value(t.arg(0)):
            idx = t.arg(0).as_long()
        elif z3.is_app(t) and t.decl().name() == "str" and z3.is_string_value(t.arg(0)):
            idx = t.arg(0).as_string()
    if isinstance(obj, dict) and getattr(eng, "libcls", None) is not None and (isinstance(idx, SV) or id(obj) in st.ghost.get("lifted_dicts", {})):
        # a dict display of the code under verification that receives a symbolic key: from here on it lives in the heap (the same
        # Python object always lifts to the same address on a path), and every later access goes to that heap object
        yield from eng.method_models[(dict, "__setitem__")].fn(eng, st, [SV(eng.lift(obj, st), hint=dict), idx, v], {})
        return
    if isinstance(obj, dict) and not isinstance(idx, SV):
        obj[idx] = v  # concrete local dict (not shared across forks: copied below)
        yield st, None
        return
    if isinstance(obj, SV) and obj.hint is None:
        # an object read from a container / field without a declared type: its class is decided by the path condition
        for st2, pycls in eng.class_of(obj, st):
            m = eng.lookup_method(pycls, "__setitem__")
            if m is None:
                raise Unsupported(f"item assignment on an object of class {pycls.__name__}")
            yield from eng.call(BoundMethod(SV(obj.t, hint=pycls), m), [idx, v], {}, st2, line)
        return
    raise Unsupported(f"item assignment on {obj!r}")


def joined_str(eng, node, st, fr):
    parts = []

    def go(i, st_):
        if i == len(node.values):
            if all(isinstance(p, str) for p in parts):
                yield st_, "".join(parts)
            else:
                terms = [z3.StringVal(p) if isinstance(p, str) else p for p in parts]
                yield st_, SV(V.mk_str(z3.Concat(*terms) if len(terms) > 1 else terms[0]))
            return
        v = node.values[i]
        if isinstance(v, ast.Constant):
            parts.append(v.value)
            yield from go(i + 1, st_)
            parts.pop()
            return
        for st1, x in eng.eval(v.value, st_, fr):
            if isinstance(x, Raise):
                yield st1, x
                continue
            if v.format_spec is not None:
                raise Unsupported("format spec in f-string")
            if not isinstance(x, SV) and eng.all_concrete([x]):
                parts.append(format(x) if v.conversion == -1 else (repr(x) if v.conversion == 114 else str(x)))
                yield from go(i + 1, st1)
                parts.pop()
                continue
            xt = eng.lift(x, st1)
            # no case split on the value's type: str(x) of a str is x itself, of an int its decimal numeral,
            # of anything else an uninterpreted text (fmt_str) - one term covering all cases
            fmt = opq("fmt_str", V.Val, z3.StringSort())
            iv = V.Val.i(xt)
            numeral = z3.If(iv < 0, z3.Concat(z3.StringVal("-"), z3.IntToStr(-iv)), z3.IntToStr(iv))
            if v.conversion in (-1, 115):
                term = z3.If(V.is_str(xt), V.Val.s(xt), z3.If(V.is_int(xt), numeral, fmt(xt)))
            else:
                term = opq("fmt_repr", V.Val, z3.StringSort())(xt)
            parts.append(z3.simplify(term))
            yield from go(i + 1, st1)
            parts.pop()

    yield from go(0, st)
