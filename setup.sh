#!/bin/bash
# Build the offline overlay venv: python 3.12 + z3-solver + cvc5 + jsonschema, plus the repo's own venv site-packages.
set -e
HERE="$(cd "$(dirname "$0")" && pwd)"
cd "$HERE"
export PIP_NO_INDEX=1
PY=/root/.pyenv/versions/3.12.1/bin/python
[ -x "$PY" ] || PY="$(/venv/bin/python -c 'import sys; print(sys.base_prefix)')/bin/python3"
rm -rf .venv
"$PY" -m venv .venv
.venv/bin/pip install -q --no-index --find-links /opt/veriftools/wheels z3-solver cvc5 jsonschema
echo "import site; site.addsitedir('/venv/lib/python3.12/site-packages')" > .venv/lib/python3.12/site-packages/_repo_venv.pth
.venv/bin/python -c "import z3, basilisp; print('setup ok: z3', z3.get_version_string(), 'basilisp at', basilisp.__file__)"
