#!/bin/bash
# usage: mut_one.sh <prop> <name> <file> <sed expr>
cd /verif
prop="$1"; name="$2"; file="$3"; expr="$4"
sed -i "$expr" /repo/$file
if git -C /repo diff --quiet; then echo "MUT $name: sed did not change anything"; exit; fi
s=$(date +%s)
timeout 900 ./check $prop > /tmp/mut_out.txt 2>&1; rc=$?
echo "MUT $name: exit=$rc $(grep -c '^VIOLATION' /tmp/mut_out.txt) violations ($(grep -c 'no-failing-input-found' /tmp/mut_out.txt) without input), $(grep -c '^ERROR\|^UNDECIDED' /tmp/mut_out.txt) errors/undecided in $(( $(date +%s) - s ))s :: $(grep '^  refuted' /tmp/mut_out.txt | head -1 | cut -c1-150)"
git -C /repo checkout -- .
git -C /verif checkout -- "evidence/$prop.json" 2>/dev/null
