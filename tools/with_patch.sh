#!/bin/bash
# usage: tools/with_patch.sh <patch.diff> <command...>   -- applies the patch to /repo, runs the command, always reverts
P="$1"; shift
git -C /repo apply "$P" || { echo "patch does not apply"; exit 9; }
"$@"; rc=$?
git -C /repo checkout -- . 
exit $rc
