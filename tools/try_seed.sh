#!/bin/bash
# usage: tools/try_seed.sh <seed dir with patch.diff + demo.py> <property id> [pytest args for a quick test subset]
# Applies the patch to /repo, runs the demo (expect exit 1) and the property's check (expect exit 1), reverts,
# runs the demo on the clean tree (expect exit 0).
D="$1"; P="$2"; shift 2
cd /verif
git -C /repo apply "$D/patch.diff" || { echo "PATCH DOES NOT APPLY"; exit 9; }
echo "--- demo with the change:"; (cd /tmp && PYTHONPATH=/repo/src timeout 300 /venv/bin/python "$D/demo.py" $DEMO_ARGS > /tmp/seed_demo.out 2>&1; echo "demo exit=$?"; tail -3 /tmp/seed_demo.out)
if [ $# -gt 0 ]; then echo "--- tests with the change:"; (cd /repo && timeout 1800 /venv/bin/python -m pytest -q -p no:cacheprovider "$@" 2>&1 | tail -2); fi
echo "--- check $P with the change:"; timeout 1200 ./check "$P" > /tmp/seed_check.out 2>&1; echo "check exit=$?"; grep -v "^  " /tmp/seed_check.out | tail -4 | cut -c1-300
git -C /repo checkout -- . ; git -C /repo status --short
git -C /verif checkout -- "evidence/$P.json" 2>/dev/null  # the evidence of a run on a changed tree is not kept
echo "--- demo on the clean tree:"; (cd /tmp && PYTHONPATH=/repo/src timeout 300 /venv/bin/python "$D/demo.py" $DEMO_ARGS > /tmp/seed_demo2.out 2>&1; echo "demo exit=$?")
