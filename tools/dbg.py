"""Developer tool: run one contract of a pack in-process and print non-proved obligations.

usage: .venv/bin/python tools/dbg.py contracts.c17_order <key-substr>[#label] [--all] [--known id,id]
"""
import importlib
import sys

sys.path.insert(0, "/verif")
import z3  # noqa: E402

from pyvc import solve  # noqa: E402
from pyvc.contract import verify_contract  # noqa: E402


def main():
    modname, sub = sys.argv[1], sys.argv[2]
    show_all = "--all" in sys.argv
    known = set()
    if "--known" in sys.argv:
        known = set(sys.argv[sys.argv.index("--known") + 1].split(","))
    mod = importlib.import_module(modname)
    pack = mod.build(active_known=known)
    modular = {c.key: c for c in pack.contracts if c.modular}
    for con in pack.contracts:
        key = con.key + (f"#{con.label}" if con.label else "")
        if sub not in key:
            continue
        res = verify_contract(con, pack, modular)
        print("==", key, "error:", res.error, "paths:", res.paths, "obligations:", len(res.obligations), "exits", res.exits)
        if res.error:
            continue
        ax = res.engine.class_axioms()
        for ob in res.obligations:
            solve.discharge(ob, ax, use_cvc5=False)
            if show_all or ob.verdict not in ("proved", "covered"):
                print(f"  [{ob.verdict}] {ob.name} (line {ob.line}) {ob.time_s:.2f}s")
                if ob.verdict not in ("proved", "covered"):
                    for h in ob.hyps:
                        print("     H", str(z3.simplify(h)).replace("\n", " ")[:400])
                    print("     G", str(z3.simplify(ob.goal) if z3.is_expr(ob.goal) else ob.goal).replace("\n", " ")[:1200])
                    if ob.model is not None and "--model" in sys.argv:
                        print("     M", str(ob.model)[:3000])


main()
