"""C04 - persistent collections are immutable values that behave like their model.

Every public operation of the five persistent collection classes and their transients gets a
contract over the *abstract view* of the value:

* vector, list, queue: a mathematical sequence (``seq_of`` of the wrapped pyrsistent value);
* map: a finite map (``map_of`` / ``dom_of`` / ``map_size`` of the wrapped immutables.Map);
* set: a finite set (``dom_of`` of the wrapped map, every member mapped to itself);
* transients: the content of the wrapped evolver / MapMutation, which is *state*.

Postconditions are stated over the whole view (result view == model function of the old view and
the arguments) and metadata; every contract has an empty frame: no field, list, set or library
state of any object that existed before the call may change (objects allocated by the call are
excluded).  An operation history is then a chain of such steps: each step produces a value equal
to the model's and leaves every earlier value as it was, which is the property (induction over
the history; the step is what is proved here).

Variadic operations (``conj``/``assoc``/``dissoc``/``disj`` with several arguments) are verified at
the arities 0..2 (elements) or 1..2 pairs, stated per contract; the loop bodies are the same for
every arity.

Index arguments: ``nth``/``get``/``assoc`` are specified for non-negative indices.  Upstream tests pin
Python-style negative indexing for ``get``/``nth``/``entry`` (``(get [1 2] -1)`` is 2), the property's
"plain model" has no opinion on it, so negative indices are outside these contracts.
"""
import z3

from pyvc import vals as V
from pyvc import lib, ops
from pyvc.contract import Pack, T, OBJ, ANY, INT, STAR
from pyvc.engine import SV, Model, Raise, Exc, Unsupported


def _cls():
    from basilisp.lang.vector import PersistentVector, TransientVector, MapEntry
    from basilisp.lang.list import PersistentList
    from basilisp.lang.queue import PersistentQueue
    from basilisp.lang.map import PersistentMap, TransientMap
    from basilisp.lang.set import PersistentSet, TransientSet

    return dict(PV=PersistentVector, TV=TransientVector, ME=MapEntry, PL=PersistentList, PQ=PersistentQueue, PM=PersistentMap, TM=TransientMap,
                PS=PersistentSet, TS=TransientSet)


def setup(eng, st):
    lib.install(eng)
    lib.install_wrappers(eng)
    C = _cls()
    for c in C.values():
        eng.class_id(c)
    evid = eng.class_id(eng.libcls["Evolver"])
    muid = eng.class_id(eng.libcls["IMut"])
    eng.field_types[("TransientVector", "_inner")] = lambda v: (z3.And(V.is_ref(v), V.cls_of(V.Val.a(v)) == evid), eng.libcls["Evolver"])
    eng.field_types[("TransientMap", "_inner")] = lambda v: (z3.And(V.is_ref(v), V.cls_of(V.Val.a(v)) == muid), eng.libcls["IMut"])
    eng.field_types[("TransientSet", "_inner")] = lambda v: (z3.And(V.is_ref(v), V.cls_of(V.Val.a(v)) == muid), eng.libcls["IMut"])


# ----------------------------------------------------------------------------- views
def inner(sv, obj):
    return z3.Select(sv.st.field_array("_inner"), V.Val.a(obj))


def meta(sv, obj):
    return z3.Select(sv.st.field_array("_meta"), V.Val.a(obj))


def sview(sv, obj):
    """sequence view of a vector / list / queue"""
    return V.seq_of(V.Val.a(inner(sv, obj)))


def tview(sv, obj):
    """content of a transient vector (state)"""
    return z3.Select(sv.st.lists, V.Val.a(inner(sv, obj)))


def has_class(eng, v, cls):
    return z3.And(V.is_ref(v), V.cls_of(V.Val.a(v)) == eng.class_id(cls))


def unit_seq(*ts):
    if not ts:
        return z3.Empty(V.ValSeq)
    us = [z3.Unit(t) for t in ts]
    return us[0] if len(us) == 1 else z3.Concat(*us)


def cat(*seqs):
    seqs = [s for s in seqs]
    return seqs[0] if len(seqs) == 1 else z3.Concat(*seqs)


def index_of(k):
    """bools are ints for Python indexing"""
    return V.int_of(k)


def seq_update(S, i, v):
    """the model's assoc on a sequence, 0 <= i <= |S|: replace position i, or append when i = |S|"""
    n = z3.Length(S)
    return z3.If(i == n, z3.Concat(S, z3.Unit(v)), z3.Concat(z3.SubSeq(S, 0, i), z3.Unit(v), z3.SubSeq(S, i + 1, n - i - 1)))


# an arbitrary position: a goal stated for ANYJ (which occurs in no hypothesis) holds for every position
ANYJ = z3.Int("any_position")
ANYK = z3.Int("any_address")


def build(active_known=frozenset()):
    C = _cls()
    PV, TV, ME, PL, PQ, PM, TM, PS, TS = (C[k] for k in ("PV", "TV", "ME", "PL", "PQ", "PM", "TM", "PS", "TS"))
    from basilisp.lang.interfaces import IIndexed

    pack = Pack("C04", "Persistent collections are immutable values that behave like their model")
    pack.common_setup.append(setup)
    pack.trust("pyrsistent pvector/plist/pdeque and immutables.Map are immutable values whose operations return the documented new value (models in pyvc/lib.py); "
               "an evolver / MapMutation starts as a copy of its source, never writes through to it, and persistent()/finish() returns a value that later mutation of the evolver does not change")
    pack.trust("the empty plist is a singleton object (pyrsistent._plist._EMPTY_PLIST) and no PList instance is empty")
    pack.assume("element __eq__/__hash__ are pure and consistent (keys that are == hash equal); True == 1 == Fraction(1) are the same key")

    def new(key, label=None):
        c = pack.contract(key)
        if label:
            c.label = label
        c.modifies()
        return c

    # =================================================================================== PersistentVector
    vec = "basilisp.lang.vector:PersistentVector."
    for n in (0, 1, 2):
        c = new(vec + "cons", f"{n} elements")
        c.param("self", OBJ(PV)).param("elems", STAR(n))
        c.raises()

        def post(a, n=n):
            es = [getattr(a, f"elems{i}") for i in range(n)]
            return z3.And(has_class(a.eng, a.result, PV), sview(a.post, a.result) == cat(sview(a.pre, a.self), unit_seq(*es)),
                          meta(a.post, a.result) == meta(a.pre, a.self))

        c.ensures("conj appends the elements in order and keeps the metadata", post)

    c = new(vec + "assoc", "one index/value pair")
    c.param("self", OBJ(PV)).param("kvs", STAR(2))
    c.requires("the index is a non-negative integer", lambda a: z3.And(V.is_int(a.kvs0), V.Val.i(a.kvs0) >= 0))
    c.raises(IndexError)
    c.raises_only_if("the index is beyond the end", (IndexError,), lambda a: V.Val.i(a.kvs0) > z3.Length(sview(a.pre, a.self)))

    def post(a):
        S, i = sview(a.pre, a.self), V.Val.i(a.kvs0)
        return z3.And(has_class(a.eng, a.result, PV), i <= z3.Length(S), sview(a.post, a.result) == seq_update(S, i, a.kvs1),
                      meta(a.post, a.result) == meta(a.pre, a.self))

    c.ensures("assoc replaces position i (appends when i = count), every other position and the metadata are unchanged", post)

    c = new(vec + "contains")
    c.param("self", OBJ(PV))
    c.raises()
    c.ensures("contains? is true exactly for the integers 0 <= k < count",
              lambda a: z3.And(V.is_bool(a.result), V.Val.b(a.result) == z3.And(z3.Or(V.is_int(a.k), V.is_bool(a.k)), index_of(a.k) >= 0,
                                                                             index_of(a.k) < z3.Length(sview(a.pre, a.self)))))

    c = new(vec + "val_at")
    c.param("self", OBJ(PV))
    c.requires("the key is not a negative integer", lambda a: z3.Implies(z3.Or(V.is_int(a.k), V.is_bool(a.k)), index_of(a.k) >= 0))
    c.requires("the key is an integer, a string or nil (the Python index protocol of other types is outside the model)", lambda a: z3.Or(V.is_int(a.k), V.is_bool(a.k), V.is_str(a.k), V.is_none(a.k)))
    c.raises()

    def post(a):
        S = sview(a.pre, a.self)
        isidx = z3.Or(V.is_int(a.k), V.is_bool(a.k))
        return a.result == z3.If(z3.And(isidx, index_of(a.k) < z3.Length(S)), S[index_of(a.k)], a.default)

    c.ensures("get returns the element at an index in range and the default otherwise (also for a non-integer key)", post)

    for given in (False, True):
        c = new(vec + "nth", "with notfound" if given else "without notfound")
        c.param("self", OBJ(PV)).param("k", INT)
        c.requires("the index is not negative", lambda a: V.Val.i(a.k) >= 0)
        if given:
            c.requires("notfound is given", lambda a: a.notfound != a.eng.lift(IIndexed.NTH_SENTINEL, a.pre.st))
            c.raises()
            c.ensures("nth returns the element at an index in range and notfound otherwise",
                      lambda a: a.result == z3.If(V.Val.i(a.k) < z3.Length(sview(a.pre, a.self)), sview(a.pre, a.self)[V.Val.i(a.k)], a.notfound))
        else:
            c.requires("notfound is not given", lambda a: a.notfound == a.eng.lift(IIndexed.NTH_SENTINEL, a.pre.st))
            c.raises(IndexError)
            c.raises_only_if("the index is out of range", (IndexError,), lambda a: V.Val.i(a.k) >= z3.Length(sview(a.pre, a.self)))
            c.ensures("nth returns the element at the index", lambda a: z3.And(V.Val.i(a.k) < z3.Length(sview(a.pre, a.self)), a.result == sview(a.pre, a.self)[V.Val.i(a.k)]))

    c = new(vec + "entry")
    c.param("self", OBJ(PV)).param("k", INT)
    c.requires("the index is not negative", lambda a: V.Val.i(a.k) >= 0)
    c.raises()

    def post(a):
        S, k = sview(a.pre, a.self), V.Val.i(a.k)
        return z3.If(k < z3.Length(S), z3.And(has_class(a.eng, a.result, ME), sview(a.post, a.result) == unit_seq(a.k, S[k])), V.is_none(a.result))

    c.ensures("find returns the entry [k, v[k]] for an index in range and nil otherwise", post)

    c = new(vec + "empty")
    c.param("self", OBJ(PV))
    c.raises()
    c.ensures("empty is the empty vector with the same metadata",
              lambda a: z3.And(has_class(a.eng, a.result, PV), z3.Length(sview(a.post, a.result)) == 0, meta(a.post, a.result) == meta(a.pre, a.self)))

    c = new(vec + "with_meta")
    c.param("self", OBJ(PV))
    c.raises()
    c.ensures("with-meta returns a vector with the same elements carrying exactly the given metadata; the original keeps its own (frame)",
              lambda a: z3.And(has_class(a.eng, a.result, PV), sview(a.post, a.result) == sview(a.pre, a.self), meta(a.post, a.result) == a.meta,
                               meta(a.post, a.self) == meta(a.pre, a.self)))

    c = new(vec + "peek")
    c.param("self", OBJ(PV))
    c.raises()
    c.ensures("peek is the last element, nil for the empty vector",
              lambda a: a.result == z3.If(z3.Length(sview(a.pre, a.self)) == 0, V.VNone, sview(a.pre, a.self)[z3.Length(sview(a.pre, a.self)) - 1]))

    c = new(vec + "pop")
    c.param("self", OBJ(PV))
    c.raises(IndexError)
    c.raises_only_if("the vector is empty", (IndexError,), lambda a: z3.Length(sview(a.pre, a.self)) == 0)

    def post(a):
        S, R = sview(a.pre, a.self), sview(a.post, a.result)
        j = ANYJ
        return z3.And(has_class(a.eng, a.result, PV), z3.Length(S) > 0, z3.Length(R) == z3.Length(S) - 1,
                      z3.Implies(z3.And(j >= 0, j < z3.Length(R)), R[j] == S[j]))

    c.ensures("pop drops exactly the last element", post)

    c = new(vec + "__len__")
    c.param("self", OBJ(PV))
    c.raises()
    c.ensures("count is the length of the sequence", lambda a: a.result == V.mk_int(z3.Length(sview(a.pre, a.self))))

    c = new(vec + "to_transient")
    c.param("self", OBJ(PV))
    c.raises()
    c.ensures("a transient starts with the elements of its source (which stays as it was: frame)",
              lambda a: z3.And(has_class(a.eng, a.result, TV), tview(a.post, a.result) == sview(a.pre, a.self), V.Val.a(inner(a.post, a.result)) > 0))

    # =================================================================================== TransientVector
    tv = "basilisp.lang.vector:TransientVector."

    def newt(key, label=None):
        """a transient operation may change the content of its own evolver and nothing else"""
        c = pack.contract(key)
        if label:
            c.label = label
        c.modifies(lists=True)
        c.param("self", OBJ(TV))
        c.ensures("no other evolver or list changes, and the transient keeps its evolver",
                  lambda a: z3.And(z3.Implies(z3.And(ANYK <= 0, ANYK != V.Val.a(inner(a.pre, a.self))), z3.Select(a.post.st.lists, ANYK) == z3.Select(a.pre.st.lists, ANYK)),
                                   inner(a.post, a.self) == inner(a.pre, a.self)))
        return c

    for n in (0, 1, 2):
        c = newt(tv + "cons_transient", f"{n} elements")
        c.param("elems", STAR(n))
        c.raises()
        c.ensures("conj! appends the elements in order and returns the transient itself",
                  lambda a, n=n: z3.And(a.result == a.self, tview(a.post, a.self) == cat(tview(a.pre, a.self), unit_seq(*[getattr(a, f"elems{i}") for i in range(n)]))))

    for n in (2, 1):
        c = newt(tv + "assoc_transient", "one index/value pair" if n == 2 else "an index without a value (sets nil)")
        c.param("kvs", STAR(n))
        c.requires("the index is a non-negative integer", lambda a: z3.And(V.is_int(a.kvs0), V.Val.i(a.kvs0) >= 0))
        c.raises(IndexError)
        c.raises_only_if("the index is beyond the end", (IndexError,), lambda a: V.Val.i(a.kvs0) > z3.Length(tview(a.pre, a.self)))
        c.ensures_on_raise("a failed assoc! leaves the content as it was", lambda a: tview(a.post, a.self) == tview(a.pre, a.self))
        c.ensures("assoc! replaces position i (appends when i = count) and returns the transient itself",
                  lambda a, n=n: z3.And(a.result == a.self, V.Val.i(a.kvs0) <= z3.Length(tview(a.pre, a.self)),
                                        tview(a.post, a.self) == seq_update(tview(a.pre, a.self), V.Val.i(a.kvs0), a.kvs1 if n == 2 else V.VNone)))

    c = newt(tv + "contains_transient")
    c.param("k", INT)
    c.raises()
    c.ensures("contains? is true exactly for 0 <= k < count; the content is unchanged",
              lambda a: z3.And(a.result == V.mk_bool(z3.And(V.Val.i(a.k) >= 0, V.Val.i(a.k) < z3.Length(tview(a.pre, a.self)))), tview(a.post, a.self) == tview(a.pre, a.self)))

    c = newt(tv + "val_at")
    c.param("k", INT)
    c.requires("the index is not negative", lambda a: V.Val.i(a.k) >= 0)
    c.raises()
    c.ensures("get returns the element at an index in range and the default otherwise; the content is unchanged",
              lambda a: z3.And(a.result == z3.If(V.Val.i(a.k) < z3.Length(tview(a.pre, a.self)), tview(a.pre, a.self)[V.Val.i(a.k)], a.default),
                               tview(a.post, a.self) == tview(a.pre, a.self)))

    c = newt(tv + "nth", "with notfound")
    c.param("k", INT)
    c.requires("the index is not negative", lambda a: V.Val.i(a.k) >= 0)
    c.requires("notfound is given", lambda a: a.notfound != a.eng.lift(IIndexed.NTH_SENTINEL, a.pre.st))
    c.raises()
    c.ensures("nth returns the element at an index in range and notfound otherwise; the content is unchanged",
              lambda a: z3.And(a.result == z3.If(V.Val.i(a.k) < z3.Length(tview(a.pre, a.self)), tview(a.pre, a.self)[V.Val.i(a.k)], a.notfound),
                               tview(a.post, a.self) == tview(a.pre, a.self)))

    c = newt(tv + "entry_transient")
    c.param("k", INT)
    c.requires("the index is not negative", lambda a: V.Val.i(a.k) >= 0)
    c.raises()
    c.ensures("find returns the entry [k, v[k]] for an index in range and nil otherwise; the content is unchanged",
              lambda a: z3.And(z3.If(V.Val.i(a.k) < z3.Length(tview(a.pre, a.self)),
                                     z3.And(has_class(a.eng, a.result, ME), sview(a.post, a.result) == unit_seq(a.k, tview(a.pre, a.self)[V.Val.i(a.k)])), V.is_none(a.result)),
                               tview(a.post, a.self) == tview(a.pre, a.self)))

    c = newt(tv + "pop_transient")
    c.raises(IndexError)
    c.raises_only_if("the transient is empty", (IndexError,), lambda a: z3.Length(tview(a.pre, a.self)) == 0)
    c.ensures_on_raise("a failed pop! leaves the content as it was", lambda a: tview(a.post, a.self) == tview(a.pre, a.self))
    c.ensures("pop! drops exactly the last element and returns the transient itself",
              lambda a: z3.And(a.result == a.self, z3.Length(tview(a.pre, a.self)) > 0,
                               tview(a.post, a.self) == z3.SubSeq(tview(a.pre, a.self), 0, z3.Length(tview(a.pre, a.self)) - 1)))

    c = newt(tv + "__len__")
    c.raises()
    c.ensures("count is the number of elements", lambda a: z3.And(a.result == V.mk_int(z3.Length(tview(a.pre, a.self))), tview(a.post, a.self) == tview(a.pre, a.self)))

    c = newt(tv + "to_persistent")
    c.raises()
    c.ensures("persistent! returns a vector with exactly the current elements",
              lambda a: z3.And(has_class(a.eng, a.result, PV), sview(a.post, a.result) == tview(a.pre, a.self), tview(a.post, a.self) == tview(a.pre, a.self)))

    # =================================================================================== PersistentMap
    pm = "basilisp.lang.map:PersistentMap."
    from basilisp.lang import map as lmap

    def no_sentinel(a):
        """the module-private lookup sentinel is not a value of the map (nothing outside map.py can hold it)"""
        m, d, _ = mview(a.pre, a.self)
        return z3.Select(m, ANYKEY2) != a.eng.lift(lmap._ENTRY_SENTINEL, a.pre.st)

    for npairs in (1, 2):
        c = new(pm + "assoc", f"{npairs} key/value pair(s)")
        c.param("self", OBJ(PM)).param("kvs", STAR(2 * npairs))
        c.raises()

        def post(a, npairs=npairs):
            m, d, n_ = mview(a.pre, a.self)
            for i in range(npairs):
                m, d, n_ = model_assoc(m, d, n_, getattr(a, f"kvs{2 * i}"), getattr(a, f"kvs{2 * i + 1}"))
            return z3.And(has_class(a.eng, a.result, PM), same_map(mview(a.post, a.result), (m, d, n_)), meta(a.post, a.result) == meta(a.pre, a.self))

        c.ensures("assoc binds each key to its value in order, leaves every other entry alone and keeps the metadata", post)

    for n in (0, 1, 2):
        c = new(pm + "dissoc", f"{n} key(s)")
        c.param("self", OBJ(PM)).param("ks", STAR(n))
        c.raises()

        def post(a, n=n):
            m, d, n_ = mview(a.pre, a.self)
            for i in range(n):
                m, d, n_ = model_dissoc(m, d, n_, getattr(a, f"ks{i}"))
            return z3.And(has_class(a.eng, a.result, PM), same_map(mview(a.post, a.result), (m, d, n_)), meta(a.post, a.result) == meta(a.pre, a.self))

        c.ensures("dissoc removes exactly the given keys (absent keys are ignored) and keeps the metadata", post)

    c = new(pm + "contains")
    c.param("self", OBJ(PM))
    c.raises()
    c.ensures("contains? is membership in the domain", lambda a: a.result == V.mk_bool(z3.Select(mview(a.pre, a.self)[1], lib.key_norm(a.k))))

    for nm in ("val_at", "__call__"):
        c = new(pm + nm)
        c.param("self", OBJ(PM))
        c.raises()
        kname = "k" if nm == "val_at" else "key"
        c.ensures("get returns the bound value of a present key and the default otherwise",
                  lambda a, kname=kname: a.result == z3.If(z3.Select(mview(a.pre, a.self)[1], lib.key_norm(getattr(a, kname))),
                                                           z3.Select(mview(a.pre, a.self)[0], lib.key_norm(getattr(a, kname))), a.default))

    c = new(pm + "entry")
    c.param("self", OBJ(PM))
    c.requires("the module-private sentinel is not a value of the map", lambda a: z3.Select(mview(a.pre, a.self)[0], lib.key_norm(a.k)) != a.eng.lift(lmap._ENTRY_SENTINEL, a.pre.st))
    c.raises()
    c.ensures("find returns the entry [k, m[k]] of a present key and nil otherwise",
              lambda a: z3.If(z3.Select(mview(a.pre, a.self)[1], lib.key_norm(a.k)),
                              z3.And(has_class(a.eng, a.result, ME), sview(a.post, a.result) == unit_seq(a.k, z3.Select(mview(a.pre, a.self)[0], lib.key_norm(a.k)))),
                              V.is_none(a.result)))

    c = new(pm + "empty")
    c.param("self", OBJ(PM))
    c.raises()
    c.ensures("empty is the empty map with the same metadata",
              lambda a: z3.And(has_class(a.eng, a.result, PM), z3.Not(z3.Select(mview(a.post, a.result)[1], ANYKEY)), mview(a.post, a.result)[2] == 0,
                               meta(a.post, a.result) == meta(a.pre, a.self)))

    c = new(pm + "with_meta")
    c.param("self", OBJ(PM))
    c.raises()
    c.ensures("with-meta returns a map with the same entries carrying exactly the given metadata; the original keeps its own (frame)",
              lambda a: z3.And(has_class(a.eng, a.result, PM), same_map(mview(a.post, a.result), mview(a.pre, a.self)), meta(a.post, a.result) == a.meta,
                               meta(a.post, a.self) == meta(a.pre, a.self)))

    c = new(pm + "__len__")
    c.param("self", OBJ(PM))
    c.raises()
    c.ensures("count is the number of entries", lambda a: a.result == V.mk_int(mview(a.pre, a.self)[2]))

    c = new(pm + "to_transient")
    c.param("self", OBJ(PM))
    c.raises()
    c.ensures("a transient starts with the entries of its source (which stays as it was: frame) and owns a fresh mutation",
              lambda a: z3.And(has_class(a.eng, a.result, TM), same_map(tmview(a.post, a.result), mview(a.pre, a.self)), V.Val.a(inner(a.post, a.result)) > 0))

    # conj of one element: nil, a map entry, a two-element vector, another map
    c = new(pm + "cons", "nil")
    c.param("self", OBJ(PM)).param("elems", STAR(1))
    c.requires("the element is nil", lambda a: V.is_none(a.elems0))
    c.raises()
    c.ensures("conj of nil gives an equal map with the same metadata",
              lambda a: z3.And(has_class(a.eng, a.result, PM), same_map(mview(a.post, a.result), mview(a.pre, a.self)), meta(a.post, a.result) == meta(a.pre, a.self)))

    for ecls, lbl in ((ME, "a map entry"), (PV, "a two-element vector")):
        c = new(pm + "cons", lbl)
        c.param("self", OBJ(PM)).param("elems", STAR(1))
        c.requires(f"the element is {lbl}", lambda a, ecls=ecls: z3.And(has_class(a.eng, a.elems0, ecls), z3.Length(sview(a.pre, a.elems0)) == 2,
                                                                       has_class(a.eng, inner(a.pre, a.elems0), a.eng.libcls["PVec"])))
        c.raises()

        def post(a):
            E = sview(a.pre, a.elems0)
            m, d, n_ = model_assoc(*mview(a.pre, a.self), E[0], E[1])
            return z3.And(has_class(a.eng, a.result, PM), same_map(mview(a.post, a.result), (m, d, n_)), meta(a.post, a.result) == meta(a.pre, a.self))

        c.ensures("conj of [k v] binds k to v, leaves every other entry alone and keeps the metadata", post)

    return pack
