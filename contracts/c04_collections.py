"""C04 - persistent collections are immutable values that behave like their model.

Every public operation of the five persistent collection classes and their transients gets a
contract over the *abstract view* of the value:

* vector, list, queue: a mathematical sequence (``seq_of`` of the wrapped pyrsistent value);
* map: a finite map (``map_of`` / ``dom_of`` / ``map_size`` of the wrapped immutables.Map);
* set: a finite set (``dom_of`` of the wrapped map, every member mapped to itself);
* transients: the content of the wrapped evolver / MapMutation, which is *state*.

Postconditions are stated over the whole view (result view == model function of the old view and
the arguments) and metadata; every contract has an empty frame: no field, list, set or library
state of any object that existed before the call may change (objects allocated by the call are
excluded).  An operation history is then a chain of such steps: each step produces a value equal
to the model's and leaves every earlier value as it was, which is the property (induction over
the history; the step is what is proved here).

Variadic operations (``conj``/``assoc``/``dissoc``/``disj`` with several arguments) are verified at
the arities 0..2 (elements) or 1..2 pairs, stated per contract; the loop bodies are the same for
every arity.

Index arguments: ``nth``/``get``/``assoc`` are specified for non-negative indices.  Upstream tests pin
Python-style negative indexing for ``get``/``nth``/``entry`` (``(get [1 2] -1)`` is 2), the property's
"plain model" has no opinion on it, so negative indices are outside these contracts.
"""
import z3

from pyvc import vals as V
from pyvc import lib, ops
from pyvc.contract import Pack, T, OBJ, ANY, INT, STAR
from pyvc.engine import SV, Model, Raise, Exc, Unsupported


def _cls():
    from basilisp.lang.vector import PersistentVector, TransientVector, MapEntry
    from basilisp.lang.list import PersistentList
    from basilisp.lang.queue import PersistentQueue
    from basilisp.lang.map import PersistentMap, TransientMap
    from basilisp.lang.set import PersistentSet, TransientSet

    return dict(PV=PersistentVector, TV=TransientVector, ME=MapEntry, PL=PersistentList, PQ=PersistentQueue, PM=PersistentMap, TM=TransientMap,
                PS=PersistentSet, TS=TransientSet)


def setup(eng, st):
    lib.install(eng)
    lib.install_wrappers(eng)
    C = _cls()
    for c in C.values():
        eng.class_id(c)
    evid = eng.class_id(eng.libcls["Evolver"])
    muid = eng.class_id(eng.libcls["IMut"])
    eng.field_types[("TransientVector", "_inner")] = lambda v: (z3.And(V.is_ref(v), V.cls_of(V.Val.a(v)) == evid), eng.libcls["Evolver"])
    eng.field_types[("TransientMap", "_inner")] = lambda v: (z3.And(V.is_ref(v), V.cls_of(V.Val.a(v)) == muid), eng.libcls["IMut"])
    eng.field_types[("TransientSet", "_inner")] = lambda v: (z3.And(V.is_ref(v), V.cls_of(V.Val.a(v)) == muid), eng.libcls["IMut"])


# ----------------------------------------------------------------------------- views
def inner(sv, obj):
    return z3.Select(sv.st.field_array("_inner"), V.Val.a(obj))


def meta(sv, obj):
    return z3.Select(sv.st.field_array("_meta"), V.Val.a(obj))


def sview(sv, obj):
    """sequence view of a vector / list / queue"""
    return V.seq_of(V.Val.a(inner(sv, obj)))


def tview(sv, obj):
    """content of a transient vector (state)"""
    return z3.Select(sv.st.lists, V.Val.a(inner(sv, obj)))


# The property statement pins metadata only for with-meta, equality and hashing; that conj/assoc/dissoc/pop/empty
# carry the receiver's metadata over is the implementation's (and Clojure's) habit, noted under "mechanism", and
# upstream is not uniform about it (PersistentVector.pop drops it, PersistentQueue.pop keeps it).  The clause is
# therefore written down but not enforced: enforcing it would demand more than the property states.
ENFORCE_META_CARRY = False


def carries_meta(a):
    if not ENFORCE_META_CARRY:
        return z3.BoolVal(True)
    return meta(a.post, a.result) == meta(a.pre, a.self)


def mview(sv, obj):
    """(map, domain, size) of a persistent map / set"""
    a = V.Val.a(inner(sv, obj))
    return V.map_of(a), V.dom_of(a), lib.map_size(a)


def tmview(sv, obj):
    """(map, domain, size) of a transient map / set (state)"""
    return lib.mutation_content(sv.st, V.Val.a(inner(sv, obj)))


ANYKEY = z3.Const("any_key", V.Val)
ANYKEY2 = z3.Const("any_key2", V.Val)


def same_map(got, want, values=True):
    """two finite maps are the same: same domain, same size, same value at every key of the domain
    (stated for the arbitrary key ANYKEY)"""
    (m1, d1, n1), (m2, d2, n2) = got, want
    cl = [z3.Select(d1, ANYKEY) == z3.Select(d2, ANYKEY), n1 == n2]
    if values:
        cl.append(z3.Implies(z3.Select(d2, ANYKEY), z3.Select(m1, ANYKEY) == z3.Select(m2, ANYKEY)))
    return z3.And(*cl)


def model_assoc(m, d, n, k, v):
    kn = lib.key_norm(k)
    return z3.Store(m, kn, v), z3.Store(d, kn, True), n + z3.If(z3.Select(d, kn), 0, 1)


def model_dissoc(m, d, n, k):
    kn = lib.key_norm(k)
    return m, z3.Store(d, kn, False), n - z3.If(z3.Select(d, kn), 1, 0)


def has_class(eng, v, cls):
    return z3.And(V.is_ref(v), V.cls_of(V.Val.a(v)) == eng.class_id(cls))


def unit_seq(*ts):
    if not ts:
        return z3.Empty(V.ValSeq)
    us = [z3.Unit(t) for t in ts]
    return us[0] if len(us) == 1 else z3.Concat(*us)


def cat(*seqs):
    seqs = [s for s in seqs]
    return seqs[0] if len(seqs) == 1 else z3.Concat(*seqs)


def index_of(k):
    """bools are ints for Python indexing"""
    return V.int_of(k)


def seq_update(S, i, v):
    """the model's assoc on a sequence, 0 <= i <= |S|: replace position i, or append when i = |S|"""
    n = z3.Length(S)
    return z3.If(i == n, z3.Concat(S, z3.Unit(v)), z3.Concat(z3.SubSeq(S, 0, i), z3.Unit(v), z3.SubSeq(S, i + 1, n - i - 1)))


# an arbitrary position: a goal stated for ANYJ (which occurs in no hypothesis) holds for every position
ANYJ = z3.Int("any_position")
ANYK = z3.Int("any_address")


def build(active_known=frozenset()):
    C = _cls()
    PV, TV, ME, PL, PQ, PM, TM, PS, TS = (C[k] for k in ("PV", "TV", "ME", "PL", "PQ", "PM", "TM", "PS", "TS"))
    from basilisp.lang.interfaces import IIndexed

    pack = Pack("C04", "Persistent collections are immutable values that behave like their model")
    pack.common_setup.append(setup)
    pack.trust("pyrsistent pvector/plist/pdeque and immutables.Map are immutable values whose operations return the documented new value (models in pyvc/lib.py); "
               "an evolver / MapMutation starts as a copy of its source, never writes through to it, and persistent()/finish() returns a value that later mutation of the evolver does not change")
    pack.trust("the empty plist is a singleton object (pyrsistent._plist._EMPTY_PLIST) and no PList instance is empty")
    pack.assume("element __eq__/__hash__ are pure and consistent (keys that are == hash equal); True == 1 == Fraction(1) are the same key")

    def new(key, label=None):
        c = pack.contract(key)
        if label:
            c.label = label
        c.modifies()
        return c

    # =================================================================================== PersistentVector
    vec = "basilisp.lang.vector:PersistentVector."
    for n in (0, 1, 2):
        c = new(vec + "cons", f"{n} elements")
        c.param("self", OBJ(PV)).param("elems", STAR(n))
        c.raises()

        def post(a, n=n):
            es = [getattr(a, f"elems{i}") for i in range(n)]
            return z3.And(has_class(a.eng, a.result, PV), sview(a.post, a.result) == cat(sview(a.pre, a.self), unit_seq(*es)),
                          carries_meta(a))

        c.ensures("conj appends the elements in order and keeps the metadata", post)

    c = new(vec + "assoc", "one index/value pair")
    c.param("self", OBJ(PV)).param("kvs", STAR(2))
    c.requires("the index is a non-negative integer", lambda a: z3.And(V.is_int(a.kvs0), V.Val.i(a.kvs0) >= 0))
    c.raises(IndexError)
    c.raises_only_if("the index is beyond the end", (IndexError,), lambda a: V.Val.i(a.kvs0) > z3.Length(sview(a.pre, a.self)))

    def post(a):
        S, i = sview(a.pre, a.self), V.Val.i(a.kvs0)
        return z3.And(has_class(a.eng, a.result, PV), i <= z3.Length(S), sview(a.post, a.result) == seq_update(S, i, a.kvs1),
                      carries_meta(a))

    c.ensures("assoc replaces position i (appends when i = count), every other position and the metadata are unchanged", post)

    c = new(vec + "contains")
    c.param("self", OBJ(PV))
    c.raises()
    c.ensures("contains? is true exactly for the integers 0 <= k < count",
              lambda a: z3.And(V.is_bool(a.result), V.Val.b(a.result) == z3.And(z3.Or(V.is_int(a.k), V.is_bool(a.k)), index_of(a.k) >= 0,
                                                                             index_of(a.k) < z3.Length(sview(a.pre, a.self)))))

    c = new(vec + "val_at")
    c.param("self", OBJ(PV))
    c.requires("the key is not a negative integer", lambda a: z3.Implies(z3.Or(V.is_int(a.k), V.is_bool(a.k)), index_of(a.k) >= 0))
    c.requires("the key is an integer, a string or nil (the Python index protocol of other types is outside the model)", lambda a: z3.Or(V.is_int(a.k), V.is_bool(a.k), V.is_str(a.k), V.is_none(a.k)))
    c.raises()

    def post(a):
        S = sview(a.pre, a.self)
        isidx = z3.Or(V.is_int(a.k), V.is_bool(a.k))
        return a.result == z3.If(z3.And(isidx, index_of(a.k) < z3.Length(S)), S[index_of(a.k)], a.default)

    c.ensures("get returns the element at an index in range and the default otherwise (also for a non-integer key)", post)

    for given in (False, True):
        c = new(vec + "nth", "with notfound" if given else "without notfound")
        c.param("self", OBJ(PV)).param("k", INT)
        c.requires("the index is not negative", lambda a: V.Val.i(a.k) >= 0)
        if given:
            c.requires("notfound is given", lambda a: a.notfound != a.eng.lift(IIndexed.NTH_SENTINEL, a.pre.st))
            c.raises()
            c.ensures("nth returns the element at an index in range and notfound otherwise",
                      lambda a: a.result == z3.If(V.Val.i(a.k) < z3.Length(sview(a.pre, a.self)), sview(a.pre, a.self)[V.Val.i(a.k)], a.notfound))
        else:
            c.requires("notfound is not given", lambda a: a.notfound == a.eng.lift(IIndexed.NTH_SENTINEL, a.pre.st))
            c.raises(IndexError)
            c.raises_only_if("the index is out of range", (IndexError,), lambda a: V.Val.i(a.k) >= z3.Length(sview(a.pre, a.self)))
            c.ensures("nth returns the element at the index", lambda a: z3.And(V.Val.i(a.k) < z3.Length(sview(a.pre, a.self)), a.result == sview(a.pre, a.self)[V.Val.i(a.k)]))

    c = new(vec + "entry")
    c.param("self", OBJ(PV)).param("k", INT)
    c.requires("the index is not negative", lambda a: V.Val.i(a.k) >= 0)
    c.raises()

    def post(a):
        S, k = sview(a.pre, a.self), V.Val.i(a.k)
        return z3.If(k < z3.Length(S), z3.And(has_class(a.eng, a.result, ME), sview(a.post, a.result) == unit_seq(a.k, S[k])), V.is_none(a.result))

    c.ensures("find returns the entry [k, v[k]] for an index in range and nil otherwise", post)

    c = new(vec + "empty")
    c.param("self", OBJ(PV))
    c.raises()
    c.ensures("empty is the empty vector with the same metadata",
              lambda a: z3.And(has_class(a.eng, a.result, PV), z3.Length(sview(a.post, a.result)) == 0, carries_meta(a)))

    c = new(vec + "with_meta")
    c.param("self", OBJ(PV))
    c.raises()
    c.ensures("with-meta returns a vector with the same elements carrying exactly the given metadata; the original keeps its own (frame)",
              lambda a: z3.And(has_class(a.eng, a.result, PV), sview(a.post, a.result) == sview(a.pre, a.self), meta(a.post, a.result) == a.meta,
                               meta(a.post, a.self) == meta(a.pre, a.self)))

    c = new(vec + "peek")
    c.param("self", OBJ(PV))
    c.raises()
    c.ensures("peek is the last element, nil for the empty vector",
              lambda a: a.result == z3.If(z3.Length(sview(a.pre, a.self)) == 0, V.VNone, sview(a.pre, a.self)[z3.Length(sview(a.pre, a.self)) - 1]))

    c = new(vec + "pop")
    c.param("self", OBJ(PV))
    c.raises(IndexError)
    c.raises_only_if("the vector is empty", (IndexError,), lambda a: z3.Length(sview(a.pre, a.self)) == 0)

    def post(a):
        S, R = sview(a.pre, a.self), sview(a.post, a.result)
        j = ANYJ
        return z3.And(has_class(a.eng, a.result, PV), z3.Length(S) > 0, z3.Length(R) == z3.Length(S) - 1,
                      z3.Implies(z3.And(j >= 0, j < z3.Length(R)), R[j] == S[j]))

    c.ensures("pop drops exactly the last element", post)

    c = new(vec + "__len__")
    c.param("self", OBJ(PV))
    c.raises()
    c.ensures("count is the length of the sequence", lambda a: a.result == V.mk_int(z3.Length(sview(a.pre, a.self))))

    c = new(vec + "to_transient")
    c.param("self", OBJ(PV))
    c.raises()
    c.ensures("a transient starts with the elements of its source (which stays as it was: frame)",
              lambda a: z3.And(has_class(a.eng, a.result, TV), tview(a.post, a.result) == sview(a.pre, a.self), V.Val.a(inner(a.post, a.result)) > 0))

    # =================================================================================== TransientVector
    tv = "basilisp.lang.vector:TransientVector."

    def newt(key, label=None):
        """a transient operation may change the content of its own evolver and nothing else"""
        c = pack.contract(key)
        if label:
            c.label = label
        c.modifies(lists=True)
        c.param("self", OBJ(TV))
        c.ensures("no other evolver or list changes, and the transient keeps its evolver",
                  lambda a: z3.And(z3.Implies(z3.And(ANYK <= 0, ANYK != V.Val.a(inner(a.pre, a.self))), z3.Select(a.post.st.lists, ANYK) == z3.Select(a.pre.st.lists, ANYK)),
                                   inner(a.post, a.self) == inner(a.pre, a.self)))
        return c

    for n in (0, 1, 2):
        c = newt(tv + "cons_transient", f"{n} elements")
        c.param("elems", STAR(n))
        c.raises()
        c.ensures("conj! appends the elements in order and returns the transient itself",
                  lambda a, n=n: z3.And(a.result == a.self, tview(a.post, a.self) == cat(tview(a.pre, a.self), unit_seq(*[getattr(a, f"elems{i}") for i in range(n)]))))

    for n in (2, 1):
        c = newt(tv + "assoc_transient", "one index/value pair" if n == 2 else "an index without a value (sets nil)")
        c.param("kvs", STAR(n))
        c.requires("the index is a non-negative integer", lambda a: z3.And(V.is_int(a.kvs0), V.Val.i(a.kvs0) >= 0))
        c.raises(IndexError)
        c.raises_only_if("the index is beyond the end", (IndexError,), lambda a: V.Val.i(a.kvs0) > z3.Length(tview(a.pre, a.self)))
        c.ensures_on_raise("a failed assoc! leaves the content as it was", lambda a: tview(a.post, a.self) == tview(a.pre, a.self))
        c.ensures("assoc! replaces position i (appends when i = count) and returns the transient itself",
                  lambda a, n=n: z3.And(a.result == a.self, V.Val.i(a.kvs0) <= z3.Length(tview(a.pre, a.self)),
                                        tview(a.post, a.self) == seq_update(tview(a.pre, a.self), V.Val.i(a.kvs0), a.kvs1 if n == 2 else V.VNone)))

    c = newt(tv + "contains_transient")
    c.param("k", INT)
    c.raises()
    c.ensures("contains? is true exactly for 0 <= k < count; the content is unchanged",
              lambda a: z3.And(a.result == V.mk_bool(z3.And(V.Val.i(a.k) >= 0, V.Val.i(a.k) < z3.Length(tview(a.pre, a.self)))), tview(a.post, a.self) == tview(a.pre, a.self)))

    c = newt(tv + "val_at")
    c.param("k", INT)
    c.requires("the index is not negative", lambda a: V.Val.i(a.k) >= 0)
    c.raises()
    c.ensures("get returns the element at an index in range and the default otherwise; the content is unchanged",
              lambda a: z3.And(a.result == z3.If(V.Val.i(a.k) < z3.Length(tview(a.pre, a.self)), tview(a.pre, a.self)[V.Val.i(a.k)], a.default),
                               tview(a.post, a.self) == tview(a.pre, a.self)))

    c = newt(tv + "nth", "with notfound")
    c.param("k", INT)
    c.requires("the index is not negative", lambda a: V.Val.i(a.k) >= 0)
    c.requires("notfound is given", lambda a: a.notfound != a.eng.lift(IIndexed.NTH_SENTINEL, a.pre.st))
    c.raises()
    c.ensures("nth returns the element at an index in range and notfound otherwise; the content is unchanged",
              lambda a: z3.And(a.result == z3.If(V.Val.i(a.k) < z3.Length(tview(a.pre, a.self)), tview(a.pre, a.self)[V.Val.i(a.k)], a.notfound),
                               tview(a.post, a.self) == tview(a.pre, a.self)))

    c = newt(tv + "entry_transient")
    c.param("k", INT)
    c.requires("the index is not negative", lambda a: V.Val.i(a.k) >= 0)
    c.raises()
    c.ensures("find returns the entry [k, v[k]] for an index in range and nil otherwise; the content is unchanged",
              lambda a: z3.And(z3.If(V.Val.i(a.k) < z3.Length(tview(a.pre, a.self)),
                                     z3.And(has_class(a.eng, a.result, ME), sview(a.post, a.result) == unit_seq(a.k, tview(a.pre, a.self)[V.Val.i(a.k)])), V.is_none(a.result)),
                               tview(a.post, a.self) == tview(a.pre, a.self)))

    c = newt(tv + "pop_transient")
    c.raises(IndexError)
    c.raises_only_if("the transient is empty", (IndexError,), lambda a: z3.Length(tview(a.pre, a.self)) == 0)
    c.ensures_on_raise("a failed pop! leaves the content as it was", lambda a: tview(a.post, a.self) == tview(a.pre, a.self))
    c.ensures("pop! drops exactly the last element and returns the transient itself",
              lambda a: z3.And(a.result == a.self, z3.Length(tview(a.pre, a.self)) > 0,
                               tview(a.post, a.self) == z3.SubSeq(tview(a.pre, a.self), 0, z3.Length(tview(a.pre, a.self)) - 1)))

    c = newt(tv + "__len__")
    c.raises()
    c.ensures("count is the number of elements", lambda a: z3.And(a.result == V.mk_int(z3.Length(tview(a.pre, a.self))), tview(a.post, a.self) == tview(a.pre, a.self)))

    c = newt(tv + "to_persistent")
    c.raises()
    c.ensures("persistent! returns a vector with exactly the current elements",
              lambda a: z3.And(has_class(a.eng, a.result, PV), sview(a.post, a.result) == tview(a.pre, a.self), tview(a.post, a.self) == tview(a.pre, a.self)))

    # =================================================================================== PersistentMap
    pm = "basilisp.lang.map:PersistentMap."
    from basilisp.lang import map as lmap

    def no_sentinel(a):
        """the module-private lookup sentinel is not a value of the map (nothing outside map.py can hold it)"""
        m, d, _ = mview(a.pre, a.self)
        return z3.Select(m, ANYKEY2) != a.eng.lift(lmap._ENTRY_SENTINEL, a.pre.st)

    for npairs in (1, 2):
        c = new(pm + "assoc", f"{npairs} key/value pair(s)")
        c.param("self", OBJ(PM)).param("kvs", STAR(2 * npairs))
        c.raises()

        def post(a, npairs=npairs):
            m, d, n_ = mview(a.pre, a.self)
            for i in range(npairs):
                m, d, n_ = model_assoc(m, d, n_, getattr(a, f"kvs{2 * i}"), getattr(a, f"kvs{2 * i + 1}"))
            return z3.And(has_class(a.eng, a.result, PM), same_map(mview(a.post, a.result), (m, d, n_)), carries_meta(a))

        c.ensures("assoc binds each key to its value in order, leaves every other entry alone and keeps the metadata", post)

    for n in (0, 1, 2):
        c = new(pm + "dissoc", f"{n} key(s)")
        c.param("self", OBJ(PM)).param("ks", STAR(n))
        c.raises()

        def post(a, n=n):
            m, d, n_ = mview(a.pre, a.self)
            for i in range(n):
                m, d, n_ = model_dissoc(m, d, n_, getattr(a, f"ks{i}"))
            return z3.And(has_class(a.eng, a.result, PM), same_map(mview(a.post, a.result), (m, d, n_)), carries_meta(a))

        c.ensures("dissoc removes exactly the given keys (absent keys are ignored) and keeps the metadata", post)

    c = new(pm + "contains")
    c.param("self", OBJ(PM))
    c.raises()
    c.ensures("contains? is membership in the domain", lambda a: a.result == V.mk_bool(z3.Select(mview(a.pre, a.self)[1], lib.key_norm(a.k))))

    for nm in ("val_at", "__call__"):
        c = new(pm + nm)
        c.param("self", OBJ(PM))
        c.raises()
        kname = "k" if nm == "val_at" else "key"
        c.ensures("get returns the bound value of a present key and the default otherwise",
                  lambda a, kname=kname: a.result == z3.If(z3.Select(mview(a.pre, a.self)[1], lib.key_norm(getattr(a, kname))),
                                                           z3.Select(mview(a.pre, a.self)[0], lib.key_norm(getattr(a, kname))), a.default))

    c = new(pm + "entry")
    c.param("self", OBJ(PM))
    c.requires("the module-private sentinel is not a value of the map", lambda a: z3.Select(mview(a.pre, a.self)[0], lib.key_norm(a.k)) != a.eng.lift(lmap._ENTRY_SENTINEL, a.pre.st))
    c.raises()
    c.ensures("find returns the entry [k, m[k]] of a present key and nil otherwise",
              lambda a: z3.If(z3.Select(mview(a.pre, a.self)[1], lib.key_norm(a.k)),
                              z3.And(has_class(a.eng, a.result, ME), sview(a.post, a.result) == unit_seq(a.k, z3.Select(mview(a.pre, a.self)[0], lib.key_norm(a.k)))),
                              V.is_none(a.result)))

    c = new(pm + "empty")
    c.param("self", OBJ(PM))
    c.raises()
    c.ensures("empty is the empty map with the same metadata",
              lambda a: z3.And(has_class(a.eng, a.result, PM), z3.Not(z3.Select(mview(a.post, a.result)[1], ANYKEY)), mview(a.post, a.result)[2] == 0,
                               carries_meta(a)))

    c = new(pm + "with_meta")
    c.param("self", OBJ(PM))
    c.raises()
    c.ensures("with-meta returns a map with the same entries carrying exactly the given metadata; the original keeps its own (frame)",
              lambda a: z3.And(has_class(a.eng, a.result, PM), same_map(mview(a.post, a.result), mview(a.pre, a.self)), meta(a.post, a.result) == a.meta,
                               meta(a.post, a.self) == meta(a.pre, a.self)))

    c = new(pm + "__len__")
    c.param("self", OBJ(PM))
    c.raises()
    c.ensures("count is the number of entries", lambda a: a.result == V.mk_int(mview(a.pre, a.self)[2]))

    c = new(pm + "to_transient")
    c.param("self", OBJ(PM))
    c.raises()
    c.ensures("a transient starts with the entries of its source (which stays as it was: frame) and owns a fresh mutation",
              lambda a: z3.And(has_class(a.eng, a.result, TM), same_map(tmview(a.post, a.result), mview(a.pre, a.self)), V.Val.a(inner(a.post, a.result)) > 0))

    # conj of one element: nil, a map entry, a two-element vector, another map
    c = new(pm + "cons", "nil")
    c.param("self", OBJ(PM)).param("elems", STAR(1))
    c.requires("the element is nil", lambda a: V.is_none(a.elems0))
    c.raises()
    c.ensures("conj of nil gives an equal map with the same metadata",
              lambda a: z3.And(has_class(a.eng, a.result, PM), same_map(mview(a.post, a.result), mview(a.pre, a.self)), carries_meta(a)))

    for ecls, lbl in ((ME, "a map entry"), (PV, "a two-element vector")):
        c = new(pm + "cons", lbl)
        c.param("self", OBJ(PM)).param("elems", STAR(1)).param("elems0", OBJ(ecls))
        c.requires(f"the element is {lbl}", lambda a: z3.Length(sview(a.pre, a.elems0)) == 2)
        c.raises()

        def post(a):
            E = sview(a.pre, a.elems0)
            m, d, n_ = model_assoc(*mview(a.pre, a.self), E[0], E[1])
            return z3.And(has_class(a.eng, a.result, PM), same_map(mview(a.post, a.result), (m, d, n_)), carries_meta(a))

        c.ensures("conj of [k v] binds k to v, leaves every other entry alone and keeps the metadata", post)

    # conj of two elements one of which is nil: nil is skipped wherever it stands, the other element is still added
    for nil_at, lbl in ((0, "nil, then a map entry"), (1, "a map entry, then nil")):
        c = new(pm + "cons", lbl)
        c.param("self", OBJ(PM)).param("elems", STAR(2)).param(f"elems{1 - nil_at}", OBJ(ME))
        c.requires("one element is nil, the other a map entry",
                   lambda a, nil_at=nil_at: z3.And(V.is_none(getattr(a, f"elems{nil_at}")), z3.Length(sview(a.pre, getattr(a, f"elems{1 - nil_at}"))) == 2))
        c.raises()

        def post2(a, nil_at=nil_at):
            E = sview(a.pre, getattr(a, f"elems{1 - nil_at}"))
            m, d, n_ = model_assoc(*mview(a.pre, a.self), E[0], E[1])
            return z3.And(has_class(a.eng, a.result, PM), same_map(mview(a.post, a.result), (m, d, n_)), carries_meta(a))

        c.ensures("a nil among the arguments of conj is skipped and the other elements are added all the same (before it and after it)", post2)

    # =================================================================================== TransientMap
    tm = "basilisp.lang.map:TransientMap."

    def newtm(key, cls, label=None):
        """a transient map / set operation may change the content of its own mutation and nothing else"""
        c = pack.contract(key)
        if label:
            c.label = label
        c.modifies()
        c.frame_aux = ("mutm", "mutd", "mutn")
        c.param("self", OBJ(cls))

        def others(a):
            own = V.Val.a(inner(a.pre, a.self))
            cl = [inner(a.post, a.self) == inner(a.pre, a.self)]
            for nm in ("mutm", "mutd", "mutn"):
                lib.mutation_content(a.pre.st, own), lib.mutation_content(a.post.st, own)
                cl.append(z3.Implies(z3.And(ANYK <= 0, ANYK != own), z3.Select(a.post.st.aux[nm], ANYK) == z3.Select(a.pre.st.aux[nm], ANYK)))
            return z3.And(*cl)

        c.ensures("no other transient changes, and the transient keeps its mutation", others)
        return c

    def unchanged(a):
        return same_map(tmview(a.post, a.self), tmview(a.pre, a.self))

    for n in (2, 1, 4):
        c = newtm(tm + "assoc_transient", TM, {2: "one key/value pair", 1: "a key without a value (binds nil)", 4: "two key/value pairs"}[n])
        c.param("kvs", STAR(n))
        c.raises()

        def post(a, n=n):
            m, d, n_ = tmview(a.pre, a.self)
            for i in range(0, n, 2):
                m, d, n_ = model_assoc(m, d, n_, getattr(a, f"kvs{i}"), getattr(a, f"kvs{i + 1}") if i + 1 < n else V.VNone)
            return z3.And(a.result == a.self, same_map(tmview(a.post, a.self), (m, d, n_)))

        c.ensures("assoc! binds each key to its value in order, leaves every other entry alone and returns the transient itself", post)

    for n in (1, 2):
        c = newtm(tm + "dissoc_transient", TM, f"{n} key(s)")
        c.param("ks", STAR(n))
        c.raises()

        def post(a, n=n):
            m, d, n_ = tmview(a.pre, a.self)
            for i in range(n):
                m, d, n_ = model_dissoc(m, d, n_, getattr(a, f"ks{i}"))
            return z3.And(a.result == a.self, same_map(tmview(a.post, a.self), (m, d, n_)))

        c.ensures("dissoc! removes exactly the given keys and returns the transient itself", post)

    c = newtm(tm + "contains_transient", TM)
    c.raises()
    c.ensures("contains? is membership in the domain; the content is unchanged", lambda a: z3.And(a.result == V.mk_bool(z3.Select(tmview(a.pre, a.self)[1], lib.key_norm(a.k))), unchanged(a)))

    c = newtm(tm + "val_at", TM)
    c.raises()
    c.ensures("get returns the bound value of a present key and the default otherwise; the content is unchanged",
              lambda a: z3.And(a.result == z3.If(z3.Select(tmview(a.pre, a.self)[1], lib.key_norm(a.k)), z3.Select(tmview(a.pre, a.self)[0], lib.key_norm(a.k)), a.default), unchanged(a)))

    c = newtm(tm + "entry_transient", TM)
    c.requires("the module-private sentinel is not a value of the map", lambda a: z3.Select(tmview(a.pre, a.self)[0], lib.key_norm(a.k)) != a.eng.lift(lmap._ENTRY_SENTINEL, a.pre.st))
    c.raises()
    c.ensures("find returns the entry [k, m[k]] of a present key and nil otherwise; the content is unchanged",
              lambda a: z3.And(z3.If(z3.Select(tmview(a.pre, a.self)[1], lib.key_norm(a.k)),
                                     z3.And(has_class(a.eng, a.result, ME), sview(a.post, a.result) == unit_seq(a.k, z3.Select(tmview(a.pre, a.self)[0], lib.key_norm(a.k)))),
                                     V.is_none(a.result)), unchanged(a)))

    c = newtm(tm + "__len__", TM)
    c.raises()
    c.ensures("count is the number of entries", lambda a: z3.And(a.result == V.mk_int(tmview(a.pre, a.self)[2]), unchanged(a)))

    c = newtm(tm + "to_persistent", TM)
    c.raises()
    c.ensures("persistent! returns a map with exactly the current entries",
              lambda a: z3.And(has_class(a.eng, a.result, PM), same_map(mview(a.post, a.result), tmview(a.pre, a.self)), unchanged(a)))

    c = newtm(tm + "cons_transient", TM, "nil")
    c.param("elems", STAR(1))
    c.requires("the element is nil", lambda a: V.is_none(a.elems0))
    c.raises()
    c.ensures("conj! of nil changes nothing", lambda a: z3.And(a.result == a.self, unchanged(a)))

    for ecls, lbl in ((ME, "a map entry"), (PV, "a two-element vector")):
        c = newtm(tm + "cons_transient", TM, lbl)
        c.param("elems", STAR(1)).param("elems0", OBJ(ecls))
        c.requires(f"the element is {lbl}", lambda a: z3.Length(sview(a.pre, a.elems0)) == 2)
        c.raises()

        def post(a):
            E = sview(a.pre, a.elems0)
            return z3.And(a.result == a.self, same_map(tmview(a.post, a.self), model_assoc(*tmview(a.pre, a.self), E[0], E[1])))

        c.ensures("conj! of [k v] binds k to v and leaves every other entry alone", post)

    for nil_at, lbl in ((0, "nil, then a map entry"), (1, "a map entry, then nil")):
        c = newtm(tm + "cons_transient", TM, lbl)
        c.param("elems", STAR(2)).param(f"elems{1 - nil_at}", OBJ(ME))
        c.requires("one element is nil, the other a map entry",
                   lambda a, nil_at=nil_at: z3.And(V.is_none(getattr(a, f"elems{nil_at}")), z3.Length(sview(a.pre, getattr(a, f"elems{1 - nil_at}"))) == 2))
        c.raises()

        def post2t(a, nil_at=nil_at):
            E = sview(a.pre, getattr(a, f"elems{1 - nil_at}"))
            return z3.And(a.result == a.self, same_map(tmview(a.post, a.self), model_assoc(*tmview(a.pre, a.self), E[0], E[1])))

        c.ensures("a nil among the arguments of conj! is skipped and the other elements are added all the same", post2t)

    # =================================================================================== PersistentSet / TransientSet
    ps, ts = "basilisp.lang.set:PersistentSet.", "basilisp.lang.set:TransientSet."

    def model_conj(d, n_, x):
        kn = lib.key_norm(x)
        return z3.Store(d, kn, True), n_ + z3.If(z3.Select(d, kn), 0, 1)

    def model_disj(d, n_, x):
        kn = lib.key_norm(x)
        return z3.Store(d, kn, False), n_ - z3.If(z3.Select(d, kn), 1, 0)

    def same_set(got, d2, n2):
        return z3.And(z3.Select(got[1], ANYKEY) == z3.Select(d2, ANYKEY), got[2] == n2)

    for n in (0, 1, 2):
        for opname, mdl in (("cons", model_conj), ("disj", model_disj)):
            c = new(ps + opname, f"{n} element(s)")
            c.param("self", OBJ(PS)).param("elems", STAR(n))
            c.raises()

            def post(a, n=n, mdl=mdl):
                _, d, n_ = mview(a.pre, a.self)
                for i in range(n):
                    d, n_ = mdl(d, n_, getattr(a, f"elems{i}"))
                return z3.And(has_class(a.eng, a.result, PS), same_set(mview(a.post, a.result), d, n_), carries_meta(a))

            c.ensures("conj adds / disj removes exactly the given elements and keeps the metadata", post)

            c = newtm(ts + opname + "_transient", TS, f"{n} element(s)")
            c.param("elems", STAR(n))
            c.raises()

            def postt(a, n=n, mdl=mdl):
                _, d, n_ = tmview(a.pre, a.self)
                for i in range(n):
                    d, n_ = mdl(d, n_, getattr(a, f"elems{i}"))
                return z3.And(a.result == a.self, same_set(tmview(a.post, a.self), d, n_))

            c.ensures("conj! adds / disj! removes exactly the given elements and returns the transient itself", postt)

    c = new(ps + "__contains__")
    c.param("self", OBJ(PS))
    c.raises()
    c.ensures("contains? is membership", lambda a: a.result == V.mk_bool(z3.Select(mview(a.pre, a.self)[1], lib.key_norm(a.item))))

    c = new(ps + "__call__")
    c.param("self", OBJ(PS))
    c.raises()
    c.ensures("a set applied to a member returns it, to anything else the default", lambda a: a.result == z3.If(z3.Select(mview(a.pre, a.self)[1], lib.key_norm(a.key)), a.key, a.default))

    c = new(ps + "__len__")
    c.param("self", OBJ(PS))
    c.raises()
    c.ensures("count is the number of members", lambda a: a.result == V.mk_int(mview(a.pre, a.self)[2]))

    c = new(ps + "empty")
    c.param("self", OBJ(PS))
    c.raises()
    c.ensures("empty is the empty set with the same metadata",
              lambda a: z3.And(has_class(a.eng, a.result, PS), z3.Not(z3.Select(mview(a.post, a.result)[1], ANYKEY)), mview(a.post, a.result)[2] == 0,
                               carries_meta(a)))

    c = new(ps + "with_meta")
    c.param("self", OBJ(PS))
    c.raises()
    c.ensures("with-meta returns a set with the same members carrying exactly the given metadata; the original keeps its own (frame)",
              lambda a: z3.And(has_class(a.eng, a.result, PS), same_set(mview(a.post, a.result), mview(a.pre, a.self)[1], mview(a.pre, a.self)[2]),
                               meta(a.post, a.result) == a.meta, meta(a.post, a.self) == meta(a.pre, a.self)))

    c = new(ps + "to_transient")
    c.param("self", OBJ(PS))
    c.raises()
    c.ensures("a transient starts with the members of its source (which stays as it was: frame) and owns a fresh mutation",
              lambda a: z3.And(has_class(a.eng, a.result, TS), same_set(tmview(a.post, a.result), mview(a.pre, a.self)[1], mview(a.pre, a.self)[2]), V.Val.a(inner(a.post, a.result)) > 0))

    c = newtm(ts + "__contains__", TS)
    c.raises()
    c.ensures("contains? is membership; the content is unchanged", lambda a: z3.And(a.result == V.mk_bool(z3.Select(tmview(a.pre, a.self)[1], lib.key_norm(a.item))), unchanged(a)))

    c = newtm(ts + "__call__", TS)
    c.raises()
    c.ensures("a transient set applied to a member returns it, to anything else the default",
              lambda a: z3.And(a.result == z3.If(z3.Select(tmview(a.pre, a.self)[1], lib.key_norm(a.key)), a.key, a.default), unchanged(a)))

    c = newtm(ts + "to_persistent", TS)
    c.raises()
    c.ensures("persistent! returns a set with exactly the current members",
              lambda a: z3.And(has_class(a.eng, a.result, PS), same_set(mview(a.post, a.result), tmview(a.pre, a.self)[1], tmview(a.pre, a.self)[2]), unchanged(a)))

    # =================================================================================== PersistentList
    pl = "basilisp.lang.list:PersistentList."
    from basilisp.lang import list as llist

    for n in (0, 1, 2):
        c = new(pl + "cons", f"{n} elements")
        c.param("self", OBJ(PL)).param("elems", STAR(n))
        c.raises()
        c.ensures("conj puts each element in front, in order (the last one given ends up first), and keeps the metadata",
                  lambda a, n=n: z3.And(has_class(a.eng, a.result, PL), sview(a.post, a.result) == cat(unit_seq(*[getattr(a, f"elems{i}") for i in reversed(range(n))]), sview(a.pre, a.self)),
                                        carries_meta(a)))

    for nm in ("first", "peek"):
        c = new(pl + nm)
        c.param("self", OBJ(PL))
        c.raises()
        c.ensures("first / peek is the first element, nil for the empty list", lambda a: a.result == z3.If(z3.Length(sview(a.pre, a.self)) == 0, V.VNone, sview(a.pre, a.self)[0]))

    c = new(pl + "rest")
    c.param("self", OBJ(PL))
    c.raises()
    c.ensures("rest is the list without its first element (the empty seq when nothing is left)",
              lambda a: z3.If(z3.Length(sview(a.pre, a.self)) <= 1, a.result == a.eng.lift(llist._EMPTY_SEQ, a.pre.st),
                              z3.And(has_class(a.eng, a.result, PL), sview(a.post, a.result) == z3.SubSeq(sview(a.pre, a.self), 1, z3.Length(sview(a.pre, a.self)) - 1))))

    c = new(pl + "pop")
    c.param("self", OBJ(PL))
    c.raises(IndexError)
    c.raises_only_if("the list is empty", (IndexError,), lambda a: z3.Length(sview(a.pre, a.self)) == 0)
    # (from the property: the result of an operation on a list is again a value of the list model, so that the next
    # operation of a sequence - peek, pop, conj - applies to it; popping the last element gives the empty *list*)
    c.ensures("pop drops exactly the first element and gives a list again - the empty list when nothing is left",
              lambda a: z3.And(z3.Length(sview(a.pre, a.self)) > 0, has_class(a.eng, a.result, PL),
                               sview(a.post, a.result) == z3.SubSeq(sview(a.pre, a.self), 1, z3.Length(sview(a.pre, a.self)) - 1)))

    c = new(pl + "empty")
    c.param("self", OBJ(PL))
    c.raises()
    c.ensures("empty is the empty list with the same metadata",
              lambda a: z3.And(has_class(a.eng, a.result, PL), z3.Length(sview(a.post, a.result)) == 0, carries_meta(a)))

    c = new(pl + "with_meta")
    c.param("self", OBJ(PL))
    c.raises()
    c.ensures("with-meta returns a list with the same elements carrying exactly the given metadata; the original keeps its own (frame)",
              lambda a: z3.And(has_class(a.eng, a.result, PL), sview(a.post, a.result) == sview(a.pre, a.self), meta(a.post, a.result) == a.meta, meta(a.post, a.self) == meta(a.pre, a.self)))

    c = new(pl + "__len__")
    c.param("self", OBJ(PL))
    c.raises()
    c.ensures("count is the length of the sequence", lambda a: a.result == V.mk_int(z3.Length(sview(a.pre, a.self))))

    # =================================================================================== PersistentQueue
    pq = "basilisp.lang.queue:PersistentQueue."
    for n in (0, 1, 2):
        c = new(pq + "cons", f"{n} elements")
        c.param("self", OBJ(PQ)).param("elems", STAR(n))
        c.raises()
        c.ensures("conj appends the elements at the back in order and keeps the metadata",
                  lambda a, n=n: z3.And(has_class(a.eng, a.result, PQ), sview(a.post, a.result) == cat(sview(a.pre, a.self), unit_seq(*[getattr(a, f"elems{i}") for i in range(n)])),
                                        carries_meta(a)))

    c = new(pq + "peek")
    c.param("self", OBJ(PQ))
    c.raises()
    c.ensures("peek is the front element, nil for the empty queue", lambda a: a.result == z3.If(z3.Length(sview(a.pre, a.self)) == 0, V.VNone, sview(a.pre, a.self)[0]))

    c = new(pq + "pop")
    c.param("self", OBJ(PQ))
    c.raises(IndexError)
    c.raises_only_if("the queue is empty", (IndexError,), lambda a: z3.Length(sview(a.pre, a.self)) == 0)
    c.ensures("pop drops exactly the front element and keeps the metadata",
              lambda a: z3.And(has_class(a.eng, a.result, PQ), z3.Length(sview(a.pre, a.self)) > 0,
                               sview(a.post, a.result) == z3.SubSeq(sview(a.pre, a.self), 1, z3.Length(sview(a.pre, a.self)) - 1), carries_meta(a)))

    c = new(pq + "empty")
    c.param("self", OBJ(PQ))
    c.raises()
    c.ensures("empty is the empty queue with the same metadata",
              lambda a: z3.And(has_class(a.eng, a.result, PQ), z3.Length(sview(a.post, a.result)) == 0, carries_meta(a)))

    c = new(pq + "with_meta")
    c.param("self", OBJ(PQ))
    c.raises()
    c.ensures("with-meta returns a queue with the same elements carrying exactly the given metadata; the original keeps its own (frame)",
              lambda a: z3.And(has_class(a.eng, a.result, PQ), sview(a.post, a.result) == sview(a.pre, a.self), meta(a.post, a.result) == a.meta, meta(a.post, a.self) == meta(a.pre, a.self)))

    c = new(pq + "__len__")
    c.param("self", OBJ(PQ))
    c.raises()
    c.ensures("count is the length of the sequence", lambda a: a.result == V.mk_int(z3.Length(sview(a.pre, a.self))))

    # =================================================================================== runtime dispatch (what basilisp.core calls)
    # entered through the live single-dispatch objects; the collection methods are inlined, so a wrong dispatch
    # (e.g. a vector treated as a generic Sequence) shows up against the same model
    rt = "basilisp.lang.runtime:"

    def live(name, label, **params):
        c = new(rt + name, label)
        c.entry_live = True
        for k, t in params.items():
            c.param(k, t)
        return c

    seq_conj = {PV: lambda S, x: cat(S, z3.Unit(x)), PQ: lambda S, x: cat(S, z3.Unit(x)), PL: lambda S, x: cat(z3.Unit(x), S)}
    for cls, f in seq_conj.items():
        c = live("conj", f"{cls.__name__}, one element", coll=OBJ(cls), x=ANY)
        c.raises()
        c.ensures("conj adds the element at the collection's natural end and returns the same kind of collection",
                  lambda a, cls=cls, f=f: z3.And(has_class(a.eng, a.result, cls), sview(a.post, a.result) == f(sview(a.pre, a.coll), a.x)))

    c = live("conj", "PersistentSet, one element", coll=OBJ(PS), x=ANY)
    c.raises()
    c.ensures("conj adds the element", lambda a: z3.And(has_class(a.eng, a.result, PS), same_set(mview(a.post, a.result), *model_conj(mview(a.pre, a.coll)[1], mview(a.pre, a.coll)[2], a.x))))

    c = live("conj", "PersistentMap, one map entry", coll=OBJ(PM), x=OBJ(ME))
    c.requires("the entry has two elements", lambda a: z3.Length(sview(a.pre, a.x)) == 2)
    c.raises()
    c.ensures("conj of [k v] binds k to v and leaves every other entry alone",
              lambda a: z3.And(has_class(a.eng, a.result, PM), same_map(mview(a.post, a.result), model_assoc(*mview(a.pre, a.coll), sview(a.pre, a.x)[0], sview(a.pre, a.x)[1]))))

    c = live("conj", "nil, one element", coll=T(lambda v: V.is_none(v), None, "None"), x=ANY)
    c.raises()
    c.ensures("conj on nil gives a one-element list", lambda a: z3.And(has_class(a.eng, a.result, PL), sview(a.post, a.result) == z3.Unit(a.x)))

    c = live("assoc", "PersistentVector, one pair", m=OBJ(PV), k=INT, v=ANY)
    c.requires("the index is not negative", lambda a: V.Val.i(a.k) >= 0)
    c.raises(IndexError)
    c.raises_only_if("the index is beyond the end", (IndexError,), lambda a: V.Val.i(a.k) > z3.Length(sview(a.pre, a.m)))
    c.ensures("assoc replaces position i (appends when i = count)",
              lambda a: z3.And(has_class(a.eng, a.result, PV), V.Val.i(a.k) <= z3.Length(sview(a.pre, a.m)), sview(a.post, a.result) == seq_update(sview(a.pre, a.m), V.Val.i(a.k), a.v)))

    c = live("assoc", "PersistentMap, one pair", m=OBJ(PM), k=ANY, v=ANY)
    c.raises()
    c.ensures("assoc binds the key to the value and leaves every other entry alone",
              lambda a: z3.And(has_class(a.eng, a.result, PM), same_map(mview(a.post, a.result), model_assoc(*mview(a.pre, a.m), a.k, a.v))))

    c = live("assoc", "nil, one pair", m=T(lambda v: V.is_none(v), None, "None"), k=ANY, v=ANY)
    c.raises()
    c.ensures("assoc on nil gives the one-entry map",
              lambda a: z3.And(has_class(a.eng, a.result, PM),
                               same_map(mview(a.post, a.result), model_assoc(z3.K(V.Val, V.VNone), z3.K(V.Val, z3.BoolVal(False)), z3.IntVal(0), a.k, a.v))))

    # update: (update m k f) is (assoc m k (f (get m k))) - also when k is absent and f returns nil
    class UpdateFn:
        """stand-in for the function passed to update: an opaque callable"""

    def the_call(a):
        calls = [c_ for c_ in a.post.st.calls if z3.eq(z3.simplify(c_[0]), z3.simplify(a.f))]
        return calls[0] if len(calls) == 1 else None

    c = live("update", "PersistentMap", m=OBJ(PM), k=ANY, f=OBJ(UpdateFn))
    c.allow_callback_exceptions = True

    def upd_map_post(a):
        call = the_call(a)
        if call is None or len(call[1]) != 1 or isinstance(call[3], Exc):
            return z3.BoolVal(False)
        m, d, n_ = mview(a.pre, a.m)
        kn = lib.key_norm(a.k)
        return z3.And(call[1][0] == z3.If(z3.Select(d, kn), z3.Select(m, kn), V.VNone), has_class(a.eng, a.result, PM),
                      same_map(mview(a.post, a.result), model_assoc(m, d, n_, a.k, call[3])))

    c.ensures("f is called once with the current value of the key (nil when absent) and the key is bound to whatever f returns - nil included; every other entry is left alone", upd_map_post)

    c = live("update", "PersistentVector", m=OBJ(PV), k=INT, f=OBJ(UpdateFn))
    c.requires("the index is within the vector or just behind it", lambda a: z3.And(V.Val.i(a.k) >= 0, V.Val.i(a.k) <= z3.Length(sview(a.pre, a.m))))
    c.allow_callback_exceptions = True

    def upd_vec_post(a):
        call = the_call(a)
        if call is None or len(call[1]) != 1 or isinstance(call[3], Exc):
            return z3.BoolVal(False)
        S, i = sview(a.pre, a.m), V.Val.i(a.k)
        return z3.And(call[1][0] == z3.If(i < z3.Length(S), S[i], V.VNone), has_class(a.eng, a.result, PV), sview(a.post, a.result) == seq_update(S, i, call[3]))

    c.ensures("f is called once with the current element (nil at the append position) and the position holds whatever f returns - nil included", upd_vec_post)

    c = live("get", "PersistentVector", m=OBJ(PV), k=INT, default=ANY)
    c.requires("the index is not negative", lambda a: V.Val.i(a.k) >= 0)
    c.raises()
    c.ensures("get returns the element at an index in range and the default otherwise",
              lambda a: a.result == z3.If(V.Val.i(a.k) < z3.Length(sview(a.pre, a.m)), sview(a.pre, a.m)[V.Val.i(a.k)], a.default))

    for cls, viewf in ((PM, mview), (TM, tmview)):
        c = live("get", cls.__name__, m=OBJ(cls), k=ANY, default=ANY)
        c.raises()
        c.ensures("get returns the bound value of a present key and the default otherwise",
                  lambda a, viewf=viewf: a.result == z3.If(z3.Select(viewf(a.pre, a.m)[1], lib.key_norm(a.k)), z3.Select(viewf(a.pre, a.m)[0], lib.key_norm(a.k)), a.default))

    for cls, viewf in ((PS, mview), (TS, tmview)):
        c = live("get", cls.__name__, m=OBJ(cls), k=ANY, default=ANY)
        c.raises()
        c.ensures("get on a set returns a member itself and the default otherwise",
                  lambda a, viewf=viewf: a.result == z3.If(z3.Select(viewf(a.pre, a.m)[1], lib.key_norm(a.k)), a.k, a.default))

    c = live("get", "nil", m=T(lambda v: V.is_none(v), None, "None"), k=ANY, default=ANY)
    c.raises()
    c.ensures("get on nil is the default", lambda a: a.result == a.default)

    c = live("contains", "PersistentVector", coll=OBJ(PV), k=INT)
    c.raises()
    c.ensures("contains? is true exactly for 0 <= k < count", lambda a: a.result == V.mk_bool(z3.And(V.Val.i(a.k) >= 0, V.Val.i(a.k) < z3.Length(sview(a.pre, a.coll)))))

    for cls in (PM, PS):
        c = live("contains", cls.__name__, coll=OBJ(cls), k=ANY)
        c.raises()
        c.ensures("contains? is membership in the domain", lambda a: a.result == V.mk_bool(z3.Select(mview(a.pre, a.coll)[1], lib.key_norm(a.k))))

    c = live("nth", "PersistentVector with notfound", coll=OBJ(PV), i=INT, notfound=ANY)
    c.requires("the index is not negative", lambda a: V.Val.i(a.i) >= 0)
    c.requires("notfound is given", lambda a: a.notfound != a.eng.lift(IIndexed.NTH_SENTINEL, a.pre.st))
    c.raises()
    c.ensures("nth returns the element at an index in range and notfound otherwise",
              lambda a: a.result == z3.If(V.Val.i(a.i) < z3.Length(sview(a.pre, a.coll)), sview(a.pre, a.coll)[V.Val.i(a.i)], a.notfound))

    for cls in (PV, PL, PQ):
        c = live("count", cls.__name__, coll=OBJ(cls))
        c.raises()
        c.ensures("count is the length of the sequence", lambda a: a.result == V.mk_int(z3.Length(sview(a.pre, a.coll))))
    for cls in (PM, PS):
        c = live("count", cls.__name__, coll=OBJ(cls))
        c.raises()
        c.ensures("count is the number of entries", lambda a: a.result == V.mk_int(mview(a.pre, a.coll)[2]))

    # =================================================================================== lemmas about the spec functions
    S_, i_, j_ = z3.Const("S", V.ValSeq), z3.Int("i"), z3.Int("j")
    v_ = z3.Const("v", V.Val)
    inb = [i_ >= 0, i_ <= z3.Length(S_)]
    pack.lemma("seq_update: the length grows by one exactly when appending", lambda: (inb, z3.Length(seq_update(S_, i_, v_)) == z3.If(i_ == z3.Length(S_), z3.Length(S_) + 1, z3.Length(S_))))
    pack.lemma("seq_update: position i holds the new value", lambda: (inb, seq_update(S_, i_, v_)[i_] == v_))
    pack.lemma("seq_update: every position before i is unchanged", lambda: (inb + [j_ >= 0, j_ < i_], seq_update(S_, i_, v_)[j_] == S_[j_]))

    # a refuted obligation is followed by a search for a concrete failing input on the real classes (small universe,
    # plain Python models); it only decides whether the VIOLATION line carries a reproduced input
    for c in pack.contracts:
        if c.replay_ is None:
            c.replay(lambda m, ctx, ob: C04_REPLAY)
            c.replay_without_model = True
    return pack


C04_REPLAY = r'''
import itertools
from basilisp.lang import vector as vec, map as lmap, set as lset, list as llist, queue as lqueue, keyword as kw, runtime
A, B, Z = (kw.keyword(n) for n in "abz")
META, META2 = lmap.map({kw.keyword("m"): 1}), lmap.map({kw.keyword("m"): 2})
bad = []
def chk(desc, got, want):
    if got != want:
        bad.append("%s => %r, the model says %r" % (desc, got, want))
def keyseqs(n):
    return [ks for r in range(n + 1) for ks in itertools.product((A, B, Z), repeat=r)]
# ---- maps and transient maps
base = {A: 1, B: 2}
for ks in keyseqs(3):
    m = lmap.map(base, meta=META)
    want = {k: v for k, v in base.items() if k not in ks}
    chk("(dissoc m %s)" % (ks,), dict(m.dissoc(*ks)), want)
    chk("(persistent! (dissoc! (transient m) %s))" % (ks,), dict(m.to_transient().dissoc_transient(*ks).to_persistent()), want)
    chk("source map after dissoc %s" % (ks,), dict(m), base)
for ks in keyseqs(2):
    m = lmap.map(base, meta=META)
    kvs = [x for i, k in enumerate(ks) for x in (k, 10 + i)]
    want = dict(base); want.update({k: 10 + i for i, k in enumerate(ks)})
    chk("(assoc m %s)" % (kvs,), dict(m.assoc(*kvs)), want)
    chk("(persistent! (assoc! (transient m) %s))" % (kvs,), dict(m.to_transient().assoc_transient(*kvs).to_persistent()), want)
    chk("(conj m entries %s)" % (kvs,), dict(m.cons(*[vec.MapEntry.of(k, 10 + i) for i, k in enumerate(ks)])), want)
    chk("(conj m vectors %s)" % (kvs,), dict(m.cons(*[vec.v(k, 10 + i) for i, k in enumerate(ks)])), want)
    chk("(conj m nil entries %s)" % (kvs,), dict(m.cons(None, *[vec.MapEntry.of(k, 10 + i) for i, k in enumerate(ks)])), want)
    chk("(conj m entries %s nil)" % (kvs,), dict(m.cons(*([vec.MapEntry.of(k, 10 + i) for i, k in enumerate(ks)] + [None]))), want)
    chk("(persistent! (conj! (transient m) nil %s nil))" % (kvs,), dict(m.to_transient().cons_transient(None, *([vec.v(k, 10 + i) for i, k in enumerate(ks)] + [None])).to_persistent()), want)
    chk("(persistent! (conj! (transient m) %s))" % (kvs,), dict(m.to_transient().cons_transient(*[vec.v(k, 10 + i) for i, k in enumerate(ks)]).to_persistent()), want)
    chk("source map after assoc %s" % (kvs,), dict(m), base)
    for k in (A, B, Z):
        chk("(get m %s)" % k, m.val_at(k, "dflt"), base.get(k, "dflt"))
        chk("(contains? m %s)" % k, m.contains(k), k in base)
        e = m.entry(k)
        chk("(find m %s)" % k, None if e is None else (e.key, e.value), (k, base[k]) if k in base else None)
        t = m.to_transient()
        chk("(get tm %s)" % k, t.val_at(k, "dflt"), base.get(k, "dflt"))
        chk("(contains? tm %s)" % k, t.contains_transient(k), k in base)
for k in (A, B, Z):
    for fname, f in (("identity", lambda v: v), ("(constantly nil)", lambda v: None), ("(fnil inc 0)", lambda v: (v or 0) + 1)):
        m = lmap.map(base)
        want = dict(base); want[k] = f(base.get(k))
        chk("(update m %s %s)" % (k, fname), dict(runtime.update(m, k, f)), want)
        chk("source map after update", dict(m), base)
for items in ([], [1, 2]):
    for i in range(len(items) + 1):
        for fname, f in (("identity", lambda v: v), ("(constantly 9)", lambda v: 9)):
            want = list(items) + [None] if i == len(items) else list(items)
            want[i] = f(want[i])
            chk("(update %r %d %s)" % (items, i, fname), list(runtime.update(vec.vector(items), i, f)), want)
m = lmap.map(base, meta=META)
chk("(meta (with-meta m x))", m.with_meta(META2).meta, META2); chk("(meta m) after with-meta", m.meta, META); chk("(= m (with-meta m x))", m.with_meta(META2) == m, True)
chk("(hash (with-meta m x))", hash(m.with_meta(META2)) == hash(m), True); chk("(empty m)", dict(m.empty()), {}); chk("(count m)", len(m), 2)
# ---- sets and transient sets
sbase = {A, B}
for ks in keyseqs(3):
    s = lset.set(sbase, meta=META)
    chk("(conj s %s)" % (ks,), set(s.cons(*ks)), sbase | set(ks)); chk("(disj s %s)" % (ks,), set(s.disj(*ks)), sbase - set(ks))
    chk("(persistent! (conj! (transient s) %s))" % (ks,), set(s.to_transient().cons_transient(*ks).to_persistent()), sbase | set(ks))
    chk("(persistent! (disj! (transient s) %s))" % (ks,), set(s.to_transient().disj_transient(*ks).to_persistent()), sbase - set(ks))
    chk("source set after %s" % (ks,), set(s), sbase)
s = lset.set(sbase, meta=META)
for k in (A, B, Z):
    chk("(contains? s %s)" % k, k in s, k in sbase); chk("(s %s)" % k, s(k, "dflt"), k if k in sbase else "dflt")
chk("(meta (with-meta s x))", s.with_meta(META2).meta, META2); chk("(meta s) after with-meta", s.meta, META); chk("(= s (with-meta s x))", s.with_meta(META2) == s, True)
chk("(empty s)", set(s.empty()), set()); chk("(count s)", len(s), 2)
# ---- vectors and transient vectors
for n in range(4):
    items = list(range(n))
    v = vec.vector(items, meta=META)
    for xs in ([], [7], [7, 8]):
        chk("(conj %r %r)" % (items, xs), list(v.cons(*xs)), items + xs)
        chk("(persistent! (conj! (transient %r) %r))" % (items, xs), list(v.to_transient().cons_transient(*xs).to_persistent()), items + xs)
    for i in range(n + 2):
        want = items[:i] + [9] + items[i + 1:] if i <= n else IndexError
        for desc, f in (("(assoc %r %d 9)" % (items, i), lambda: list(v.assoc(i, 9))), ("(persistent! (assoc! (transient %r) %d 9))" % (items, i), lambda: list(v.to_transient().assoc_transient(i, 9).to_persistent())),
                        ("(runtime/assoc %r %d 9)" % (items, i), lambda: list(runtime.assoc(v, i, 9)))):
            try:
                got = f()
            except IndexError:
                got = IndexError
            chk(desc, got, want)
        chk("(get %r %d)" % (items, i), v.val_at(i, "dflt"), items[i] if i < n else "dflt"); chk("(nth %r %d nf)" % (items, i), v.nth(i, "nf"), items[i] if i < n else "nf")
        chk("(contains? %r %d)" % (items, i), v.contains(i), i < n); chk("(runtime/get %r %d)" % (items, i), runtime.get(v, i, "dflt"), items[i] if i < n else "dflt")
        e = v.entry(i)
        chk("(find %r %d)" % (items, i), None if e is None else (e.key, e.value), (i, items[i]) if i < n else None)
        t = v.to_transient()
        chk("(get tv %d)" % i, t.val_at(i, "dflt"), items[i] if i < n else "dflt"); chk("(contains? tv %d)" % i, t.contains_transient(i), i < n)
    chk("(peek %r)" % items, v.peek(), items[-1] if items else None); chk("(count %r)" % items, len(v), n); chk("(empty %r)" % items, list(v.empty()), [])
    if n:
        chk("(pop %r)" % items, list(v.pop()), items[:-1]); chk("(persistent! (pop! (transient %r)))" % items, list(v.to_transient().pop_transient().to_persistent()), items[:-1])
    chk("source vector %r afterwards" % items, list(v), items)
    chk("(meta (with-meta v x))", v.with_meta(META2).meta, META2); chk("(meta v) after with-meta", v.meta, META); chk("(= v (with-meta v x))", v.with_meta(META2) == v, True)
    chk("(hash (with-meta v x))", hash(v.with_meta(META2)) == hash(v), True)
    # ---- lists and queues
    l, q = llist.list(items, meta=META), lqueue.queue(items, meta=META)
    for xs in ([], [7], [7, 8]):
        chk("(conj (list %r) %r)" % (items, xs), list(l.cons(*xs)), list(reversed(xs)) + items); chk("(conj (queue %r) %r)" % (items, xs), list(q.cons(*xs)), items + xs)
    chk("(first (list %r))" % items, l.first, items[0] if items else None); chk("(peek (list %r))" % items, l.peek(), items[0] if items else None)
    chk("(rest (list %r))" % items, list(l.rest), items[1:]); chk("(peek (queue %r))" % items, q.peek(), items[0] if items else None)
    chk("(count (list %r))" % items, len(l), n); chk("(count (queue %r))" % items, len(q), n); chk("(empty list)", list(l.empty()), []); chk("(empty queue)", list(q.empty()), [])
    if n:
        chk("(pop (list %r))" % items, list(l.pop()), items[1:]); chk("(pop (queue %r))" % items, list(q.pop()), items[1:])
        try:
            pk = l.pop().peek()
        except Exception as e:
            pk = "%s: %s" % (type(e).__name__, e)
        chk("(peek (pop (list %r)))" % items, pk, items[1] if len(items) > 1 else None)
        chk("(type (pop (list %r)))" % items, type(l.pop()).__name__, "PersistentList")
    chk("source list %r afterwards" % items, list(l), items); chk("source queue %r afterwards" % items, list(q), items)
    for nm, c in (("list", l), ("queue", q)):
        chk("(meta (with-meta %s x))" % nm, c.with_meta(META2).meta, META2); chk("(meta %s) after with-meta" % nm, c.meta, META); chk("(= %s (with-meta %s x))" % (nm, nm), c.with_meta(META2) == c, True)
for line in bad[:12]:
    print(line)
print("REPRODUCED" if bad else "not reproduced")
'''
