"""C03 - readable printing round-trips through the reader: the string part.

The property quantifies over all readable values; what contracts on /repo's Python can decide is
the string codec, which is where "strings over all of Unicode" lives:

    read-string (pr-str s) = s        for every string s.

The argument has three parts, each checked on the real code:

1. ``obj._lrepr_str`` (the readable printer for str) returns ``"`` + T(s) + ``"`` where T is
   ``str.translate`` with the live table ``_STR_ESCAPE_TABLE`` - a character-wise homomorphism.
2. The table is exactly the *specified* escape code E (from docs/reader.rst: a string literal may
   contain ``\\" \\\\ \\a \\b \\f \\n \\r \\t \\v``; every other character stands for itself): decided by
   enumeration over the live table, together with "the reader's escape table maps each escape
   letter back to the character E escapes" and "the two characters the reader treats specially
   when they appear literally (``"`` and ``\\``) are escaped by E".
3. ``reader._read_str`` (loop invariant; StreamReader operations used by their C16 contracts):
   for a text laid out as ``"`` E(c0) E(c1) ... E(cn-1) ``"`` it returns the characters c0 ... cn-1
   joined, consumes exactly that text and raises nothing.

1-3 compose to the round trip because a homomorphic image of a string *is* such a layout
(meta-argument: definition of str.translate).  The unchanged upstream printer used
``unicode_escape`` instead, which emits ``\\xNN`` and ``\\uXXXX``/``\\UXXXXXXXX`` sequences the reader
cannot read back (``\\x`` is unknown to it; a ``\\u`` escape swallows following hex digits) - part 2
fails for it, see known_findings.json.

Not covered: numbers, keywords, symbols, collections, regex, instants, metadata printing,
*print-dup* (stated in the manifest).
"""
import z3

from pyvc import vals as V
from pyvc import lib
from pyvc.contract import Pack, T, OBJ, ANY, STR, BOOL, BYTES
from pyvc.engine import SV, Model, Raise, Exc, Unsupported

from contracts import c16_reader as R

# the escape sequences a string literal may contain (docs/reader.rst): backslash + letter -> character
DOCUMENTED = {'"': '"', "\\": "\\", "\a": "a", "\b": "b", "\f": "f", "\n": "n", "\r": "r", "\t": "t", "\v": "v"}
# the two characters that cannot stand for themselves inside a string literal: a code that does not escape them is not readable
MUST_ESCAPE = ('"', "\\")


def live_code():
    """the escape code the printer really uses, as far as it has the shape  character -> backslash + one letter
    (entries of any other shape are reported by the table check and left out here)"""
    from basilisp.lang import obj

    table = getattr(obj, "_STR_ESCAPE_TABLE", None)
    if not isinstance(table, dict):
        return dict(DOCUMENTED)
    return {chr(c): rep[1] for c, rep in table.items() if isinstance(c, int) and isinstance(rep, str) and len(rep) == 2 and rep[0] == "\\"}


# the round trip is stated for the code the printer uses; which characters it chooses to escape beyond the two it must
# is its business (a printer that stops escaping TAB still round-trips), so the specification is parametric in it
SPEC_ESCAPES = live_code()

O = z3.Function("orig_char", z3.IntSort(), V.Val)      # the characters of the string that was printed
START = z3.Function("chunk_start", z3.IntSort(), z3.IntSort())  # where E(O(i)) starts in the text
N = z3.Int("orig_len")
TR = z3.Function("translate_str_escapes", z3.StringSort(), z3.StringSort())
JOIN = z3.Function("join_chars", V.ValSeq, z3.StringSort())
OSEQ = z3.Function("orig_prefix", z3.IntSort(), V.ValSeq)
k = z3.Int("k")
ANYI = z3.Int("any_char_index")


def is_special(c):
    return z3.Or(*[c == V.mk_str(ch) for ch in SPEC_ESCAPES])


def letter_of(c):
    t = V.mk_str("?")
    for ch, l in SPEC_ESCAPES.items():
        t = z3.If(c == V.mk_str(ch), V.mk_str(l), t)
    return t


def layout(p0):
    """the text from the opening quote at p0 is  " E(O(0)) ... E(O(N-1)) "  """
    chunk = z3.And(
        V.is_str(O(k)), R.ONECHAR(O(k)), O(k) != V.mk_str(""),
        z3.If(is_special(O(k)),
              z3.And(R.CH(START(k)) == V.mk_str("\\"), R.CH(START(k) + 1) == letter_of(O(k)), START(k + 1) == START(k) + 2),
              z3.And(R.CH(START(k)) == O(k), START(k + 1) == START(k) + 1)))
    # OSEQ(j): the first j original characters as a sequence (so that "decoded so far" is one equation)
    oseq = z3.And(OSEQ(0) == z3.Empty(V.ValSeq),
                  z3.ForAll([k], z3.Implies(k >= 0, z3.And(z3.Length(OSEQ(k)) == k, OSEQ(k + 1) == z3.Concat(OSEQ(k), z3.Unit(O(k))))), patterns=[OSEQ(k)]))
    return z3.And(N >= 0, oseq, R.CH(p0) == V.mk_str('"'), START(0) == p0 + 1, R.CH(START(N)) == V.mk_str('"'),
                  z3.ForAll([k], z3.Implies(z3.And(k >= 0, k < N), chunk), patterns=[O(k), START(k)]))


def build(active_known=frozenset()):
    from basilisp.lang import obj, reader as rd

    pack = Pack("C03", "Readable printing round-trips through the reader")
    pack.common_setup.append(R.setup)
    pack.trust("str.translate(table) is the character-wise homomorphism of its table; ''.join(list) concatenates the list's strings in order")
    pack.trust("StreamReader.peek / next_char / advance / pushback behave as proved in the C16 pack (their contracts are used here, not their bodies)")
    pack.assume("covered: the string codec, nil / booleans / keywords / symbols / special floats, the collection printers, the reader of numbers and the printer of byte strings; the printers of numbers, "
                "regex, instants, UUIDs, namespace maps and *print-dup* printing are not under contract; the value read back from a byte string literal is covered by a bounded check only")

    # the StreamReader operation contracts proved in C16, assumed at call sites here
    for c in R.build(active_known=frozenset()).contracts:
        if c.modular and c.key.startswith("basilisp.lang.reader:StreamReader."):
            c.spec_only = True
            c.pack = pack
            pack.contracts.append(c)
        elif c.key == "basilisp.lang.reader:_read_num":
            # the reader of numbers is under one contract, stated in the C16 pack and discharged in both: C16 needs its exception
            # classes, C03 that floats in scientific notation come back as floats and decimals as the exact decimal of their text
            c.pack = pack
            pack.contracts.append(c)

    # ------------------------------------------------------------------ 1. the printer
    def psetup(eng, st):
        table = getattr(obj, "_STR_ESCAPE_TABLE", None)

        def translate(e, s, args, kw):
            self, tbl = args
            if table is None or tbl is not table:
                raise Unsupported("str.translate with a table other than the printer's escape table")
            yield s, SV(V.mk_str(TR(V.Val.s(self.t))))

        eng.method_models[(str, "translate")] = Model("str.translate(printer escape table)", translate)

    c = pack.contract("basilisp.lang.obj:_lrepr_str")
    c.entry_live = True
    c.param("o", STR).param("human_readable", BOOL)
    c.setup(psetup)
    c.requires("[property of str.translate, trusted] a string that contains no key of the table is translated to itself",
               lambda a: z3.Implies(z3.And(*[z3.Not(z3.Contains(V.Val.s(a.o), z3.StringVal(ch))) for ch in live_code()]), TR(V.Val.s(a.o)) == V.Val.s(a.o)))
    c.raises()
    c.ensures("the readable printer wraps the character-wise escaped string in double quotes (and returns the string itself when asked for human-readable output)",
              lambda a: z3.And(V.is_str(a.result), V.Val.s(a.result) == z3.If(V.Val.b(a.human_readable), V.Val.s(a.o),
                                                                                z3.Concat(z3.StringVal('"'), TR(V.Val.s(a.o)), z3.StringVal('"')))))
    c.replay(lambda m, ctx, ob: STR_REPLAY)
    c.replay_without_model = True

    # ------------------------------------------------------------------ 1b. the printer of byte strings
    TRB = z3.Function("bytes_escape_code", z3.StringSort(), z3.StringSort())   # character-wise image under the byte escape table
    LATIN1 = z3.Function("latin1_of_bytes", V.Val, z3.StringSort())          # one character per byte, code point = byte value

    def bsetup(eng, st):
        btable = getattr(obj, "_BYTES_ESCAPE_TABLE", None)

        def translate(e, s, args, kw):
            self, tbl = args
            if btable is None or tbl is not btable:
                raise Unsupported("str.translate with a table other than the byte-string escape table")
            yield s, SV(V.mk_str(TRB(V.Val.s(self.t))))

        eng.method_models[(str, "translate")] = Model("str.translate(byte-string escape table)", translate)

        def decode(e, s, args, kw):
            if list(args[1:]) != ["latin-1"]:
                raise Unsupported("bytes.decode with a codec other than latin-1")
            yield s, SV(V.mk_str(LATIN1(args[0].t)))

        eng.method_models[(bytes, "decode")] = Model("bytes.decode('latin-1') (trusted: one character per byte, same code)", decode)

    c = pack.contract("basilisp.lang.obj:_lrepr_bytes")
    c.param("o", BYTES)
    c.setup(bsetup)
    c.raises()
    c.ensures("a byte string prints as #b \"...\" around the byte-wise image of its content under one escape table (so nothing but the table decides what stands between "
              "the quotes - in particular an embedded double quote is whatever the table makes of it)",
              lambda a: z3.And(V.is_str(a.result), V.Val.s(a.result) == z3.Concat(z3.StringVal('#b "'), TRB(LATIN1(a.o)), z3.StringVal('"'))))
    c.replay(lambda m, ctx, ob: BYTES_REPLAY)
    c.replay_without_model = True
    pack.extra.append(bytes_table_check)
    pack.extra.append(bytes_bounded)
    pack.extra.append(regex_bounded(active_known))

    # ------------------------------------------------------------------ 1c. numbers: what the printers write, the reader's patterns accept
    # The printers of numbers are Python's own (repr / str, documented formats - trusted, stated below as regular languages); the reader
    # decides by its live compiled patterns which branch of _read_num a token takes.  Each lemma is a language inclusion, decided by the
    # solver's theory of regular expressions: every text of the printer's language is matched by the pattern of the branch that rebuilds
    # the same type (and by no pattern tried before it).  The patterns are translated from the live objects on every run (pyvc/rex.py).
    from pyvc import rex

    def number_language_lemmas():
        D, NZ, L = rex.digits, rex.nonzero_digit, rex.lit
        sign = z3.Option(L("-"))
        natural = z3.Union(L("0"), z3.Concat(NZ(), rex.digits(0)))                      # 0 | [1-9][0-9]*
        exp2 = z3.Concat(z3.Union(L("+"), L("-")), rex.digits(2))                       # e+16, e-07: sign and at least two digits
        L_int = z3.Concat(sign, natural)
        L_float_pos = z3.Concat(sign, natural, L("."), D())                              # repr(float), positional: 0.001, 1.5, 123456789.125
        L_float_exp = z3.Concat(sign, NZ(), z3.Option(z3.Concat(L("."), D())), L("e"), exp2)  # repr(float), exponent form: 1e+16, 1.5e-07
        L_imag = z3.Concat(sign, z3.Union(z3.Concat(natural, z3.Option(z3.Concat(L("."), D()))),
                                          z3.Concat(NZ(), z3.Option(z3.Concat(L("."), D())), L("E"), exp2)), L("J"))   # repr(complex(0, y)).upper()
        L_ratio = z3.Concat(sign, natural, L("/"), natural)
        L_decimal = z3.Concat(sign, natural, z3.Option(z3.Concat(L("."), D())), z3.Option(z3.Concat(L("E"), z3.Option(z3.Union(L("+"), L("-"))), D())), L("M"))  # str(Decimal) + "M"
        P = {n_: rex.to_z3(getattr(rd, n_)) for n_ in ("integer_literal", "float_literal", "octal_literal", "hex_literal", "ratio_literal", "scientific_notation_literal",
                                                          "arbitrary_base_literal", "complex_literal")}
        order = ["integer_literal", "float_literal", "octal_literal", "hex_literal", "ratio_literal", "scientific_notation_literal", "arbitrary_base_literal", "complex_literal"]
        t = z3.String("printed_number")

        def first_match_is(lang, wanted):
            # some wanted pattern matches, and no pattern tried before the first wanted one does
            first = min(order.index(w) for w in wanted)
            return ([z3.InRe(t, lang)], z3.And(z3.Or(*[z3.InRe(t, P[w]) for w in wanted]), *[z3.Not(z3.InRe(t, P[o])) for o in order[:first]]))

        return {
            "an integer's text (-?(0|[1-9][0-9]*)) is read by the integer branch": lambda: first_match_is(L_int, ["integer_literal"]),
            "a finite float printed positionally (1.5, 0.001) is read by the float branch, not as an integer": lambda: first_match_is(L_float_pos, ["float_literal"]),
            "a finite float printed with an exponent (1e+16, 1.5e-07) is read by the scientific-notation branch": lambda: first_match_is(L_float_exp, ["scientific_notation_literal"]),
            "a ratio's text is read by the ratio branch": lambda: first_match_is(L_ratio, ["ratio_literal"]),
            "a decimal's text with the M suffix (1.50M, 1E+5M, 1E-7M) is read by one of the two branches that build a decimal": lambda: first_match_is(L_decimal, ["float_literal", "scientific_notation_literal"]),
            "a finite imaginary number's text (2.5J, 1E+16J, 1.5E-07J) is read by the complex branch": lambda: first_match_is(L_imag, ["complex_literal"]),
        }

    def number_replay(m):
        try:
            text = m.str(z3.String("printed_number"))
        except Exception:  # noqa: BLE001
            text = ""
        return NUMTEXT_REPLAY.replace("@TEXT@", repr(text))

    for nm_, fn_ in number_language_lemmas().items():
        pack.lemma(nm_, fn_, replay=number_replay)
    pack.trust("the printed form of numbers is Python's: repr(int) = -?(0|[1-9][0-9]*); repr(float) for finite values = the shortest round-tripping decimal, positional d+.d+ or d[.d+]e[+-]dd+; "
               "str(Decimal) = digits[.digits][E[+-]digits]; repr(complex(0, y)) = repr-style y without a trailing .0, followed by j")

    # ------------------------------------------------------------------ 2. the tables (finite decision on the live objects)
    pack.extra.append(table_check(active_known))

    # ------------------------------------------------------------------ 3. the reader
    SR, RC = rd.StreamReader, rd.ReaderContext

    def rsetup(eng, st):
        eng.class_id(RC)
        srid = eng.class_id(SR)
        eng.field_types[("ReaderContext", "_reader")] = lambda v: (z3.And(V.is_ref(v), V.cls_of(V.Val.a(v)) == srid), SR)

        rsetup_join(eng)
        # \u / \U escapes do not occur in the specified code; the executor still walks that branch before the solver
        # shows it unreachable, so the helper is opaque here (any string)
        eng.models[id(rd._read_unicode_escape_seq)] = Model("_read_unicode_escape_seq (unreachable for the specified code)",
                                                          lambda e, s, a, k_: iter([(s, SV(V.mk_str(z3.String(V.fresh_name("uni")))))]))

    def reader_of(a):
        return R.fld(a.pre.st, a.ctx, "_reader")

    c = pack.contract("basilisp.lang.reader:_read_str")
    c.param("ctx", OBJ(RC))
    c.param_value("raw_string", lambda eng, st: False)
    c.setup(rsetup)
    c.requires("the stream reader is well-formed", lambda a: R.WF(a.eng, a.pre.st, reader_of(a)))
    c.requires("from the cursor on, the text is an opening quote, the specified escape code of some characters O(0..N-1), and a closing quote",
               lambda a: layout(R.pos(a.pre.st, reader_of(a))))
    c.raises()

    def str_inv(ctx):
        st, pre = ctx.st, ctx.entry.st
        r = R.fld(pre, ctx["ctx"], "_reader")
        items = z3.Select(st.lists, V.Val.a(ctx["s"]))
        i = z3.Length(items)
        return [
            ("the stream reader stays well-formed and is still the context's reader", z3.And(R.WF(ctx.eng, st, r), R.fld(st, ctx["ctx"], "_reader") == r, ctx["reader"] == r)),
            ("as many characters were decoded as chunks were consumed, and the cursor stands right before the next chunk", z3.And(i <= N, R.pos(st, r) == START(i) - 1)),
            ("the characters decoded so far are the original ones, in order", items == OSEQ(i)),
            ("s is a list of its own", z3.And(V.is_ref(ctx["s"]), V.Val.a(ctx["s"]) > 0)),
        ]

    c.loop(0, invariant=str_inv, frame=["_idx"], lists=True, ghost=("n_read",), aux=("dqv", "dqn"))

    def read_post(a):
        post = a.post.st
        r = reader_of(a)
        # the list the result was joined from: recorded by the join model's argument
        return z3.And(V.is_str(a.result), R.pos(post, r) == START(N) + 1, V.Val.s(a.result) == JOIN(OSEQ(N)))

    c.ensures("the string read back is the original characters joined in order, and exactly the literal's text was consumed", read_post)
    c.replay(lambda m, ctx, ob: STR_REPLAY)
    c.replay_without_model = True
    add_literals(pack)
    return pack


def rsetup_join(eng):
    def join(e, s, args, kw):
        sep, lst = args
        if not (isinstance(sep, str) and sep == "") and not (isinstance(sep, SV) and z3.is_true(z3.simplify(sep.t == V.mk_str("")))):
            raise Unsupported("str.join with a separator")
        if not (isinstance(lst, SV) and lst.hint is list):
            raise Unsupported("str.join of something other than a list")
        yield s, SV(V.mk_str(JOIN(z3.Select(s.lists, V.Val.a(lst.t)))))

    eng.method_models[(str, "join")] = Model("''.join(list)", join)


NS_TOK, NAME_TOK = z3.Const("token_ns", V.Val), z3.Const("token_name", V.Val)


def add_literals(pack):
    """nil and the booleans: the printer's text for each (real functions run on the three values) and the reader's
    reading of exactly those tokens (``_read_sym`` on the token the tokenizer hands it; the tokenizer itself,
    ``_read_namespaced``, is not under contract)."""
    from basilisp.lang import obj, reader as rd

    for value, text, fn in ((None, "nil", "_lrepr_nil"), (True, "true", "_lrepr_bool"), (False, "false", "_lrepr_bool")):
        c = pack.contract(f"basilisp.lang.obj:{fn}")
        c.label = f"printing {text}"
        pname = "_" if fn == "_lrepr_nil" else "o"
        c.param_value(pname, lambda eng, st, value=value: value)
        c.raises()
        c.ensures(f"{value!r} prints as {text}", lambda a, text=text: a.result == V.mk_str(text))
        c.replay(lambda m, ctx, ob: LIT_REPLAY)
        c.replay_without_model = True

    def ssetup(eng, st):
        RC = rd.ReaderContext
        eng.class_id(RC)
        lid = eng.class_id(list)
        eng.field_types[("ReaderContext", "_syntax_quoted")] = lambda v: (z3.And(V.is_ref(v), V.cls_of(V.Val.a(v)) == lid), list)

        def namespaced(e, s, a, k):
            s.assume(z3.Or(V.is_none(NS_TOK), V.is_str(NS_TOK)), V.is_str(NAME_TOK))
            yield s, (SV(NS_TOK), SV(NAME_TOK))

        eng.models[id(rd._read_namespaced)] = Model("_read_namespaced (the token's namespace and name)", namespaced)
        eng.method_models[(RC, "syntax_error")] = Model("ReaderContext.syntax_error", lambda e, s, a, k: iter([(s, Exc(rd.SyntaxError, tuple(a[1:])))]))

    c = pack.contract("basilisp.lang.reader:_read_sym")
    c.label = "the tokens nil, true, false"
    c.param("ctx", OBJ(rd.ReaderContext)).param("is_reader_macro_sym", T(lambda v: V.is_bool(v), None, "bool"))
    c.setup(ssetup)
    name = V.Val.s(NAME_TOK)
    c.requires("the token is unqualified and spelled nil, true or false",
               lambda a: z3.And(V.is_none(NS_TOK), z3.Or(name == z3.StringVal("nil"), name == z3.StringVal("true"), name == z3.StringVal("false"))))
    c.raises()
    c.ensures("nil reads as nil, true as true, false as false - inside and outside a syntax-quote",
              lambda a: a.result == z3.If(name == z3.StringVal("nil"), V.VNone, V.mk_bool(name == z3.StringVal("true"))))
    c.replay(lambda m, ctx, ob: LIT_REPLAY)
    c.replay_without_model = True

    # ---- keywords and symbols: ":ns/name" / "ns/name" out, the token's (ns, name) in
    from basilisp.lang import keyword as kw, symbol as sym

    KW_OF = z3.Function("interned_keyword", V.Val, V.Val, V.Val)   # kw.keyword(name, ns=ns): one object per (ns, name)
    ISNUMERIC = z3.Function("str_isnumeric", V.Val, z3.BoolSort())

    def nsetup(eng, st):
        for c_ in (kw.Keyword, sym.Symbol):
            eng.class_id(c_)
        for cn in ("Keyword", "Symbol"):
            eng.field_types[(cn, "_name")] = lambda v: V.is_str(v)
            eng.field_types[(cn, "_ns")] = lambda v: z3.Or(V.is_none(v), V.is_str(v))

    def printed(st, o, colon):
        ns, name = R.fld(st, o, "_ns"), V.Val.s(R.fld(st, o, "_name"))
        body = z3.If(V.is_none(ns), name, z3.Concat(V.Val.s(ns), z3.StringVal("/"), name))
        return V.mk_str(z3.Concat(z3.StringVal(":"), body) if colon else body)

    c = pack.contract("basilisp.lang.keyword:Keyword._lrepr")
    c.param("self", OBJ(kw.Keyword))
    c.setup(nsetup)
    c.raises()
    c.ensures("a keyword prints as :name or :ns/name", lambda a: a.result == printed(a.pre.st, a.self, True))
    c.replay(lambda m, ctx, ob: LIT_REPLAY)
    c.replay_without_model = True

    c = pack.contract("basilisp.lang.symbol:Symbol._lrepr")
    c.label = "without metadata printing"
    c.param("self", OBJ(sym.Symbol))
    c.setup(nsetup)
    c.extra_kwargs = {"print_meta": False}
    c.raises()
    c.ensures("a symbol prints as name or ns/name", lambda a: a.result == printed(a.pre.st, a.self, False))
    c.replay(lambda m, ctx, ob: LIT_REPLAY)
    c.replay_without_model = True

    def ksetup(eng, st):
        ssetup(eng, st)
        nsetup(eng, st)
        srid = eng.class_id(rd.StreamReader)
        eng.field_types[("ReaderContext", "_reader")] = lambda v: (z3.And(V.is_ref(v), V.cls_of(V.Val.a(v)) == srid), rd.StreamReader)

        def keyword(e, s, a, k):
            name = e.lift(a[0], s)
            ns = e.lift(k.get("ns", a[1] if len(a) > 1 else None), s)
            r = KW_OF(ns, name)
            s.assume(V.is_ref(r), V.Val.a(r) <= 0, V.cls_of(V.Val.a(r)) == e.class_id(kw.Keyword))
            yield s, SV(r)

        eng.models[id(kw.keyword)] = Model("kw.keyword (the interned keyword of a namespace and name)", keyword)

        def split(e, s, a, k):
            sv = e.alloc(s, list)
            s.lists = z3.Store(s.lists, V.Val.a(sv.t), z3.Const(V.fresh_name("segments"), V.ValSeq))
            yield s, sv

        eng.method_models[(str, "split")] = Model("str.split (over-approximated: some list)", split)

        def any_(e, s, a, k):
            yield s, SV(V.mk_bool(z3.Const(V.fresh_name("any_segment_empty"), z3.BoolSort())))

        eng.models[id(any)] = Model("any(<generator over a symbolic list>) (over-approximated: either answer)", any_)
        eng.method_models[(str, "isnumeric")] = Model("str.isnumeric (opaque)", lambda e, s, a, k: iter([(s, SV(V.mk_bool(ISNUMERIC(a[0].t))))]))

    c = pack.contract("basilisp.lang.reader:_read_kw")
    c.label = "a plain keyword"
    c.param("ctx", OBJ(rd.ReaderContext))
    c.setup(ksetup)

    def kw_pre(a):
        r = R.fld(a.pre.st, a.ctx, "_reader")
        p = R.pos(a.pre.st, r)
        nxt = R.CH(p + 1)  # (is a string of at most one character: the instance of the text axiom, stated ground for the path pruning)
        return z3.And(R.WF(a.eng, a.pre.st, r), R.CH(p) == V.mk_str(":"), V.is_str(nxt), R.ONECHAR(nxt), nxt != V.mk_str(":"), z3.Not(ISNUMERIC(nxt)))

    c.requires("the reader is well-formed and stands on the colon of a keyword that is neither auto-resolved (::) nor numeric", kw_pre)
    c.raises(rd.SyntaxError)
    c.ensures(":token reads as the keyword with exactly the token's namespace and name", lambda a: a.result == KW_OF(NS_TOK, NAME_TOK))
    c.replay(lambda m, ctx, ob: LIT_REPLAY)
    c.replay_without_model = True

    c = pack.contract("basilisp.lang.reader:_read_sym")
    c.label = "a plain symbol outside a syntax-quote"
    c.param("ctx", OBJ(rd.ReaderContext)).param("is_reader_macro_sym", T(lambda v: V.is_bool(v), None, "bool"))
    c.setup(ksetup)

    def plain(a):
        q = z3.Select(a.pre.st.lists, V.Val.a(R.fld(a.pre.st, a.ctx, "_syntax_quoted")))
        nm = V.Val.s(NAME_TOK)
        return z3.And(z3.Length(q) == 0, *[nm != z3.StringVal(x) for x in ("nil", "true", "false", "&")], z3.Not(z3.SuffixOf(z3.StringVal("#"), nm)))

    c.requires("outside a syntax-quote; the token is not nil / true / false / & and no auto-gensym", plain)
    c.raises(rd.SyntaxError)
    c.ensures("a token reads as the symbol with exactly the token's namespace and name",
              lambda a: z3.And(V.is_ref(a.result), V.cls_of(V.Val.a(a.result)) == a.eng.class_id(sym.Symbol),
                               R.fld(a.post.st, a.result, "_ns") == NS_TOK, R.fld(a.post.st, a.result, "_name") == NAME_TOK))
    c.replay(lambda m, ctx, ob: LIT_REPLAY)
    c.replay_without_model = True

    # ---- the tokenizer: the characters up to the first delimiter, split at the first slash
    TSEQ = z3.Function("text_chars", z3.IntSort(), z3.IntSort(), V.ValSeq)      # the characters CH(i) .. CH(j-1) as a sequence
    IDENT_OK = z3.Function("identifier_literal_fullmatch", z3.StringSort(), z3.BoolSort())
    import re as _re

    ws = [c_ for c_ in R_WS()]
    delims = [k_ for k_ in rd._read_dispatch if k_ not in ("#", "'", "%", "")]

    def is_delim(c):
        return z3.Or(c == V.mk_str(""), *[c == V.mk_str(w) for w in ws], *[c == V.mk_str(d) for d in delims])

    def tsetup(eng, st):
        ksetup(eng, st)
        rsetup_join(eng)

        def fullmatch(e, s, a, k):
            pat, t = a[0], a[1]
            if isinstance(pat, SV):
                ok_, obj_ = e.unlift_const(pat.t)
                pat = obj_ if ok_ else pat
            if pat is not rd.identifier_literal:
                raise Unsupported("fullmatch of a pattern other than identifier_literal")
            yield s, SV(z3.If(IDENT_OK(V.Val.s(t.t)), V.mk_bool(True), V.VNone))  # only the truth of the match is used

        eng.method_models[(_re.Pattern, "fullmatch")] = Model("identifier_literal.fullmatch (opaque)", fullmatch)

        def find(e, s, a, k):
            if len(a) != 2 or not isinstance(a[1], str):
                raise Unsupported("str.find with a symbolic needle or a range")
            yield s, SV(V.mk_int(z3.IndexOf(V.Val.s(a[0].t), z3.StringVal(a[1]), 0)))

        eng.method_models[(str, "find")] = Model("str.find", find)

        def split1(e, s, a, k):
            if not (len(a) == 2 and isinstance(a[1], str) and len(a[1]) == 1 and k.get("maxsplit") == 1):
                raise Unsupported("str.split other than split(<one character>, maxsplit=1)")
            t = V.Val.s(a[0].t)
            i = z3.IndexOf(t, z3.StringVal(a[1]), 0)
            e.oblige(s, "split(sep, maxsplit=1) is unpacked into two parts only where the separator occurs", i >= 0, "model-pre")
            yield s, [SV(V.mk_str(z3.SubString(t, 0, i))), SV(V.mk_str(z3.SubString(t, i + 1, z3.Length(t) - i - 1)))]

        eng.method_models[(str, "split")] = Model("str.split(sep, maxsplit=1) where sep occurs", split1)

    c = pack.contract("basilisp.lang.reader:_read_namespaced")
    c.param("ctx", OBJ(rd.ReaderContext))
    c.setup(tsetup)
    c.requires("the stream reader is well-formed", lambda a: R.WF(a.eng, a.pre.st, R.fld(a.pre.st, a.ctx, "_reader")))
    c.requires("[definition] the characters from the cursor up to the cursor are the empty sequence",
               lambda a: TSEQ(R.pos(a.pre.st, R.fld(a.pre.st, a.ctx, "_reader")), R.pos(a.pre.st, R.fld(a.pre.st, a.ctx, "_reader"))) == z3.Empty(V.ValSeq))
    c.raises(rd.SyntaxError)

    def tok_inv(ctx):
        st, pre = ctx.st, ctx.entry.st
        r = R.fld(pre, ctx["ctx"], "_reader")
        p0, p = R.pos(pre, r), R.pos(st, r)
        items = z3.Select(st.lists, V.Val.a(ctx["tokens"]))
        facts = [
            ("the stream reader stays well-formed and is still the context's reader", z3.And(R.WF(ctx.eng, st, r), R.fld(st, ctx["ctx"], "_reader") == r, ctx["reader"] == r)),
            ("the token so far is exactly the characters passed over, in order", z3.And(p >= p0, items == TSEQ(p0, p), V.is_ref(ctx["tokens"]), V.Val.a(ctx["tokens"]) > 0)),
            ("no character of the token so far is a delimiter",
             R.forall_k(z3.Implies(z3.And(R.k >= p0, R.k < p), z3.Not(is_delim(R.CH(R.k)))), R.CH(R.k)) if ctx.assuming else z3.Implies(z3.And(R.ANYIDX >= p0, R.ANYIDX < p), z3.Not(is_delim(R.CH(R.ANYIDX))))),
        ]
        if ctx.assuming:  # the definition of "the characters from p0 on", unfolded at the cursor
            facts.append(("", z3.And(TSEQ(p0, p0) == z3.Empty(V.ValSeq), TSEQ(p0, p + 1) == z3.Concat(TSEQ(p0, p), z3.Unit(R.CH(p))), V.is_str(R.CH(p)), R.ONECHAR(R.CH(p)))))
        return facts

    c.loop(0, invariant=tok_inv, frame=["_idx"], lists=True, ghost=("n_read",), aux=("dqv", "dqn"))

    def tok_ident(a):
        pre, post = a.pre.st, a.post.st
        r = R.fld(pre, a.ctx, "_reader")
        return JOIN(TSEQ(R.pos(pre, r), R.pos(post, r)))

    def tok_post(a):
        pre, post = a.pre.st, a.post.st
        r = R.fld(pre, a.ctx, "_reader")
        p0, p1 = R.pos(pre, r), R.pos(post, r)
        ident = tok_ident(a)
        i = z3.IndexOf(ident, z3.StringVal("/"), 0)
        parts = V.seq_of(V.Val.a(a.result))
        whole = z3.Or(ident == z3.StringVal("/"), i < 0)
        return z3.And(R.WF(a.eng, post, r), p1 >= p0, is_delim(R.CH(p1)), z3.Implies(z3.And(R.ANYIDX >= p0, R.ANYIDX < p1), z3.Not(is_delim(R.CH(R.ANYIDX)))),
                      IDENT_OK(ident), z3.Length(parts) == 2,
                      parts[0] == z3.If(whole, V.VNone, V.mk_str(z3.SubString(ident, 0, i))),
                      parts[1] == z3.If(whole, V.mk_str(ident), V.mk_str(z3.SubString(ident, i + 1, z3.Length(ident) - i - 1))))

    c.ensures("the token is the run of characters from the cursor up to (not including) the first delimiter - end of text, whitespace, or a character that opens "
              "another form; it is split at its first slash into namespace and name (a lone / and a token without slash have no namespace); the cursor stops on the delimiter", tok_post)
    c.raises_only_if("a syntax error only when the token is not an identifier literal", (rd.SyntaxError,), lambda a: z3.Not(IDENT_OK(tok_ident(a))))
    c.replay(lambda m, ctx, ob: LIT_REPLAY)
    c.replay_without_model = True

    # ---- the special floats: ##Inf, ##-Inf, ##NaN out, and the same three tokens in
    import math as _math

    for value, text in ((_math.inf, "##Inf"), (-_math.inf, "##-Inf"), (_math.nan, "##NaN")):
        c = pack.contract("basilisp.lang.obj:_lrepr_float")
        c.label = f"printing {text}"
        c.param_value("o", lambda eng, st, value=value: value)
        c.param_value("human_readable", lambda eng, st: False)
        c.raises()
        c.ensures(f"{value!r} prints as {text}", lambda a, text=text: a.result == V.mk_str(text))
        c.replay(lambda m, ctx, ob: LIT_REPLAY)
        c.replay_without_model = True

    c = pack.contract("basilisp.lang.reader:_read_numeric_constant")
    c.param("ctx", OBJ(rd.ReaderContext))
    c.setup(ksetup)
    nm = V.Val.s(NAME_TOK)

    def nc_pre(a):
        r = R.fld(a.pre.st, a.ctx, "_reader")
        return z3.And(R.WF(a.eng, a.pre.st, r), R.CH(R.pos(a.pre.st, r)) == V.mk_str("#"), V.is_none(NS_TOK),
                      z3.Or(nm == z3.StringVal("Inf"), nm == z3.StringVal("-Inf"), nm == z3.StringVal("NaN")))

    c.requires("the reader is well-formed, stands on the second # of ##, and the token is Inf, -Inf or NaN", nc_pre)
    c.raises()
    c.ensures("##Inf, ##-Inf and ##NaN read as positive infinity, negative infinity and not-a-number",
              lambda a: a.result == z3.If(nm == z3.StringVal("Inf"), a.eng.lift(_math.inf, a.post.st), z3.If(nm == z3.StringVal("-Inf"), a.eng.lift(-_math.inf, a.post.st), a.eng.lift(_math.nan, a.post.st))))
    c.replay(lambda m, ctx, ob: LIT_REPLAY)
    c.replay_without_model = True

    # ---- sequential collections: the literal's text, with the metadata in front of the *whole* literal
    from basilisp.lang import list as llist_, queue as lqueue_, set as lset_, vector as vec_

    PRINTED = z3.Function("seq_lrepr_text", V.Val, V.Val, V.Val, V.Val, z3.StringSort())   # seq_lrepr(items, start, end, meta)

    def csetup(eng, st):
        for c_ in (llist_.PersistentList, lqueue_.PersistentQueue, lset_.PersistentSet, vec_.PersistentVector):
            eng.class_id(c_)

        def seq_lrepr(e, s, a, k):
            # trusted (obj.seq_lrepr, not under contract): "^<meta> " first when metadata is printed, then start, the
            # elements separated by spaces, then end
            items, start, end = (e.lift(x, s) for x in a[:3])
            meta = e.lift(k.get("meta"), s)
            s.ghost["seq_lrepr_calls"] = list(s.ghost.get("seq_lrepr_calls", [])) + [(items, a[1], a[2], meta, {n: v for n, v in k.items() if n != "meta"})]
            yield s, SV(V.mk_str(PRINTED(items, start, end, meta)))

        eng.models[id(obj.seq_lrepr)] = Model("obj.seq_lrepr (trusted: metadata prefix, start, elements, end)", seq_lrepr)

    for cls, start, end in ((vec_.PersistentVector, "[", "]"), (llist_.PersistentList, "(", ")"), (lset_.PersistentSet, "#{", "}"), (lqueue_.PersistentQueue, "#queue (", ")")):
        c = pack.contract(f"{cls.__module__}:{cls.__name__}._lrepr")
        c.param("self", OBJ(cls))
        c.setup(csetup)
        c.extra_kwargs = {"print_meta": SV(V.fresh_val("print_meta")), "print_dup": SV(V.fresh_val("print_dup"))}
        c.raises()

        def coll_post(a, start=start, end=end):
            calls = a.post.st.ghost.get("seq_lrepr_calls", [])
            if len(calls) != 1:
                return z3.BoolVal(False)
            items, st_, en_, meta, rest = calls[0]
            if st_ != start or en_ != end or set(rest) != {"print_meta", "print_dup"}:
                return z3.BoolVal(False)
            return z3.And(items == R.fld(a.pre.st, a.self, "_inner"), meta == R.fld(a.pre.st, a.self, "_meta"),
                          a.result == V.mk_str(PRINTED(items, a.eng.lift(start, a.pre.st), a.eng.lift(end, a.pre.st), meta)))

        c.ensures(f"the text is exactly what the shared printer makes of the elements between {start!r} and {end!r} with this collection's metadata - the whole literal, "
                  "reader tag included, comes after the metadata prefix, so that reading it back attaches the metadata to the collection itself; the print settings are passed on", coll_post)
        c.replay(lambda m, ctx, ob: LIT_REPLAY)
        c.replay_without_model = True


def R_WS():
    import sys as _sys

    return [chr(cp) for cp in range(_sys.maxunicode + 1) if chr(cp).isspace()] + [","]



LIT_REPLAY = r'''
from basilisp.lang import reader
from basilisp.lang.obj import lrepr
bad = []
for v in (None, True, False):
    t = lrepr(v)
    back = list(reader.read_str(t))
    if not (len(back) == 1 and back[0] is v):
        bad.append("%r prints as %r which reads as %r" % (v, t, back))
    q = list(reader.read_str("`" + t))
    if not (len(q) == 1 and q[0] is v):
        bad.append("%r inside a syntax-quote reads as %r" % (t, q))
from basilisp.lang import keyword as kw, symbol as sym
def toks(text):
    try:
        return [(type(f).__name__, getattr(f, "ns", None), getattr(f, "name", f)) for f in reader.read_str(text)]
    except Exception as e:
        return type(e).__name__
for text, want in (("a/b/c", [("Symbol", "a", "b/c")]), ("a#b", [("Symbol", None, "a#b")]), ("a'b%c", [("Symbol", None, "a'b%c")]), ("a\tb", [("Symbol", None, "a"), ("Symbol", None, "b")]),
                   ("a,b", [("Symbol", None, "a"), ("Symbol", None, "b")]), ("a\u2003b", [("Symbol", None, "a"), ("Symbol", None, "b")]), (":k/n x", [("Keyword", "k", "n"), ("Symbol", None, "x")]),
                   ("/", [("Symbol", None, "/")]), ("a.b/c.d", [("Symbol", "a.b", "c.d")])):
    got = toks(text)
    if got != want:
        bad.append("%r tokenizes as %r, expected %r" % (text, got, want))
for v in (kw.keyword("a"), kw.keyword("b", ns="n.s"), kw.keyword("x-y?"), sym.symbol("a"), sym.symbol("b", ns="n.s"), sym.symbol("+"), sym.symbol("x.y/z") if False else sym.symbol("z", ns="x.y")):
    t = lrepr(v)
    back = list(reader.read_str(t))
    if not (len(back) == 1 and back[0] == v and type(back[0]) is type(v)):
        bad.append("%r prints as %r which reads as %r" % (v, t, back))
import math
for v in (math.inf, -math.inf, math.nan):
    t = lrepr(v)
    back = list(reader.read_str(t))
    same = len(back) == 1 and isinstance(back[0], float) and (back[0] == v or (math.isnan(v) and math.isnan(back[0])))
    if not same:
        bad.append("%r prints as %r which reads as %r" % (v, t, back))
from basilisp.lang import vector as vec, list as llist, set as lset, queue as lqueue, map as lmap
M = lmap.map({kw.keyword("m"): 1})
for v in (vec.v(1, 2), llist.l(1, 2), lset.s(1), lqueue.q(1, 2), lqueue.q(), vec.v(lqueue.q(1).with_meta(M))):
    for meta in (None, M):
        x = v.with_meta(meta) if meta is not None else v
        t = lrepr(x, print_meta=True)
        back = list(reader.read_str(t))
        def user_meta(o):
            mm = getattr(o, "meta", None)
            if mm is None:
                return None
            d = {k_: v_ for k_, v_ in mm.items() if getattr(k_, "ns", None) != "basilisp.lang.reader"}
            return d or None
        want_meta = dict(x.meta.items()) if x.meta is not None else None
        if not (len(back) == 1 and back[0] == x and type(back[0]) is type(x) and user_meta(back[0]) == want_meta):
            bad.append("%r (meta %r) prints as %r which reads as %r with meta %r" % (x, x.meta, t, back, [getattr(b, "meta", None) for b in back]))
        inner = [user_meta(e) for e in back[0]] if len(back) == 1 and hasattr(back[0], "__iter__") else []
        orig = [dict(e.meta.items()) if getattr(e, "meta", None) is not None else None for e in x]
        if len(back) == 1 and orig != inner:
            bad.append("%r: metadata of the elements %r reads back as %r" % (t, orig, inner))
for line in bad[:10]:
    print(line)
print("REPRODUCED" if bad else "not reproduced")
'''


def bytes_table_check(tier, seed):
    """complete enumeration over the 256 entries of the printer's table for byte strings: every byte has an entry, and the reader of byte
    strings decodes that entry - on its own and followed by further text - to exactly that byte"""
    import os

    from basilisp.lang import obj, reader as rd
    from pyvc.run import REPLAY_DIR, run_snippet

    table = getattr(obj, "_BYTES_ESCAPE_TABLE", None)
    problems = []
    if not isinstance(table, dict):
        problems.append("obj._BYTES_ESCAPE_TABLE is missing: the printer of byte strings does not use a translation table")
    else:
        for c in range(256):
            esc = table.get(c)
            if not isinstance(esc, str) or not esc:
                problems.append(f"byte {c:#04x} has no escape entry")
                continue
            for tail, more in (("", b""), ("41", b"41"), ("x", b"x"), ('\\"', b'"')):
                try:
                    got = list(rd.read_str('#b "' + esc + tail + '"'))
                except Exception as e:  # noqa: BLE001
                    got = f"{type(e).__name__}: {e}"
                if got != [bytes([c]) + more]:
                    problems.append(f"the entry {esc!r} of byte {c:#04x} followed by {tail!r} reads as {got!r}")
                    break
    rec = {"name": "each of the 256 bytes has an entry in the printer's escape table for byte strings which the reader decodes, alone and followed by more text, to exactly that byte"
                   + (f" [{'; '.join(problems[:4])}]" if problems else ""),
           "kind": "escape-table", "verdict": "refuted" if problems else "proved", "backend": "enumeration", "time_s": 0.0, "line": 0}
    if problems:
        p = os.path.join(REPLAY_DIR, "C03", "bytes_round_trip.py")
        okr, outp = run_snippet("# replay for property C03\n# failed obligation: " + rec["name"][:300] + "\n" + BYTES_REPLAY, p)
        rec.update(replay=p, reproduced=okr, replay_output=outp[-1500:], model={"problems": problems[:6]})
    return [{"key": "escape-tables:basilisp.lang.obj:_lrepr_bytes/basilisp.lang.reader:_read_byte_str", "file": "src/basilisp/lang/obj.py", "lines": [0, 0], "error": None,
             "obligations": [rec], "extra": True, "time_s": 0.0}]


def bytes_bounded(tier, seed):
    """bounded stand-in for what is not proved about byte strings - that _read_byte_str decodes a text chunk by chunk (its value-level loop
    invariant is not written): every byte string of length <= 2 over an alphabet of 48 bytes, and every single byte, is printed and read back"""
    import os

    from pyvc.run import REPLAY_DIR, run_snippet

    p = os.path.join(REPLAY_DIR, "C03", "bytes_round_trip.py")
    failed, outp = run_snippet("# bounded check for property C03\n# functions: basilisp.lang.obj:_lrepr_bytes, basilisp.lang.reader:_read_byte_str\n" + BYTES_REPLAY, p)
    ran = "cases " in outp
    rec = {"name": "[bounded: every single byte, every byte string of length <= 2 over 48 bytes; 2561 cases] printing a byte string and reading the text gives the byte string back",
           "kind": "bounded", "bounded": True, "line": 0, "time_s": 0.0, "backend": "concrete execution of the real functions", "verdict": "refuted" if failed else ("bounded-ok" if ran else "unknown")}
    if failed:
        rec.update(replay=p, reproduced=True, replay_output=outp[-1500:], model={})
    return [{"key": "bounded:basilisp.lang.obj:_lrepr_bytes+basilisp.lang.reader:_read_byte_str", "file": "src/basilisp/lang/obj.py", "lines": [0, 0],
             "error": None if (ran or failed) else "the bounded check did not run: " + outp[-300:], "obligations": [rec], "extra": True, "bounded": True,
             "bound": "every single byte; every byte string of length <= 2 over 48 bytes", "cases": 2561, "result": "a case fails" if failed else "all cases round-trip", "time_s": 0.0}]


def regex_bounded(active_known):
    """bounded stand-in for regex patterns (their printer and the raw-string reader are not under contract): a fixed list of patterns is
    printed readably and read back.  With the known finding C03-regex-not-readable active, the patterns of its input class - those holding
    a backslash, a double quote or a character outside printable ASCII - are left out (the finding's own witness covers them)."""
    import os

    from pyvc.run import REPLAY_DIR, run_snippet

    def check(tier, seed):
        carve = "C03-regex-not-readable" in active_known
        p = os.path.join(REPLAY_DIR, "C03", "regex_round_trip.py")
        failed, outp = run_snippet("# bounded check for property C03\n# functions: basilisp.lang.obj:_lrepr_pattern, basilisp.lang.reader:_read_regex\n"
                                   + REGEX_REPLAY.replace("@CARVE@", repr(carve)), p)
        ran = "cases " in outp
        rec = {"name": "[bounded: a fixed list of patterns" + (", without the input class of known finding C03-regex-not-readable" if carve else "") + "] printing a regex pattern "
                       "readably and reading the text gives an equal pattern",
               "kind": "bounded", "bounded": True, "line": 0, "time_s": 0.0, "backend": "concrete execution of the real functions", "verdict": "refuted" if failed else ("bounded-ok" if ran else "unknown")}
        if failed:
            rec.update(replay=p, reproduced=True, replay_output=outp[-1500:], model={})
        return [{"key": "bounded:basilisp.lang.obj:_lrepr_pattern+basilisp.lang.reader:_read_regex", "file": "src/basilisp/lang/obj.py", "lines": [0, 0],
                 "error": None if (ran or failed) else "the bounded check did not run: " + outp[-300:], "obligations": [rec], "extra": True, "bounded": True,
                 "bound": "a fixed list of 24 patterns" + (" minus those with a backslash, a double quote or a non-printable / non-ASCII character" if carve else ""),
                 "result": "a case fails" if failed else "all cases round-trip", "time_s": 0.0}]

    return check


REGEX_REPLAY = r'''
import re
from basilisp.lang import reader
from basilisp.lang.obj import lrepr
CARVE = @CARVE@
patterns = ["", "a", "a+b*", "[a-z]+", "(x|y)?", "^abc$", "a{2,3}", ".", "a b", "(?i)abc", "[^,;]", "x|", r"\d+", r"\s", r"a\.b", r"\\", "a\"b", r"\"", "a\nb", "\t", "\u00e9", "\u4e2d", "[\"']", r"\bfoo\b"]
cases, bad = 0, []
for p in patterns:
    if CARVE and ("\\" in p or '"' in p or any(not (" " <= ch <= "~") for ch in p)):
        continue
    cases += 1
    pat = re.compile(p)
    text = lrepr(pat)
    try:
        back = list(reader.read_str(text))
    except Exception as e:
        back = "%s: %s" % (type(e).__name__, e)
    if not (isinstance(back, list) and len(back) == 1 and isinstance(back[0], re.Pattern) and back[0] == pat):
        bad.append("%r prints as %s, which reads as %r" % (p, text, [getattr(b, "pattern", b) for b in back] if isinstance(back, list) else back))
print("cases", cases)
for line in bad[:8]:
    print(line)
print("REPRODUCED" if bad else "not reproduced")
'''


NUMTEXT_REPLAY = r'''
import decimal, fractions
from basilisp.lang import reader
from basilisp.lang.obj import lrepr
text = @TEXT@
values = [0, -7, 10**30, 1.5, -0.001, 1e16, 1e22, -1.5e300, 5e-324, 1.5e-07, 123456789.125, fractions.Fraction(-7, 3), decimal.Decimal("1.50"), decimal.Decimal("1E+5"), decimal.Decimal("1E-7"),
          complex(0, 1), complex(0, 2.5), complex(0, -3), complex(0, 1e16), complex(0, 1.5e-7), complex(0, 1e22)]
def parse(t):
    "the value the solver's text denotes, when it is the printed form of one"
    try:
        if t.endswith("J"):
            return complex(t[:-1] + "j")
        if t.endswith("M"):
            return decimal.Decimal(t[:-1])
        if "/" in t:
            return fractions.Fraction(t)
        return float(t) if any(c in t for c in ".eE") else int(t)
    except Exception:
        return None
if text:
    v = parse(text)
    if v is not None:
        values.insert(0, v)
bad = []
for v in values:
    t = lrepr(v, print_dup=True)
    try:
        back = list(reader.read_str(t))
    except Exception as e:
        back = "%s: %s" % (type(e).__name__, e)
    if not (isinstance(back, list) and len(back) == 1 and type(back[0]) is type(v) and back[0] == v):
        bad.append("%r prints as %s, which reads as %r" % (v, t, back))
for line in bad[:8]:
    print(line)
print("REPRODUCED" if bad else "not reproduced")
'''


BYTES_REPLAY = r'''
import itertools
from basilisp.lang import reader
from basilisp.lang.obj import lrepr
alphabet = [0x00, 0x01, 0x07, 0x08, 0x09, 0x0a, 0x0b, 0x0c, 0x0d, 0x1b, 0x1f, 0x20, 0x21, 0x22, 0x23, 0x27, 0x30, 0x31, 0x34, 0x39, 0x41, 0x46, 0x5c, 0x5d, 0x61, 0x62, 0x66, 0x6e, 0x72, 0x74,
            0x75, 0x76, 0x78, 0x7b, 0x7e, 0x7f, 0x80, 0x81, 0x9f, 0xa0, 0xc3, 0xa9, 0xe9, 0xfe, 0xff, 0x3b, 0x2c, 0x60]
cases = [bytes([c]) for c in range(256)] + [b""] + [bytes(t) for t in itertools.product(alphabet, repeat=2)]
bad = []
for b in cases:
    text = lrepr(b)
    try:
        back = list(reader.read_str(text))
    except Exception as e:
        back = "%s: %s" % (type(e).__name__, e)
    if back != [b] or (back and type(back[0]) is not bytes):
        bad.append("%r prints as %s, which reads as %r" % (b, text, back))
    elif lrepr(back[0]) != text:
        bad.append("%r: printing the re-read value gives %s instead of %s" % (b, lrepr(back[0]), text))
print("cases", len(cases))
for line in bad[:8]:
    print(line)
print("REPRODUCED" if bad else "not reproduced")
'''


def table_check(active_known):
    """extra check: the printer's table is the specified escape code, and the reader decodes that code"""
    import os

    from pyvc.run import REPLAY_DIR, run_snippet

    def check(tier, seed):
        from basilisp.lang import obj, reader as rd

        obs = []

        def ob(name, ok, detail=""):
            rec = {"name": name + (f" [{detail}]" if detail and not ok else ""), "kind": "escape-table", "verdict": "proved" if ok else "refuted", "backend": "enumeration", "time_s": 0.0, "line": 0}
            if not ok:
                p = os.path.join(REPLAY_DIR, "C03", "string_round_trip.py")
                okr, outp = run_snippet("# replay for property C03\n# failed obligation: " + name + "\n" + STR_REPLAY, p, timeout=120)
                rec.update(replay=p, reproduced=okr, replay_output=outp[-1500:], model={"detail": detail})
            obs.append(rec)

        table = getattr(obj, "_STR_ESCAPE_TABLE", None)
        ob("the readable printer escapes strings character by character with a table (not with a codec that invents other escape sequences)", isinstance(table, dict),
           "obj._STR_ESCAPE_TABLE is missing: the printer does not use a translation table")
        code = live_code()
        if isinstance(table, dict):
            odd = {chr(k_) if isinstance(k_, int) else k_: v for k_, v in table.items() if not (isinstance(k_, int) and isinstance(v, str) and len(v) == 2 and v[0] == "\\")}
            ob("every escape the printer emits is a backslash followed by one letter (the only shape the proof about the reader covers)", not odd, f"other shapes: {odd!r}")
            unescaped = [c for c in MUST_ESCAPE if c not in code]
            ob("the two characters that cannot stand for themselves in a string literal (the double quote and the backslash) are escaped", not unescaped, f"not escaped: {unescaped!r}")
        letters = list(code.values())
        ob("no two characters share an escape letter", len(set(letters)) == len(letters), f"{letters!r}")
        rt = dict(rd._STR_ESCAPE_CHARS)
        wrong = {l: rt.get(l) for c, l in code.items() if rt.get(l) != c}
        ob("the reader's escape table maps every escape letter the printer uses back to the character it stands for", not wrong, f"{wrong!r}")
        ob("no escape letter of the code is 'u' or 'U' (those start a variable-length hexadecimal escape)", not ({"u", "U"} & set(letters)), "")
        return [{"key": "escape-tables:basilisp.lang.obj:_lrepr_str/basilisp.lang.reader:_read_str", "file": "src/basilisp/lang/obj.py", "lines": [0, 0], "error": None, "obligations": obs, "extra": True, "time_s": 0.0}]

    return check


STR_REPLAY = r'''
import itertools
from basilisp.lang import reader
from basilisp.lang.obj import lrepr
alphabet = ["a", "0", "f", '"', "\\", "\n", "\r", "\t", "\a", "\b", "\f", "\v", "\x00", "\x01", "\x1b", "\x7f", "\x80", "\xe9", "Ā", " ", "\U0001f40d", " ", "u", "x"]
bad = []
for n in range(0, 3):
    for chars in itertools.product(alphabet, repeat=n):
        s = "".join(chars)
        text = lrepr(s)
        try:
            back = list(reader.read_str(text))
        except Exception as e:
            back = "%s: %s" % (type(e).__name__, str(e)[:50])
        if back != [s]:
            bad.append("(pr-str %r) is %s which reads back as %r" % (s, text, back))
for line in bad[:8]:
    print(line)
print("%d of the strings tried do not round-trip" % len(bad))
print("REPRODUCED" if bad else "not reproduced")
'''
