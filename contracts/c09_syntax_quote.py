"""C09 - syntax-quote is hygienic (the reader half that is Python).

The property has two halves.  Destructuring (``destructure`` in core.lpy) is Lisp and out of reach
of contracts on /repo's Python.  Of the syntax-quote half, symbol *resolution* happens in
``_read_sym`` through the namespace functions (C10); what is covered here is the template
machinery in reader.py:

* ``_process_syntax_quoted_form``: a list / vector / set / map template becomes
  ``(seq (concat ...))`` / ``(apply vector (concat ...))`` / ``(apply hash-set (concat ...))`` /
  ``(apply hash-map (concat ...))`` over the expansion of its elements - *preserving the enclosing
  collection type*; ``~x`` inserts exactly ``x``; ``~@x`` outside a collection is a syntax error; an
  auto-gensym ``x#`` is looked up in the template's gensym environment: the second occurrence
  returns the very symbol the first one generated (one symbol within a template), a first
  occurrence generates a new name and records it; any other symbol is quoted as it is; any other
  form is returned unchanged;
* ``_expand_syntax_quote`` (the per-element loop): one entry per element, in order - ``(list x)`` for
  ``~x``, ``x`` itself for ``~@x``, ``(list r)`` otherwise where r is what the recursive call returned
  for that element (by induction); proved for list and vector templates and for the flattened
  entries of a map template, with an invariant over the lists allocated by earlier iterations; a set
  template's iteration order is opaque here;
* ``ReaderContext.syntax_quoted``: a new template gets a new, empty gensym environment on top of the
  stack and the stack is restored afterwards (fresh across templates).
"""
import z3

from pyvc import vals as V
from pyvc import lib
from pyvc.contract import Pack, T, OBJ, ANY
from pyvc.engine import SV, Model, Raise, Exc, Unsupported

UNQ = z3.Function("is_unquote_form", V.Val, z3.BoolSort())
UNQS = z3.Function("is_unquote_splicing_form", V.Val, z3.BoolSort())
SECOND = z3.Function("second_of_form", V.Val, V.Val)          # form[1]
PROC = z3.Function("processed_form", V.Val, V.Val)            # _process_syntax_quoted_form of a nested element (by induction)
EXPANDED = z3.Function("expanded_elements", V.Val, V.ValSeq)  # _expand_syntax_quote of a template's elements
EXPANDED_SEQ = z3.Function("expanded_elements_of_list", V.ValSeq, V.ValSeq)
PROCREL = z3.Function("is_result_of_processing", V.Val, V.Val, z3.BoolSort())  # (element, r): r is what the recursive call returned for it


def EXPANDED_OF_LIST(st, lst_ref):
    return EXPANDED_SEQ(z3.Select(st.lists, V.Val.a(lst_ref)))


ITEMS_OF = z3.Function("items_view_of", V.Val, V.Val)         # m.items()
FLATKV = z3.Function("flattened_entries", V.Val, V.Val)       # chain.from_iterable(<items view>): key, value, key, value ... as a list object
GENNAME = z3.Function("generated_name", z3.StringSort(), z3.IntSort(), z3.StringSort())


def _cls():
    from basilisp.lang import list as llist, map as lmap, reader as rd, set as lset, symbol as sym, vector as vec

    return dict(RC=rd.ReaderContext, PL=llist.PersistentList, PV=vec.PersistentVector, PS=lset.PersistentSet, PM=lmap.PersistentMap, SYM=sym.Symbol)


def fld(st, obj, name):
    return z3.Select(st.field_array(name), V.Val.a(obj))


def lview(st, obj):
    """elements of a persistent list / vector"""
    return V.seq_of(V.Val.a(fld(st, obj, "_inner")))


def has_class(eng, v, cls):
    return z3.And(V.is_ref(v), V.cls_of(V.Val.a(v)) == eng.class_id(cls))


def unit_seq(*ts):
    us = [z3.Unit(t) for t in ts]
    return us[0] if len(us) == 1 else z3.Concat(*us)


def setup(eng, st):
    import itertools

    from basilisp.lang import reader as rd
    from basilisp.lang import util as langutil

    C = _cls()
    lib.install(eng)
    lib.install_wrappers(eng)
    for c in C.values():
        eng.class_id(c)
    eng.class_id(dict)
    lid = eng.class_id(list)
    eng.closed_world_classes = True
    eng.field_types[("ReaderContext", "_gensym_env")] = lambda v: (z3.And(V.is_ref(v), V.cls_of(V.Val.a(v)) == lid), list)
    eng.field_types[("ReaderContext", "_syntax_quoted")] = lambda v: (z3.And(V.is_ref(v), V.cls_of(V.Val.a(v)) == lid), list)
    eng.field_types[("Symbol", "_name")] = lambda v: V.is_str(v)
    eng.field_types[("Symbol", "_ns")] = lambda v: z3.Or(V.is_none(v), V.is_str(v))
    def is_form(pred):
        def model(e, s, a, k):
            # opaque in the form; trusted: among reader forms only persistent lists have `.first`, so it holds of lists only
            f = e.lift(a[0], s)
            s.assume(z3.Implies(pred(f), has_class(e, f, C["PL"])))
            yield s, SV(V.mk_bool(pred(f)))

        return model

    eng.models[id(rd._is_unquote)] = Model("_is_unquote", is_form(UNQ))
    eng.models[id(rd._is_unquote_splicing)] = Model("_is_unquote_splicing", is_form(UNQS))
    st.ghost["gen_count"] = z3.Int("gen_count.0")

    def genname(e, s, a, k):
        # trusted: util.genname returns prefix_<n> for a counter value n it never hands out twice
        n = s.ghost["gen_count"]
        s.ghost["gen_count"] = n + 1
        yield s, SV(V.mk_str(GENNAME(V.Val.s(e.lift(a[0], s)), n)))

    eng.models[id(langutil.genname)] = Model("util.genname (a name never handed out before)", genname)

    def endswith(e, s, a, k):
        self, suf = a
        if not isinstance(suf, str):
            raise Unsupported("str.endswith with a symbolic suffix")
        yield s, SV(V.mk_bool(z3.SuffixOf(z3.StringVal(suf), V.Val.s(self.t))))

    eng.method_models[(str, "endswith")] = Model("str.endswith", endswith)

    def startswith(e, s, a, k):
        self, pre = a
        if not isinstance(pre, str):
            raise Unsupported("str.startswith with a symbolic prefix")
        yield s, SV(V.mk_bool(z3.PrefixOf(z3.StringVal(pre), V.Val.s(self.t))))

    eng.method_models[(str, "startswith")] = Model("str.startswith", startswith)


def build(active_known=frozenset()):
    from basilisp.lang import reader as rd

    C = _cls()
    RC, PL, PV, PS, PM, SYM = (C[k] for k in ("RC", "PL", "PV", "PS", "PM", "SYM"))
    pack = Pack("C09", "Syntax-quote is hygienic and destructuring binds what nth/get would return")
    pack.common_setup.append(setup)
    pack.trust("util.genname never returns the same name twice (a process-wide counter); _is_unquote / _is_unquote_splicing / form[1] are opaque functions of the form here, and hold of persistent lists only (the only reader form with `.first`)")
    pack.assume("destructuring (core.lpy), symbol resolution inside templates (_read_sym + Namespace, see C10) and macroexpansion are NOT under contract; "
                "nested elements are processed by induction (PROC / EXPANDED are the results of the recursive calls)")
    mod = "basilisp.lang.reader:"

    # ------------------------------------------------------------------ _process_syntax_quoted_form
    def case_of(eng, st, r, elem):
        items = lview(st, r)
        lst = z3.And(has_class(eng, r, PL), z3.Length(items) == 2, items[0] == eng.lift(rd._LIST, st))
        return z3.If(UNQ(elem), z3.And(lst, items[1] == SECOND(elem)),
                     z3.If(UNQS(elem), r == SECOND(elem), z3.And(lst, PROCREL(elem, items[1]))))

    ANYIDX = z3.Int("any_index")
    def psetup(eng, st):
        def expand(e, s, a, k):
            # by induction: the expansion of the template's elements (its own contract is below)
            form = e.lift(a[1], s)
            if isinstance(a[1], SV) and a[1].hint is list:
                content = EXPANDED_SEQ(z3.Select(s.lists, V.Val.a(form)))  # a plain list of forms: a function of its elements
            else:
                content = EXPANDED(form)
            sv = e.alloc(s, list)
            s.lists = z3.Store(s.lists, V.Val.a(sv.t), content)
            elems = None
            if isinstance(a[1], SV) and a[1].hint is list:
                elems = z3.Select(s.lists, V.Val.a(form))
            elif isinstance(a[1], SV) and a[1].hint in (PL, PV):
                elems = lview(s, form)
            if elems is not None:  # what _expand_syntax_quote's own contract (below) ensures
                k = z3.Int("k_exp")
                body = lambda idx: z3.Implies(z3.And(idx >= 0, idx < z3.Length(elems)), z3.And(case_of(e, s, content[idx], elems[idx]), e.external_ref_fact(s, content[idx])))
                s.assume(z3.Length(content) == z3.Length(elems), z3.ForAll([k], body(k), patterns=[content[k]]), body(ANYIDX))
            yield s, sv

        eng.models[id(rd._expand_syntax_quote)] = Model("_expand_syntax_quote (by contract)", expand)
        import itertools

        def from_iterable(e, s, a, k):
            marker = a[-1]
            if not (isinstance(marker, SV) and marker.hint is MapItems):
                raise Unsupported("chain.from_iterable of something other than a map's items")
            r = FLATKV(marker.t)
            s.assume(V.is_ref(r), V.Val.a(r) <= 0, V.cls_of(V.Val.a(r)) == e.class_id(list))
            yield s, SV(r, hint=list)

        eng.method_models[(itertools.chain, "from_iterable")] = Model("chain.from_iterable(map.items())", from_iterable)
        eng.class_id(MapItems)

        def items_marker(e, s, a, k):
            r = ITEMS_OF(e.lift(a[0], s))
            s.assume(V.is_ref(r), V.Val.a(r) <= 0, V.cls_of(V.Val.a(r)) == e.class_id(MapItems))
            yield s, SV(r, hint=MapItems)

        eng.method_models[(PM, "items")] = Model("PersistentMap.items (the entries, as an opaque iterable)", items_marker)
        eng.method_models[(RC, "syntax_error")] = Model("ReaderContext.syntax_error", lambda e, s, a, k: iter([(s, Exc(rd.SyntaxError, tuple(a[1:])))]))

        def getitem1(e, s, a, k):
            self, idx = a
            if not (isinstance(idx, int) and idx == 1):
                raise Unsupported("form[i] other than form[1]")
            r = SECOND(e.lift(self, s))
            s.assume(e.external_ref_fact(s, r))
            yield s, SV(r)

        for cls in (PL, PV, PS, PM, SYM):
            eng.method_models[(cls, "__getitem__")] = Model("form[1]", getitem1)

    forms = {"a list": (PL, rd._SEQ, None), "a vector": (PV, rd._APPLY, rd._VECTOR), "a set": (PS, rd._APPLY, rd._HASH_SET), "a map": (PM, rd._APPLY, rd._HASH_MAP)}
    for label, (cls, head, ctor) in forms.items():
        c = pack.contract(mod + "_process_syntax_quoted_form")
        c.label = label + " template"
        c.param("ctx", OBJ(RC)).param("form", OBJ(cls))
        c.setup(psetup)
        c.requires("the template is not itself an unquote form", lambda a: z3.And(z3.Not(UNQ(a.form)), z3.Not(UNQS(a.form))))
        c.raises()

        def post(a, cls=cls, head=head, ctor=ctor):
            st = a.post.st
            e = a.eng
            items = lview(st, a.result)
            n_items = 2 if ctor is None else 3
            concat_form = items[n_items - 1]
            src = EXPANDED(a.form) if cls is not PM else EXPANDED_OF_LIST(st, FLATKV(ITEMS_OF(a.form)))
            eqs = [has_class(e, a.result, PL), z3.Length(items) == n_items, items[0] == e.lift(head, st),
                   has_class(e, concat_form, PL), lview(st, concat_form) == z3.Concat(z3.Unit(e.lift(rd._CONCAT, st)), src)]
            if ctor is not None:
                eqs.append(items[1] == e.lift(ctor, st))
            if cls is not PS:  # (a set's iteration order is opaque here)
                elems = lview(a.pre.st, a.form) if cls is not PM else z3.Select(a.pre.st.lists, V.Val.a(FLATKV(ITEMS_OF(a.form))))
                eqs.append(z3.Length(src) == z3.Length(elems))
                eqs.append(z3.Implies(z3.And(ANYIDX >= 0, ANYIDX < z3.Length(elems)), case_of(e, st, src[ANYIDX], elems[ANYIDX])))
            return z3.And(*eqs)

        what = {PL: "(seq (concat <expanded elements>))", PV: "(apply vector (concat ...))", PS: "(apply hash-set (concat ...))", PM: "(apply hash-map (concat <expanded flattened entries>))"}[cls]
        c.ensures(f"{label} template becomes {what}: the enclosing collection type is preserved and the elements are exactly the expansion of the template's elements, in order", post)

    c = pack.contract(mod + "_process_syntax_quoted_form")
    c.label = "an unquote form"
    c.param("ctx", OBJ(RC)).param("form", OBJ(PL))
    c.setup(psetup)
    c.requires("the form is (unquote x)", lambda a: UNQ(a.form))
    c.raises()
    c.ensures("~x inserts exactly x", lambda a: a.result == SECOND(a.form))

    c = pack.contract(mod + "_process_syntax_quoted_form")
    c.label = "an unquote-splicing form outside a collection"
    c.param("ctx", OBJ(RC)).param("form", OBJ(PL))
    c.setup(psetup)
    c.requires("the form is (unquote-splicing x)", lambda a: z3.And(z3.Not(UNQ(a.form)), UNQS(a.form)))
    c.raises(rd.SyntaxError)
    c.allow_no_return = True
    c.ensures("never returns normally", lambda a: z3.BoolVal(False))

    def env_of(st, ctx):
        stack = z3.Select(st.lists, V.Val.a(fld(st, ctx, "_gensym_env")))
        return stack[z3.Length(stack) - 1]

    for present in (True, False):
        c = pack.contract(mod + "_process_syntax_quoted_form")
        c.label = "an auto-gensym symbol " + ("seen before in this template" if present else "seen for the first time")
        c.param("ctx", OBJ(RC)).param("form", OBJ(SYM))
        c.setup(psetup)

        def pre(a, present=present):
            st = a.pre.st
            env = env_of(st, a.ctx)
            stack = z3.Select(st.lists, V.Val.a(fld(st, a.ctx, "_gensym_env")))
            m, d = lib.dict_content(st, V.Val.a(env))
            name = fld(st, a.form, "_name")
            outermost = stack[0]  # (type invariant of the stack: every environment on it is a dict; stated for the two ends, which is what code can name)
            return z3.And(z3.Not(UNQ(a.form)), z3.Not(UNQS(a.form)), z3.Length(stack) >= 1, has_class(a.eng, env, dict), V.Val.a(env) <= 0,
                          has_class(a.eng, outermost, dict), V.Val.a(outermost) <= 0,
                          V.is_none(fld(st, a.form, "_ns")), z3.SuffixOf(z3.StringVal("#"), V.Val.s(name)), z3.Select(d, lib.key_norm(name)) == z3.BoolVal(present))

        c.requires("the form is an unqualified symbol whose name ends in #, and the template has a gensym environment", pre)
        c.raises()

        def post(a, present=present):
            pre_, st = a.pre.st, a.post.st
            e = a.eng
            env = env_of(pre_, a.ctx)
            name = lib.key_norm(fld(pre_, a.form, "_name"))
            m0, d0 = lib.dict_content(pre_, V.Val.a(env))
            m1, d1 = lib.dict_content(st, V.Val.a(env))
            items = lview(st, a.result)
            quoted = z3.And(has_class(e, a.result, PL), z3.Length(items) == 2, items[0] == e.lift(rd._QUOTE, st))
            ANYKEY = z3.Const("any_key", V.Val)
            if present:
                same_env = z3.And(z3.Select(d1, ANYKEY) == z3.Select(d0, ANYKEY), z3.Select(m1, ANYKEY) == z3.Select(m0, ANYKEY))
                return z3.And(quoted, items[1] == z3.Select(m0, name), same_env)
            g = items[1]
            fresh = z3.And(has_class(e, g, C["SYM"]), V.Val.a(g) > 0, V.is_none(fld(st, g, "_ns")), fld(st, g, "_meta") == fld(pre_, a.form, "_meta"))
            recorded = z3.And(z3.Select(d1, name), z3.Select(m1, name) == g,
                              z3.Implies(ANYKEY != name, z3.And(z3.Select(d1, ANYKEY) == z3.Select(d0, ANYKEY), z3.Select(m1, ANYKEY) == z3.Select(m0, ANYKEY))))
            return z3.And(quoted, fresh, recorded)

        c.ensures("x# reads as (quote g): g is the symbol recorded for x# in this template's environment - the very same one on every later occurrence - and on the "
                  "first occurrence a new unqualified symbol with the template symbol's metadata, recorded under x# while every other entry stays", post)

    c = pack.contract(mod + "_process_syntax_quoted_form")
    c.label = "any other symbol"
    c.param("ctx", OBJ(RC)).param("form", OBJ(SYM))
    c.setup(psetup)
    c.requires("the symbol is qualified or does not end in #",
               lambda a: z3.And(z3.Not(UNQ(a.form)), z3.Not(UNQS(a.form)),
                                z3.Or(z3.Not(V.is_none(fld(a.pre.st, a.form, "_ns"))), z3.Not(z3.SuffixOf(z3.StringVal("#"), V.Val.s(fld(a.pre.st, a.form, "_name")))))))
    c.raises()
    c.ensures("a symbol is quoted as it is", lambda a: z3.And(has_class(a.eng, a.result, PL), lview(a.post.st, a.result) == unit_seq(a.eng.lift(rd._QUOTE, a.post.st), a.form)))

    # ------------------------------------------------------------------ _expand_syntax_quote: the per-element loop
    def esetup(eng, st):
        psetup(eng, st)

        def rec(e, s, a, k):
            # by induction: the recursive call returns *some* form r with PROCREL(elem, r); it may record gensyms
            # (the content of dict objects) and allocates, nothing else
            elem = e.lift(a[1], s)
            for nm in ("pdm", "pdd"):
                if nm in s.aux:
                    s.aux[nm] = z3.Const(V.fresh_name(nm), s.aux[nm].sort())
            r = V.fresh_val("processed")
            s.assume(e.external_ref_fact(s, r), PROCREL(elem, r))
            yield s, SV(r)

        eng.models[id(rd._process_syntax_quoted_form)] = Model("_process_syntax_quoted_form (by induction, on an element)", rec)

    for label, fcls in (('a plain list (the flattened entries of a map template)', list), ('a list template', PL), ('a vector template', PV)):
        c = pack.contract(mod + "_expand_syntax_quote")
        c.label = "elements of " + label
        c.param("ctx", OBJ(RC)).param("form", OBJ(fcls))
        c.setup(esetup)
        c.raises()

        def expand_post(a, fcls=fcls):
            pre, st = a.pre.st, a.post.st
            elems = z3.Select(pre.lists, V.Val.a(a.form)) if fcls is list else lview(pre, a.form)
            out = z3.Select(st.lists, V.Val.a(a.result))
            return z3.And(V.is_ref(a.result), z3.Length(out) == z3.Length(elems),
                          z3.Implies(z3.And(ANYIDX >= 0, ANYIDX < z3.Length(elems)), case_of(a.eng, st, out[ANYIDX], elems[ANYIDX])))

        c.ensures("one entry per element, in order: (list x) for ~x, x itself for ~@x (spliced by concat), (list <the element processed recursively>) otherwise", expand_post)

        def expand_inv(ctx):
            from pyvc.loops import LOOP_REGION

            out = ctx.list_of(ctx["expanded"])
            k = z3.Int("k_exp")
            body = lambda idx: z3.Implies(z3.And(idx >= 0, idx < ctx.i), case_of(ctx.eng, ctx.st, out[idx], ctx.seq[idx]))
            if ctx.assuming:
                # the quantified fact, its instance at the index the goals speak about, and the allocation discipline of an
                # allocating loop: what earlier iterations created lives in the loop region, apart from this iteration's objects
                mark = len(ctx.st.local_objs)
                e = out[ANYIDX]
                older = z3.Implies(z3.And(ANYIDX >= 0, ANYIDX < ctx.i, V.is_ref(e)), z3.Or(V.Val.a(e) <= mark, V.Val.a(e) >= LOOP_REGION))
                every = z3.And(z3.ForAll([k], body(k), patterns=[out[k]]), body(ANYIDX), older)
            else:
                every = body(ANYIDX)
            return [
                ("one entry per element visited", z3.Length(out) == ctx.i),
                ("every entry so far is the expansion of its element", every),
            ]

        c.loop(0, invariant=expand_inv, frame=[], lists=True, allocates=True, aux=("pdm", "pdd"))

    # ------------------------------------------------------------------ a new template gets a new, empty gensym environment
    c = pack.contract("contracts.drivers_c09:in_syntax_quote")
    c.param("ctx", OBJ(RC))
    c.setup(lambda eng, st: None)

    def body_setup(eng, st):
        def body(e, s, a, k):
            ctx = e.lift(a[0], s)
            s.ghost["inside"] = s.copy()
            yield s, None

        from contracts import drivers_c09

        eng.models[id(drivers_c09.template_body)] = Model("the template's body", body)

    c.setup(body_setup)
    c.requires("the gensym-environment stack and the syntax-quoted stack are two different deques (ReaderContext.__init__ creates one each)",
               lambda a: fld(a.pre.st, a.ctx, "_gensym_env") != fld(a.pre.st, a.ctx, "_syntax_quoted"))
    c.raises()

    def sq_post(a):
        pre, post = a.pre.st, a.post.st
        inside = post.ghost.get("inside")
        if inside is None:
            return z3.BoolVal(False)
        s0 = z3.Select(pre.lists, V.Val.a(fld(pre, a.ctx, "_gensym_env")))
        s1 = z3.Select(inside.lists, V.Val.a(fld(inside, a.ctx, "_gensym_env")))
        s2 = z3.Select(post.lists, V.Val.a(fld(post, a.ctx, "_gensym_env")))
        top = s1[z3.Length(s1) - 1]
        ANYKEY = z3.Const("any_key", V.Val)
        q1 = z3.Select(inside.lists, V.Val.a(fld(inside, a.ctx, "_syntax_quoted")))
        return z3.And(s1 == z3.Concat(s0, z3.Unit(top)), V.is_ref(top), V.Val.a(top) > 0, z3.Not(z3.Select(lib.dict_content(inside, V.Val.a(top))[1], ANYKEY)),
                      q1[z3.Length(q1) - 1] == V.mk_bool(True), s2 == s0,
                      z3.Select(post.lists, V.Val.a(fld(post, a.ctx, "_syntax_quoted"))) == z3.Select(pre.lists, V.Val.a(fld(pre, a.ctx, "_syntax_quoted"))))

    c.ensures("inside a syntax-quote the gensym environment on top of the stack is a new, empty one (auto-gensyms are fresh across templates) and the reader "
              "knows it is syntax-quoting; afterwards both stacks are as before", sq_post)
    add_template_readers(pack)
    add_resolution(pack)

    # The contracts above speak of "the symbols the expander emits" through the module's own constants (rd._SEQ, rd._VECTOR, ...), so
    # they cannot see what those constants *are*.  The template is code that runs where the template is used: "preserving the enclosing
    # collection type" needs every helper it calls to be the basilisp.core function of that name, whatever the use site has shadowed or
    # excluded - i.e. each constant is the fully qualified symbol.  A complete enumeration over the seven module constants.
    def helper_symbols(tier, seed):
        import os

        from basilisp.lang import symbol as sym_
        from pyvc.run import REPLAY_DIR, run_snippet

        want = {"_SEQ": "seq", "_CONCAT": "concat", "_LIST": "list", "_APPLY": "apply", "_VECTOR": "vector", "_HASH_MAP": "hash-map", "_HASH_SET": "hash-set"}
        wrong = [f"{c_} is {getattr(rd, c_, None)!r}" for c_, n_ in want.items() if getattr(rd, c_, None) != sym_.symbol(n_, ns="basilisp.core")]
        rec = {"name": "every helper the syntax-quote expander emits (seq, concat, list, apply, vector, hash-map, hash-set) is the symbol qualified with basilisp.core"
                       + (f" [{'; '.join(wrong)}]" if wrong else ""),
               "kind": "helper-symbols", "verdict": "refuted" if wrong else "proved", "backend": "enumeration", "time_s": 0.0, "line": 0}
        if wrong:
            p_ = os.path.join(REPLAY_DIR, "C09", "helper_symbols.py")
            okr, outp = run_snippet("# replay for property C09\n# failed obligation: " + rec["name"] + "\n" + HELPER_REPLAY, p_)
            rec.update(replay=p_, reproduced=okr, replay_output=outp[-1500:], model={"wrong": wrong})
        return [{"key": "helper-symbols:basilisp.lang.reader", "file": "src/basilisp/lang/reader.py", "lines": [0, 0], "error": None, "obligations": [rec], "extra": True, "time_s": 0.0}]

    pack.extra.append(helper_symbols)
    for c in pack.contracts:
        if c.replay_ is None:
            c.replay(lambda m, ctx, ob: SQ_REPLAY)
            c.replay_without_model = True
    return pack


def add_template_readers(pack):
    """``_read_syntax_quoted`` and ``_read_unquote`` on top of the C16 stream-reader contracts (used at call sites, proved in
    the C16 pack): the template read after ` is processed - exactly that form, once - inside a ``syntax_quoted()`` block,
    i.e. under a new and empty gensym environment, and both context stacks are as before afterwards; ``~form`` reads as
    ``(unquote form)`` and ``~@form`` as ``(unquote-splicing form)``, decided by the character after ``~`` alone."""
    from basilisp.lang import reader as rd

    from contracts import c16_reader as R

    wanted = {"basilisp.lang.reader:_read_unquote", "basilisp.lang.reader:_read_syntax_quoted"}
    got = {}
    for c in R.build(active_known=frozenset()).contracts:
        if c.modular and c.key.startswith("basilisp.lang.reader:StreamReader."):
            c.spec_only = True
        elif c.key in wanted and not c.modular:
            got[c.key] = c
            c.setup_.insert(0, R.setup)
            c.replay_ = None
        else:
            continue
        c.pack = pack
        pack.contracts.append(c)
    pack.trust("StreamReader.peek / next_char / advance / pushback behave as proved in the C16 pack (their contracts are used here, not their bodies); "
               "_read_next_consuming_comment is used by contract (C16) and leaves the reader context's stacks as it found them (induction over nesting)")

    def stacks(st, ctx):
        return (z3.Select(st.lists, V.Val.a(fld(st, ctx, "_gensym_env"))), z3.Select(st.lists, V.Val.a(fld(st, ctx, "_syntax_quoted"))))

    # ---- `form
    c = got["basilisp.lang.reader:_read_syntax_quoted"]

    def sq_setup(eng, st):
        eng.class_id(dict)

        def psq(e, s, a, k):
            r = V.fresh_val("expanded")
            s.assume(e.external_ref_fact(s, r))
            s.ghost["psq_calls"] = list(s.ghost.get("psq_calls", [])) + [(s.copy(), e.lift(a[0], s), e.lift(a[1], s), r)]
            yield s, SV(r)

        eng.models[id(rd._process_syntax_quoted_form)] = Model("_process_syntax_quoted_form (its contract is above; here: which form, under which environment)", psq)

    c.setup(sq_setup)
    c.requires("the two context stacks are different deques", lambda a: fld(a.pre.st, a.ctx, "_gensym_env") != fld(a.pre.st, a.ctx, "_syntax_quoted"))

    def sq_post(a):
        pre, post = a.pre.st, a.post.st
        calls = post.ghost.get("psq_calls", [])
        subs = post.ghost.get("subreads", [])
        if len(calls) != 1 or not subs or subs[-1][1] is None:
            return z3.BoolVal(False)
        at, ctx_arg, form_arg, r = calls[0]
        g0, q0 = stacks(pre, a.ctx)
        g1, q1 = stacks(at, a.ctx)
        g2, q2 = stacks(post, a.ctx)
        top = g1[z3.Length(g1) - 1]
        ANYKEY = z3.Const("any_key", V.Val)
        return z3.And(a.result == r, ctx_arg == a.ctx, form_arg == subs[-1][1],
                      g1 == z3.Concat(g0, z3.Unit(top)), V.is_ref(top), V.Val.a(top) > 0, z3.Not(z3.Select(lib.dict_content(at, V.Val.a(top))[1], ANYKEY)),
                      q1 == z3.Concat(q0, z3.Unit(V.mk_bool(True))), g2 == g0, q2 == q0)

    c.ensures("`form returns the processed template: exactly the form read after the backquote is processed, once, under a new and empty gensym environment "
              "with the reader marked as syntax-quoting, and both context stacks are as before afterwards", sq_post)

    # ---- ~form and ~@form
    c = got["basilisp.lang.reader:_read_unquote"]
    c.requires("the two context stacks are different deques", lambda a: fld(a.pre.st, a.ctx, "_gensym_env") != fld(a.pre.st, a.ctx, "_syntax_quoted"))

    def unq_post(a):
        pre, post = a.pre.st, a.post.st
        r = fld(pre, a.ctx, "_reader")
        p = R.pos(pre, r)
        items = V.seq_of(V.Val.a(fld(post, a.result, "_inner")))
        g0, q0 = stacks(pre, a.ctx)
        g2, q2 = stacks(post, a.ctx)
        splice = R.CH(p + 1) == V.mk_str("@")
        return z3.And(items[0] == z3.If(splice, a.eng.lift(rd._UNQUOTE_SPLICING, post), a.eng.lift(rd._UNQUOTE, post)), g2 == g0, q2 == q0)

    c.ensures("~@form reads as (unquote-splicing form) and ~form as (unquote form) - decided by the character after the tilde - and the context stacks are as before", unq_post)


SPECIAL = z3.Function("is_special_form_symbol", V.Val, V.Val, z3.BoolSort())   # (ns, name) of a symbol in _SPECIAL_FORMS
ALIAS = z3.Function("alias_lookup", V.Val, z3.StringSort(), V.Val)              # ns.get_alias(<symbol named n>)
FIND = z3.Function("find_lookup", V.Val, z3.StringSort(), V.Val)                # ns.find(<unqualified symbol named n>)
CURRENT_NS = z3.Const("current_ns", V.Val)


def add_resolution(pack):
    """``runtime.resolve_alias`` - what the reader calls for every symbol inside a syntax-quote: special forms stay as they
    are; ``alias/x`` becomes ``<aliased namespace's name>/x`` when the namespace has that alias and stays otherwise;
    an unqualified ``x`` becomes ``<ns of the Var>/<name of the Var>`` for the Var that ``ns.find`` gives for x, and
    ``<this namespace's name>/x`` when there is none.  ``ns.get_alias`` / ``ns.find`` (C10) are used by contract, as
    functions of the namespace and of the looked-up symbol's name (symbols are compared by namespace and name)."""
    from basilisp.lang import runtime as rt, set as lset, symbol as sym

    NS, VAR, SYM = rt.Namespace, rt.Var, sym.Symbol

    def rsetup(eng, st):
        for c in (NS, VAR, SYM, lset.PersistentSet):
            eng.class_id(c)
        eng.field_types[("Symbol", "_name")] = lambda v: V.is_str(v)
        eng.field_types[("Symbol", "_ns")] = lambda v: z3.Or(V.is_none(v), V.is_str(v))
        eng.field_types[("Namespace", "_name")] = lambda v: (has_class(eng, v, SYM), SYM)  # a namespace is named by a symbol
        eng.field_types[("Var", "_name")] = lambda v: (has_class(eng, v, SYM), SYM)
        eng.field_types[("Var", "_ns")] = lambda v: (has_class(eng, v, NS), NS)

        def special(e, s, a, k):
            self, x = a
            if self is not rt._SPECIAL_FORMS:
                raise Unsupported("membership in a set other than _SPECIAL_FORMS")
            t = e.lift(x, s)
            yield s, SV(V.mk_bool(SPECIAL(fld(s, t, "_ns"), fld(s, t, "_name"))))

        eng.method_models[(lset.PersistentSet, "__contains__")] = Model("s in _SPECIAL_FORMS (a function of the symbol's ns and name)", special)

        def lookup(fn, cls):
            def model(e, s, a, k):
                self, key = e.lift(a[0], s), e.lift(a[1], s)
                e.oblige(s, "the looked-up symbol is unqualified", V.is_none(fld(s, key, "_ns")), "pre", 0)
                r = fn(self, V.Val.s(fld(s, key, "_name")))
                s.assume(z3.Or(V.is_none(r), z3.And(has_class(e, r, cls), V.Val.a(r) <= 0)))
                yield s, SV(r)

            return model

        eng.method_models[(NS, "get_alias")] = Model("Namespace.get_alias (by contract, C10)", lookup(ALIAS, NS))
        eng.method_models[(NS, "find")] = Model("Namespace.find (by contract, C10)", lookup(FIND, VAR))

        def current(e, s, a, k):
            s.assume(has_class(e, CURRENT_NS, NS), V.Val.a(CURRENT_NS) <= 0)
            yield s, SV(CURRENT_NS, hint=NS)

        eng.models[id(rt.get_current_ns)] = Model("get_current_ns (the namespace the template is written in)", current)

    def is_sym(e, st, r, ns, name, new=True):
        parts = [has_class(e, r, SYM), fld(st, r, "_ns") == ns, fld(st, r, "_name") == name]
        return z3.And(*parts)

    for given in (True, False):
        c = pack.contract("basilisp.lang.runtime:resolve_alias")
        c.label = "namespace given" if given else "current namespace"
        c.param("s", OBJ(SYM)).param("ns", OBJ(NS) if given else T(lambda v: V.is_none(v), None, "None"))
        c.setup(rsetup)
        c.raises()

        def post(a, given=given):
            e, pre, st = a.eng, a.pre.st, a.post.st
            where = a.ns if given else CURRENT_NS
            s_ns, s_name = fld(pre, a.s, "_ns"), fld(pre, a.s, "_name")
            al = ALIAS(where, V.Val.s(s_ns))
            var = FIND(where, V.Val.s(s_name))
            nsname = lambda n: fld(pre, fld(pre, n, "_name"), "_name")
            qualified = z3.If(V.is_none(al), a.result == a.s, is_sym(e, st, a.result, nsname(al), s_name))
            vname = fld(pre, var, "_name")
            unqualified = z3.If(V.is_none(var), is_sym(e, st, a.result, nsname(where), s_name),
                                is_sym(e, st, a.result, nsname(fld(pre, var, "_ns")), fld(pre, vname, "_name")))
            return z3.If(SPECIAL(s_ns, s_name), a.result == a.s, z3.If(V.is_none(s_ns), unqualified, qualified))

        c.ensures("a special form stays as it is; alias/x is qualified with the aliased namespace's name (and left alone without such an alias); an unqualified x becomes "
                  "the fully qualified name of the Var it denotes in the namespace, or is qualified with that namespace when it denotes none", post)
        c.modifies()
        c.replay(lambda m, ctx, ob: RES_REPLAY)
        c.replay_without_model = True


    # ------------------------------------------------------------------ _read_sym: which symbols of a template are resolved
    from basilisp.lang import reader as rd

    NS_TOK, NAME_TOK = z3.Const("token_ns", V.Val), z3.Const("token_name", V.Val)
    RESOLVED = z3.Function("resolver_result", V.Val, V.Val)
    BADSEG = z3.Function("has_empty_namespace_segment", z3.StringSort(), z3.BoolSort())

    def ssetup(eng, st):
        rsetup(eng, st)
        RC = rd.ReaderContext
        eng.class_id(RC)
        lid = eng.class_id(list)
        eng.field_types[("ReaderContext", "_syntax_quoted")] = lambda v: (z3.And(V.is_ref(v), V.cls_of(V.Val.a(v)) == lid), list)

        def namespaced(e, s, a, k):
            s.assume(z3.Or(V.is_none(NS_TOK), V.is_str(NS_TOK)), V.is_str(NAME_TOK))
            yield s, (SV(NS_TOK), SV(NAME_TOK))

        def split(e, s, a, k):
            # over-approximation: some list of strings (which segments are empty is left open)
            sv = e.alloc(s, list)
            content = z3.Const(V.fresh_name("segments"), V.ValSeq)
            s.lists = z3.Store(s.lists, V.Val.a(sv.t), content)
            yield s, sv

        eng.method_models[(str, "split")] = Model("str.split (over-approximated: some list)", split)

        def any_(e, s, a, k):
            from pyvc.loops import SymIter

            if not isinstance(a[0], SymIter):
                raise Unsupported("any() of something other than a symbolic generator")
            yield s, SV(V.mk_bool(z3.Const(V.fresh_name("any_segment_empty"), z3.BoolSort())))

        eng.models[id(any)] = Model("any(<generator over a symbolic list>) (over-approximated: either answer)", any_)
        eng.models[id(rd._read_namespaced)] = Model("_read_namespaced (the token's namespace and name; C16 covers the stream)", namespaced)
        eng.method_models[(RC, "syntax_error")] = Model("ReaderContext.syntax_error", lambda e, s, a, k: iter([(s, Exc(rd.SyntaxError, tuple(a[1:])))]))

        def resolve(e, s, a, k):
            arg = e.lift(a[1], s)
            s.ghost["resolve_calls"] = list(s.ghost.get("resolve_calls", [])) + [(s.copy(), arg)]
            r = RESOLVED(arg)
            s.assume(e.external_ref_fact(s, r))
            yield s, SV(r)

        eng.method_models[(RC, "resolve")] = Model("ReaderContext.resolve (the resolver the reader was given; runtime.resolve_alias by default)", resolve)

    c = pack.contract("basilisp.lang.reader:_read_sym")
    c.param("ctx", OBJ(rd.ReaderContext)).param("is_reader_macro_sym", T(lambda v: V.is_bool(v), None, "bool"))
    c.setup(ssetup)
    c.raises(rd.SyntaxError)

    def sym_post(a):
        e, pre, st = a.eng, a.pre.st, a.post.st
        q = z3.Select(pre.lists, V.Val.a(fld(pre, a.ctx, "_syntax_quoted")))
        in_sq = z3.And(z3.Length(q) > 0, q[z3.Length(q) - 1] == V.mk_bool(True))
        name = V.Val.s(NAME_TOK)
        literal = z3.And(V.is_none(NS_TOK), z3.Or(*[name == z3.StringVal(x) for x in ("nil", "true", "false", "&")], z3.PrefixOf(z3.StringVal("."), name)))
        gensym = z3.SuffixOf(z3.StringVal("#"), name)
        calls = st.ghost.get("resolve_calls", [])
        must_resolve = z3.And(in_sq, z3.Not(gensym), z3.Not(V.Val.b(a.is_reader_macro_sym)), z3.Not(literal))
        if len(calls) == 1:
            at, arg = calls[0]
            return z3.And(must_resolve, a.result == RESOLVED(arg), is_sym(e, at, arg, NS_TOK, NAME_TOK))
        if len(calls) > 1:
            return z3.BoolVal(False)
        return z3.And(z3.Not(must_resolve), z3.Implies(z3.Not(literal), is_sym(e, st, a.result, NS_TOK, NAME_TOK)))

    c.ensures("inside a syntax-quote every symbol that is not an auto-gensym, not a literal (nil, true, false, &, .member) and not the tag of a reader macro is returned "
              "as the resolver's answer for exactly that symbol; everywhere else the symbol is returned as written", sym_post)
    c.replay(lambda m, ctx, ob: RES_REPLAY)
    c.replay_without_model = True


RES_REPLAY = r'''
from basilisp.lang import runtime as rt, symbol as sym
S = sym.symbol
A, B = 'c09-replay-a', 'c09-replay-b'
a = rt.Namespace.get_or_create(S(A))
b = rt.Namespace.get_or_create(S(B))
vb = rt.Var.intern(b, S('shared'), 1)
va = rt.Var.intern(a, S('mine'), 2)
a.add_alias(b, S('bb'))
a.add_refer(S('shared'), vb)
a.add_refer(S('renamed'), vb)
nsv = rt.Var.intern(rt.Namespace.get_or_create(S(rt.CORE_NS)), S(rt.NS_VAR_NAME), a, dynamic=True)
from basilisp.lang import map as lmap
rt.push_thread_bindings(lmap.map({nsv: a}))   # (a thread binding of *ns* may already exist in this process: bind on top of it)
bad = []
def chk(desc, got, want):
    if got != want:
        bad.append('%s: expected %r, got %r' % (desc, want, got))
try:
    for given in (True, False):
        def res(s):
            if given:
                return rt.resolve_alias(s, a)
            return rt.resolve_alias(s)    # the current namespace: *ns* (interned below with a as its root value)
        chk('own Var', res(S('mine')), S('mine', A))
        chk('referred Var', res(S('shared')), S('shared', B))
        chk('Var referred under another name', res(S('renamed')), S('shared', B))
        chk('no Var', res(S('nothing')), S('nothing', A))
        chk('aliased namespace', res(S('x', 'bb')), S('x', B))
        chk('unknown alias', res(S('x', 'zz')), S('x', 'zz'))
        chk('special form', res(S('if')), S('if'))
    from basilisp.lang import reader
    seen = []
    def resolver(s):
        seen.append(s)
        return S(s.name, ns='resolved')
    form = list(reader.read_str("`(foo al/bar g# nil .meth & true)", resolver=resolver))[0]
    chk('symbols of a template given to the resolver', seen, [S('foo'), S('bar', 'al')])
    chk('the resolved symbols are what the template holds', 'resolved/foo' in repr(form) and 'resolved/bar' in repr(form), True)
    del seen[:]
    form = list(reader.read_str("(foo al/bar)", resolver=resolver))[0]
    chk('outside a syntax-quote nothing is resolved', (seen, form), ([], reader.read_str and list(reader.read_str("(foo al/bar)"))[0]))
except BaseException as e:
    bad.append('unexpected %s: %s' % (type(e).__name__, e))
for line in bad[:10]:
    print(line)
print('REPRODUCED' if bad else 'not reproduced')
'''


HELPER_REPLAY = r'''
import subprocess, sys, tempfile, os
src = """(ns c09.helpers (:refer-basilisp :exclude [vector list seq concat apply hash-map hash-set]))
(def out (atom []))
(defn t [label f] (swap! out conj [label (try (f) (catch python/Exception e (str "raised " (python/type e))))]))
(t "vector" (fn [] (let [vector (fn [& _] :shadowed)] `[1 ~(+ 1 1) ~@[3 4]])))
(t "list" (fn [] (let [list (fn [& _] :shadowed) seq (fn [& _] :shadowed) concat (fn [& _] :shadowed)] `(1 ~(+ 1 1) ~@[3 4]))))
(t "set" (fn [] (let [hash-set (fn [& _] :shadowed) apply (fn [& _] :shadowed)] `#{1 ~(+ 1 1)})))
(t "map" (fn [] (let [hash-map (fn [& _] :shadowed)] `{:a ~(+ 1 1)})))
(t "vector with the names excluded from the namespace" (fn [] `[~@[1 2] :end]))
(println (pr-str @out))
"""
d = tempfile.mkdtemp()
p = os.path.join(d, "helpers.lpy")
open(p, "w").write(src)
out = subprocess.run([sys.executable, "-m", "basilisp.cli", "run", p], capture_output=True, text=True, timeout=280)
line = (out.stdout.strip().splitlines() or [out.stderr[-400:]])[-1]
print(line)
want = '[["vector" [1 2 3 4]] ["list" (1 2 3 4)] ["set" #{1 2}] ["map" {:a 2}] ["vector with the names excluded from the namespace" [1 2 :end]]]'
print("REPRODUCED" if line.replace("#{2 1}", "#{1 2}") != want else "not reproduced")
'''


SQ_REPLAY = r'''
from basilisp.lang import reader, symbol as sym, list as llist
def S(n, ns=None):
    return sym.symbol(n, ns=ns)
CORE = "basilisp.core"
bad = []
def first(text):
    return list(reader.read_str(text))[0]
def chk(desc, ok):
    if not ok:
        bad.append(desc)
def parts(form):
    return list(form)
def _flatten(form):
    if isinstance(form, (str, bytes)) or not hasattr(form, "__iter__"):
        return [form]
    out = []
    for x in form:
        out.extend(_flatten(x))
    return out
try:
    f = first("`(a# a# b#)")      # (seq (concat (list 'a__1) (list 'a__1) (list 'b__2)))
    chk("list template is (seq (concat ...))", parts(f)[0] == S("seq", CORE) and parts(parts(f)[1])[0] == S("concat", CORE))
    ents = parts(parts(f)[1])[1:]
    syms = [parts(parts(e)[1])[1] for e in ents]
    chk("a# is one symbol within a template", syms[0] == syms[1] and syms[0].name.startswith("a_"))
    chk("b# is another symbol", syms[2] != syms[0])
    g = first("`(a#)")
    chk("a# is fresh across templates", parts(parts(parts(parts(g)[1])[1])[1])[1] != syms[0])
    n = first("`(x# ~`x#)")       # a template nested through an unquote has its own gensym environment
    nested_syms = [s_ for s_ in _flatten(n) if isinstance(s_, sym.Symbol) and s_.name.startswith("x_")]
    chk("x# of a nested template is not the enclosing template's x#", len(set(nested_syms)) == 2)
    sib = first("`(~`a# ~`a#)")
    sib_syms = [s_ for s_ in _flatten(sib) if isinstance(s_, sym.Symbol) and s_.name.startswith("a_")]
    chk("sibling nested templates have different gensyms", len(set(sib_syms)) == 2)
    v = first("`[1 ~x ~@ys]")
    chk("vector template is (apply vector (concat ...))", parts(v)[:2] == [S("apply", CORE), S("vector", CORE)])
    vents = parts(parts(v)[2])[1:]
    chk("~x becomes (list x)", parts(vents[1]) == [S("list", CORE), S("x")])
    chk("~@ys is spliced as ys itself", vents[2] == S("ys"))
    chk("set template is (apply hash-set ...)", parts(first("`#{1}"))[:2] == [S("apply", CORE), S("hash-set", CORE)])
    chk("map template is (apply hash-map ...)", parts(first("`{:a 1}"))[:2] == [S("apply", CORE), S("hash-map", CORE)])
    chk("`~x is x", first("`~x") == S("x"))
    try:
        first("`~@x")
        chk("~@ outside a collection is a syntax error", False)
    except reader.SyntaxError:
        pass
except Exception as e:
    bad.append("unexpected %s: %s" % (type(e).__name__, e))
for line in bad[:10]:
    print(line)
print("REPRODUCED" if bad else "not reproduced")
'''


class MapItems:
    """stand-in for the view returned by PersistentMap.items()"""
