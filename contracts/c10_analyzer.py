"""C10 (second part) - the analyzer's symbol resolution: which Var a written symbol denotes.

Under contract here (real source of src/basilisp/lang/compiler/analyzer.py and runtime.py):

* ``_symbol_node``: *locals shadow Vars* - a symbol bound in the symbol table becomes a ``Local`` node and no Var is
  looked up at all; a quoted symbol is a constant; everything else goes to ``_resolve_sym``;
* ``__resolve_bare_symbol``: a bare symbol the current namespace can ``find`` is a ``VarRef`` to exactly that Var;
* ``__resolve_namespaced_symbol``: ``this-ns/x`` is the Var the current namespace finds for x; ``other.ns/x`` is the
  Var ``Var.find`` gives - and a *private* Var reached that way is an error, never a reference;
* ``__resolve_namespaced_symbol_in_ns``: ``alias/x`` is ``Var.find_in_ns(<aliased namespace>, x)``, an error when there is
  none or when it is private;
* ``Var.find`` / ``Var.find_in_ns``: ``ns/x`` is looked up in the namespace registered under ``ns``.

Lookups in name tables are functions of the namespace and of the looked-up symbol's *name* (symbols are compared by
namespace and name; the tables themselves are under contract in the first part): FIND, ALIAS_OF, NS_NAMED.  The branches
that resolve Python names (imports, builtins, nested attribute access) are outside these contracts: each contract's
precondition selects the Var-denoting path.
"""
import z3

from pyvc import vals as V
from pyvc import lib
from pyvc.contract import Pack, T, OBJ, ANY, BOOL
from pyvc.engine import SV, Model, Raise, Exc, Unsupported

FIND = z3.Function("ns_find", V.Val, z3.StringSort(), V.Val)                  # ns.find(<unqualified symbol named n>): interned, else referred
ALIAS_OF = z3.Function("ns_alias", V.Val, z3.StringSort(), V.Val)             # ns.aliases[<symbol named n>]
HAS_ALIAS = z3.Function("ns_has_alias", V.Val, z3.StringSort(), z3.BoolSort())
IN_IMPORTS = z3.Function("ns_imports_has", V.Val, z3.StringSort(), z3.BoolSort())           # <symbol named n> in ns.imports
IN_IMPORT_ALIASES = z3.Function("ns_import_aliases_has", V.Val, z3.StringSort(), z3.BoolSort())
NS_NAMED = z3.Function("namespace_registered_as", z3.StringSort(), V.Val)     # Namespace.get(<symbol named n>)
LOCAL = z3.Function("symbol_table_entry", V.Val, V.Val, z3.StringSort(), V.Val)  # symbol_table.find_symbol(<symbol ns/name>)
MUNGE = z3.Function("munged", z3.StringSort(), z3.StringSort())
ALLOW_INDIRECTION = z3.Function("allow_var_indirection", V.Val, z3.BoolSort())
CURRENT_NS = z3.Const("current_ns", V.Val)
ENV = z3.Const("node_env", V.Val)


class Table:
    """stand-in for the value of Namespace.imports / import_aliases / aliases: used through `in` and `[...]` only"""


def fld(st, obj, name):
    return z3.Select(st.field_array(name), V.Val.a(obj))


def has_class(eng, v, cls):
    return z3.And(V.is_ref(v), V.cls_of(V.Val.a(v)) == eng.class_id(cls))


def add_analyzer(pack, private):
    """``private(st, var)``: the C10 pack's reading of a Var's :private metadata"""
    from basilisp.lang import runtime as rt, symbol as sym
    from basilisp.lang.compiler import analyzer as an
    from basilisp.lang.compiler import nodes
    from basilisp.lang.compiler.exception import CompilerException
    from basilisp.lang.map import PersistentMap

    NS, VAR, SYM, ACTX = rt.Namespace, rt.Var, sym.Symbol, an.AnalyzerContext
    resolve_bare = getattr(an, "__resolve_bare_symbol")
    resolve_nsd = getattr(an, "__resolve_namespaced_symbol")
    resolve_in_ns = getattr(an, "__resolve_namespaced_symbol_in_ns")
    resolve_nested = getattr(an, "__resolve_nested_symbol")

    def private_lookup():
        from contracts import c10_names

        return c10_names.PRIVATE_LOOKUP

    def name_of(st, s):
        return V.Val.s(fld(st, s, "_name"))

    def ns_name(st, n):
        """Namespace.name: the name of the symbol the namespace is named by"""
        return fld(st, fld(st, n, "_name"), "_name")

    def base_setup(eng, st):
        lib.install(eng)
        lib.install_wrappers(eng)
        for c in (NS, VAR, SYM, ACTX, Table, PersistentMap, an.SymbolTable, an.SymbolTableEntry, nodes.VarRef, nodes.Local, nodes.Binding):
            eng.class_id(c)
        lid = eng.class_id(list)
        eng.closed_world_classes = True
        eng.opaque_havoc = "none"
        eng.field_types[("Symbol", "_name")] = lambda v: V.is_str(v)
        eng.field_types[("Symbol", "_ns")] = lambda v: z3.Or(V.is_none(v), V.is_str(v))
        eng.field_types[("Namespace", "_name")] = lambda v: (has_class(eng, v, SYM), SYM)
        eng.field_types[("Var", "_name")] = lambda v: (has_class(eng, v, SYM), SYM)
        eng.field_types[("Var", "_ns")] = lambda v: (has_class(eng, v, NS), NS)
        eng.field_types[("Var", "_meta")] = lambda v: (z3.Or(V.is_none(v), has_class(eng, v, PersistentMap)), None)
        for f in ("_is_quoted", "_st", "_syntax_pos"):
            eng.field_types[("AnalyzerContext", f)] = lambda v: (z3.And(V.is_ref(v), V.cls_of(V.Val.a(v)) == lid), list)

        def find(e, s, a, k):
            self, key = e.lift(a[0], s), e.lift(a[1], s)
            e.oblige(s, "the symbol looked up in a namespace is unqualified", V.is_none(fld(s, key, "_ns")), "pre", 0)
            r = FIND(self, name_of(s, key))
            s.assume(z3.Or(V.is_none(r), z3.And(has_class(e, r, VAR), V.Val.a(r) <= 0)))
            yield s, SV(r)

        eng.method_models[(NS, "find")] = Model("Namespace.find (first part of this pack; a function of the namespace and the symbol's name)", find)

        def ns_get(e, s, a, k):
            key = e.lift(a[-1], s)
            r = NS_NAMED(name_of(s, key))
            s.assume(z3.Or(V.is_none(r), z3.And(has_class(e, r, NS), V.Val.a(r) <= 0)))
            yield s, SV(r)

        eng.method_models[(NS, "get")] = Model("Namespace.get (the registry of namespaces, by name)", ns_get)
        eng.models[id(NS.get.__func__)] = eng.method_models[(NS, "get")]

        def current(e, s, a, k):
            s.assume(has_class(e, CURRENT_NS, NS), V.Val.a(CURRENT_NS) <= 0)
            yield s, SV(CURRENT_NS, hint=NS)

        eng.models[id(rt.get_current_ns)] = Model("get_current_ns", current)

        def node_env(e, s, a, k):
            s.assume(V.is_ref(ENV), V.Val.a(ENV) <= 0)
            yield s, SV(ENV)

        eng.method_models[(ACTX, "get_node_env")] = Model("AnalyzerContext.get_node_env (opaque)", node_env)
        pos = Model("AnalyzerContext.syntax_position (opaque)", lambda e, s, a, k: iter([(s, SV(V.fresh_val("syntax_position")))]))
        pos.is_property = True
        eng.method_models[(ACTX, "syntax_position")] = pos
        eng.models[id(an._is_allow_var_indirection)] = Model("_is_allow_var_indirection (a function of the form)", lambda e, s, a, k: iter([(s, SV(V.mk_bool(ALLOW_INDIRECTION(e.lift(a[0], s)))))]))
        eng.method_models[(ACTX, "AnalyzerException")] = Model("AnalyzerContext.AnalyzerException", lambda e, s, a, k: iter([(s, Exc(CompilerException, tuple(a[1:2])))]))
        from basilisp.lang import util as lutil

        def munge(e, s, a, k):
            t = e.lift(a[0], s)
            yield s, SV(V.mk_str(MUNGE(V.Val.s(t))))

        eng.models[id(lutil.munge)] = Model("munge (a function of the name; its specification is in the first part)", munge)
        eng.models[id(an.munge)] = eng.models[id(lutil.munge)]

    def is_varref(e, st, r, form, var):
        return z3.And(has_class(e, r, nodes.VarRef), fld(st, r, "form") == form, fld(st, r, "var") == var,
                      fld(st, r, "is_allow_var_indirection") == V.mk_bool(ALLOW_INDIRECTION(form)))

    # ------------------------------------------------------------------ Var.find_in_ns / Var.find
    c = pack.contract("basilisp.lang.runtime:Var.find_in_ns")
    c.label = "namespace given by name"
    c.param("ns_or_sym", OBJ(SYM)).param("name_sym", OBJ(SYM))
    c.setup(base_setup)
    c.requires("the looked-up name is unqualified", lambda a: V.is_none(fld(a.pre.st, a.name_sym, "_ns")))
    c.raises()
    c.modifies()
    c.ensures("ns/x is looked up in the namespace registered under ns: nil when there is no such namespace, else what that namespace finds for x",
              lambda a: a.result == z3.If(V.is_none(NS_NAMED(name_of(a.pre.st, a.ns_or_sym))), V.VNone, FIND(NS_NAMED(name_of(a.pre.st, a.ns_or_sym)), name_of(a.pre.st, a.name_sym))))
    c = pack.contract("basilisp.lang.runtime:Var.find_in_ns")
    c.label = "namespace given"
    c.param("ns_or_sym", OBJ(NS)).param("name_sym", OBJ(SYM))
    c.setup(base_setup)
    c.requires("the looked-up name is unqualified", lambda a: V.is_none(fld(a.pre.st, a.name_sym, "_ns")))
    c.raises()
    c.modifies()
    c.ensures("what the namespace finds for x", lambda a: a.result == FIND(a.ns_or_sym, name_of(a.pre.st, a.name_sym)))

    c = pack.contract("basilisp.lang.runtime:Var.find")
    c.param("ns_qualified_sym", OBJ(SYM))
    c.param_value("cls", lambda eng, st: VAR)
    c.setup(base_setup)
    c.requires("the symbol is qualified", lambda a: V.is_str(fld(a.pre.st, a.ns_qualified_sym, "_ns")))
    c.raises()
    c.modifies()

    def var_find_spec(st, s):
        n = NS_NAMED(V.Val.s(fld(st, s, "_ns")))
        return z3.If(V.is_none(n), V.VNone, FIND(n, name_of(st, s)))

    c.ensures("Var.find of ns/x is what the namespace registered under ns finds for x (nil without such a namespace)", lambda a: a.result == var_find_spec(a.pre.st, a.ns_qualified_sym))

    # ------------------------------------------------------------------ the analyzer
    def asetup(eng, st):
        base_setup(eng, st)

        def var_find(e, s, a, k):
            # by contract (above)
            q = e.lift(a[-1], s)
            e.oblige(s, "Var.find is given a qualified symbol", V.is_str(fld(s, q, "_ns")), "pre", 0)
            r = var_find_spec(s, q)
            s.assume(z3.Or(V.is_none(r), z3.And(has_class(e, r, VAR), V.Val.a(r) <= 0)))
            yield s, SV(r)

        eng.method_models[(VAR, "find")] = Model("Var.find (by contract)", var_find)
        eng.models[id(VAR.find.__func__)] = eng.method_models[(VAR, "find")]

        def var_find_in_ns(e, s, a, k):
            n, key = e.lift(a[-2], s), e.lift(a[-1], s)
            e.oblige(s, "the symbol looked up in a namespace is unqualified", V.is_none(fld(s, key, "_ns")), "pre", 0)
            r = FIND(n, name_of(s, key))
            s.assume(z3.Or(V.is_none(r), z3.And(has_class(e, r, VAR), V.Val.a(r) <= 0)))
            yield s, SV(r)

        eng.method_models[(VAR, "find_in_ns")] = Model("Var.find_in_ns with a namespace (by contract)", var_find_in_ns)
        eng.models[id(VAR.find_in_ns)] = eng.method_models[(VAR, "find_in_ns")]

        def val_at(e, s, a, k):
            # v.meta.val_at(:private, False): only its truthiness is used; the C10 pack's reading of a Var's :private metadata
            if a[1] is not an.SYM_PRIVATE_META_KEY:
                raise Unsupported("val_at with a key other than :private")
            inner = fld(s, e.lift(a[0], s), "_inner")
            yield s, SV(V.mk_bool(private_lookup()(V.Val.a(inner))))

        eng.method_models[(PersistentMap, "val_at")] = Model("meta.val_at(:private) (truthiness)", val_at)

        def table_prop(kind):
            def model(e, s, a, k):
                t = e.alloc(s, Table)
                s.ghost.setdefault("tables", {})[str(z3.simplify(t.t))] = (kind, e.lift(a[0], s))
                yield s, SV(t.t, hint=Table)

            m = Model(f"Namespace.{kind} (used through `in` and [...] only)", model)
            m.is_property = True
            return m

        for kind in ("imports", "import_aliases", "aliases"):
            eng.method_models[(NS, kind)] = table_prop(kind)

        def which(s, t):
            return s.ghost.get("tables", {}).get(str(z3.simplify(t)))

        def table_contains(e, s, a, k):
            kind, ns = which(s, a[0].t)
            key = e.lift(a[1], s)
            n = name_of(s, key)
            fn = {"aliases": HAS_ALIAS, "imports": IN_IMPORTS, "import_aliases": IN_IMPORT_ALIASES}[kind]
            yield s, SV(V.mk_bool(fn(ns, n)))

        def table_getitem(e, s, a, k):
            kind, ns = which(s, a[0].t)
            key = e.lift(a[1], s)
            if kind != "aliases":
                raise Unsupported(f"Namespace.{kind}[...]")
            r = ALIAS_OF(ns, name_of(s, key))
            s.assume(has_class(e, r, NS), V.Val.a(r) <= 0)
            yield s, SV(r, hint=NS)

        eng.method_models[(Table, "__contains__")] = Model("<name table>.__contains__", table_contains)
        eng.method_models[(Table, "__getitem__")] = Model("<name table>.__getitem__", table_getitem)

    # ---- locals shadow Vars
    CONSTNODE = z3.Function("const_node_of", V.Val, V.Val)
    RESOLVED = z3.Function("resolve_sym_result", V.Val, V.Val)

    def sn_setup(eng, st):
        asetup(eng, st)
        eng.models[id(an._const_node)] = Model("_const_node", lambda e, s, a, k: iter([(s, SV(CONSTNODE(e.lift(a[0], s))))]))

        def resolve(e, s, a, k):
            s.ghost["resolve_calls"] = list(s.ghost.get("resolve_calls", [])) + [(e.lift(a[0], s), e.lift(a[1], s))]
            yield s, SV(RESOLVED(e.lift(a[1], s)))

        eng.models[id(an._resolve_sym)] = Model("_resolve_sym (its parts are under contract below)", resolve)

        def find_symbol(e, s, a, k):
            tbl, key = e.lift(a[0], s), e.lift(a[1], s)
            r = LOCAL(tbl, fld(s, key, "_ns"), name_of(s, key))
            s.assume(z3.Or(V.is_none(r), z3.And(has_class(e, r, an.SymbolTableEntry), V.Val.a(r) <= 0)))
            s.ghost["lookups"] = list(s.ghost.get("lookups", [])) + [(tbl, key)]
            yield s, SV(r)

        eng.method_models[(an.SymbolTable, "find_symbol")] = Model("SymbolTable.find_symbol (a function of the table and the symbol)", find_symbol)
        eng.method_models[(an.SymbolTable, "mark_used")] = Model("SymbolTable.mark_used (bookkeeping for warnings)", lambda e, s, a, k: iter([(s, None)]))
        eng.field_types[("SymbolTableEntry", "binding")] = lambda v: (has_class(eng, v, nodes.Binding), nodes.Binding)

    c = pack.contract("basilisp.lang.compiler.analyzer:_symbol_node")
    c.param("form", OBJ(SYM)).param("ctx", OBJ(ACTX))
    c.setup(sn_setup)
    def has_table(a):
        stk = z3.Select(a.pre.st.lists, V.Val.a(fld(a.pre.st, a.ctx, "_st")))
        top = stk[z3.Length(stk) - 1]
        return z3.And(z3.Length(stk) >= 1, has_class(a.eng, top, an.SymbolTable), V.Val.a(top) <= 0)

    c.requires("the analyzer has a symbol table", has_table)
    c.raises()

    def sn_post(a):
        e, pre, st = a.eng, a.pre.st, a.post.st
        q = z3.Select(pre.lists, V.Val.a(fld(pre, a.ctx, "_is_quoted")))
        quoted = z3.And(z3.Length(q) > 0, q[z3.Length(q) - 1] == V.mk_bool(True))
        stk = z3.Select(pre.lists, V.Val.a(fld(pre, a.ctx, "_st")))
        tbl = stk[z3.Length(stk) - 1]
        entry = LOCAL(tbl, fld(pre, a.form, "_ns"), name_of(pre, a.form))
        calls = st.ghost.get("resolve_calls", [])
        if len(calls) > 1:
            return z3.BoolVal(False)
        if calls:
            cctx, cform = calls[0]
            return z3.And(z3.Not(quoted), V.is_none(entry), a.result == RESOLVED(a.form), cctx == a.ctx, cform == a.form)
        local = z3.And(has_class(e, a.result, nodes.Local), fld(st, a.result, "form") == a.form, fld(st, a.result, "name") == fld(pre, a.form, "_name"),
                       fld(st, a.result, "local") == fld(pre, fld(pre, entry, "binding"), "local"), fld(st, a.result, "is_assignable") == fld(pre, fld(pre, entry, "binding"), "is_assignable"))
        return z3.If(quoted, a.result == CONSTNODE(a.form), z3.And(z3.Not(V.is_none(entry)), local))

    c.ensures("locals shadow Vars: a symbol bound in the innermost symbol table (or an enclosing one) is a Local node of that binding and no Var is looked up; "
              "a quoted symbol is a constant; only an unbound, unquoted symbol is resolved as a Var or host name", sn_post)

    # ---- a bare symbol
    c = pack.contract("basilisp.lang.compiler.analyzer:__resolve_bare_symbol")
    c.label = "the current namespace finds a Var"
    c.param("ctx", OBJ(ACTX)).param("form", OBJ(SYM))
    c.setup(asetup)
    c.requires("the symbol is unqualified and the current namespace finds a Var for it",
               lambda a: z3.And(V.is_none(fld(a.pre.st, a.form, "_ns")), z3.Not(V.is_none(FIND(CURRENT_NS, name_of(a.pre.st, a.form))))))
    c.raises()
    c.ensures("a bare symbol denotes exactly the Var the current namespace finds for it (interned, else referred)",
              lambda a: is_varref(a.eng, a.post.st, a.result, a.form, FIND(CURRENT_NS, name_of(a.pre.st, a.form))))

    # ---- a namespaced symbol
    def not_dotted(a):
        return z3.Not(z3.PrefixOf(z3.StringVal("."), name_of(a.pre.st, a.form)))

    c = pack.contract("basilisp.lang.compiler.analyzer:__resolve_namespaced_symbol")
    c.label = "qualified with the current namespace"
    c.param("ctx", OBJ(ACTX)).param("form", OBJ(SYM))
    c.setup(asetup)
    c.requires("the symbol is qualified with the current namespace's name, which finds a Var for it",
               lambda a: z3.And(V.is_str(fld(a.pre.st, a.form, "_ns")), not_dotted(a), fld(a.pre.st, a.form, "_ns") == ns_name(a.pre.st, CURRENT_NS),
                                z3.Not(V.is_none(FIND(CURRENT_NS, name_of(a.pre.st, a.form))))))
    c.raises()
    c.ensures("this-ns/x denotes the same Var as the bare x: the one the current namespace finds",
              lambda a: is_varref(a.eng, a.post.st, a.result, a.form, FIND(CURRENT_NS, name_of(a.pre.st, a.form))))

    c = pack.contract("basilisp.lang.compiler.analyzer:__resolve_namespaced_symbol")
    c.label = "fully qualified with another namespace"
    c.param("ctx", OBJ(ACTX)).param("form", OBJ(SYM))
    c.setup(asetup)
    c.requires("the symbol is qualified with the name of another namespace (not the host-builtins pseudo namespace) in which Var.find finds a Var",
               lambda a: z3.And(V.is_str(fld(a.pre.st, a.form, "_ns")), not_dotted(a), fld(a.pre.st, a.form, "_ns") != ns_name(a.pre.st, CURRENT_NS),
                                fld(a.pre.st, a.form, "_ns") != V.mk_str(an._BUILTINS_NS), z3.Not(V.is_none(var_find_spec(a.pre.st, a.form)))))
    c.raises(CompilerException)
    c.raises_only_if("a private Var cannot be reached from another namespace", (CompilerException,), lambda a: private(a.pre.st, var_find_spec(a.pre.st, a.form)))
    c.ensures("other.ns/x denotes the Var that namespace finds for x - and only if that Var is not private",
              lambda a: z3.And(z3.Not(private(a.pre.st, var_find_spec(a.pre.st, a.form))), is_varref(a.eng, a.post.st, a.result, a.form, var_find_spec(a.pre.st, a.form))))

    # ---- through an alias
    c = pack.contract("basilisp.lang.compiler.analyzer:__resolve_namespaced_symbol_in_ns")
    c.label = "through a namespace alias"
    c.param("ctx", OBJ(ACTX)).param("which_ns", OBJ(NS)).param("form", OBJ(SYM))
    c.setup(asetup)

    def alias_pre(a):
        nsp = V.Val.s(fld(a.pre.st, a.form, "_ns"))
        return z3.And(V.is_str(fld(a.pre.st, a.form, "_ns")), HAS_ALIAS(a.which_ns, nsp), z3.Not(IN_IMPORTS(a.which_ns, MUNGE(nsp))), z3.Not(IN_IMPORT_ALIASES(a.which_ns, nsp)))

    c.requires("the symbol's namespace part is an alias of the namespace (and, as the code tests first, not the name of an import)", alias_pre)
    c.raises(CompilerException)

    def alias_target(a):
        return FIND(ALIAS_OF(a.which_ns, V.Val.s(fld(a.pre.st, a.form, "_ns"))), name_of(a.pre.st, a.form))

    def alias_post(a):
        v = alias_target(a)
        return z3.And(z3.Not(V.is_none(v)), z3.Not(private(a.pre.st, v)), is_varref(a.eng, a.post.st, a.result, a.form, v))

    c.ensures("alias/x denotes the Var the aliased namespace finds for x - the same Var its full name denotes - and only if it exists and is not private", alias_post)
    c.ensures_on_raise("the only errors on this path: no such Var, or a private one", lambda a: z3.Or(V.is_none(alias_target(a)), private(a.pre.st, alias_target(a))))
    for c_ in pack.contracts:
        if c_.replay_ is None and (c_.key.startswith("basilisp.lang.compiler.analyzer:") or c_.key.startswith("basilisp.lang.runtime:Var.find")):
            c_.replay(lambda m, ctx, ob: RESOLVE_REPLAY)
            c_.replay_without_model = True


RESOLVE_REPLAY = r'''
import io
from basilisp import main as bm
bm.init()
from basilisp.lang import compiler, reader, runtime as rt, symbol as sym
import basilisp.core  # noqa
S = sym.symbol
bad = []
def chk(desc, got, want):
    if got != want:
        bad.append('%s: expected %r, got %r' % (desc, want, got))
def ev(code, ns_name):
    ns = rt.Namespace.get_or_create(S(ns_name))
    with rt.ns_bindings(ns_name):
        ctx = compiler.CompilerContext("<replay>")
        last = None
        for form in reader.read_str(code, rt.resolve_alias):
            last = compiler.compile_and_exec_form(form, ctx, ns)
        return last
try:
    ev("(ns c10r.lib) (def pub 1) (def ^:private priv 2) (def shadow 3) (def only-lib 5)", "c10r.boot")
    ev("(ns c10r.user (:require [c10r.lib :as l :refer [pub]])) (def mine 10) (def shadow 30)", "c10r.boot")
    chk('alias/x is the aliased namespace\'s x', ev("l/only-lib", "c10r.user"), 5)
    chk('alias/x where both namespaces have an x', ev("[shadow l/shadow c10r.lib/shadow c10r.user/shadow]", "c10r.user"), ev("[30 3 3 30]", "c10r.user"))
    chk('bare referred', ev("pub", "c10r.user"), 1)
    chk('through the alias', ev("l/pub", "c10r.user"), 1)
    chk('fully qualified', ev("c10r.lib/pub", "c10r.user"), 1)
    chk('bare interned', ev("mine", "c10r.user"), 10)
    chk('qualified with the current namespace', ev("c10r.user/mine", "c10r.user"), 10)
    chk('a local shadows a Var', ev("(let [mine 11] mine)", "c10r.user"), 11)
    chk('a parameter shadows a referred Var', ev("((fn [pub] pub) 12)", "c10r.user"), 12)
    for code in ("l/priv", "c10r.lib/priv"):
        try:
            r = ev(code, "c10r.user")
            bad.append('%s: a private Var was reached from another namespace (value %r)' % (code, r))
        except compiler.CompilerException:
            pass
    try:
        ev("l/nothing", "c10r.user")
        bad.append('l/nothing resolved')
    except compiler.CompilerException:
        pass
    chk('same Var whichever way it is written', ev("(= (var pub) (var l/pub) (var c10r.lib/pub))", "c10r.user"), True)
except BaseException as e:
    bad.append('unexpected %s: %s' % (type(e).__name__, e))
for line in bad[:10]:
    print(line)
print('REPRODUCED' if bad else 'not reproduced')
'''
