"""C08 - calls bind arguments to the right arity however the call is made (the run-time half).

Arity dispatch itself is *generated* code (the generator emits one Python function per arity and a
dispatcher) and is not reachable by a contract on /repo's Python sources; what is reachable is the
run-time machinery the property names for ``apply`` and ``partial``:

* ``runtime._fn_apply_to`` - the ``apply_to`` method every compiled function gets.  For a variadic
  function it must hand the function its fixed parameters as ordinary arguments, *taking from the
  argument sequence only as many elements as the fixed parameters still need*, and pass what is
  left - unrealised - as one wrapped rest argument (none when nothing is left);
* ``runtime.apply`` - leading arguments in order, then the elements of the final sequence;
* ``runtime._unwrap_rest_args`` - what the variadic function receives is the surplus arguments in
  order followed by the unrealised rest;
* ``runtime.partial`` - the stored arguments come first, in order, then the call's own.

The argument sequence is abstract (``LSeq``): FIRST / REST / NONEMPTY are uninterpreted, so the
proofs hold for finite, lazy and infinite sequences alike; every access to the sequence is
recorded, which is how "realises only as much as needed" is stated.  Fixed arities are verified
for max_fixed_arity and leading-argument counts 0..3 (stated per contract; each instance is a
proof for all values).  The functions that *return* functions are exercised through the thin
drivers in ``drivers_c08.py``.
"""
import z3

from pyvc import vals as V
from pyvc import lib
from pyvc.contract import Pack, T, OBJ, ANY
from pyvc.engine import SV, Model, Raise, Exc, Unsupported

FIRST = z3.Function("seq_first", V.Val, V.Val)
REST = z3.Function("seq_rest", V.Val, V.Val)
NONEMPTY = z3.Function("seq_nonempty", V.Val, z3.BoolSort())
CONCAT = z3.Function("lazy_concat", V.ValSeq, V.Val, V.Val)  # runtime.concat(list of leading items, tail seq)


class LSeq:
    """stand-in for an ISeq value (list, lazy seq, infinite seq ...): only first / rest / emptiness are used"""


class BFn:
    """stand-in for a compiled basilisp function: an opaque callable carrying the attributes the decorator sets"""

    __slots__ = ("_basilisp_fn", "apply_to", "arities", "meta", "with_meta")


def nth_rest(s, i):
    for _ in range(i):
        s = REST(s)
    return s


def setup(eng, st):
    from basilisp.lang import runtime as rt

    lib.install(eng)
    lsid = eng.class_id(LSeq)
    eng.class_id(BFn)
    eng.class_id(rt._WrappedRestArgs)
    eng.class_id(PlainFn)
    eng.closed_world_classes = True  # arguments known only through isinstance tests are instances of the classes registered here
    eng.opaque_havoc = "none"

    def seq_first(e, s, a, k):
        x = e.lift(a[0], s)
        s.ghost["seq_touched"] = list(s.ghost.get("seq_touched", [])) + [("first", x)]
        r = FIRST(x)
        s.assume(e.external_ref_fact(s, r))
        yield s, SV(r)

    def seq_rest(e, s, a, k):
        x = e.lift(a[0], s)
        s.ghost["seq_touched"] = list(s.ghost.get("seq_touched", [])) + [("rest", x)]
        r = REST(x)
        s.assume(V.is_ref(r), V.Val.a(r) <= 0, V.cls_of(V.Val.a(r)) == lsid)
        yield s, SV(r, hint=LSeq)

    for nm, fn in (("first", seq_first), ("rest", seq_rest)):
        m = Model("ISeq." + nm, fn)
        m.is_property = True
        eng.method_models[(LSeq, nm)] = m

    def to_seq(e, s, a, k):
        # trusted: to_seq of a seq is the seq itself when it has an element, nil otherwise (it looks at no more than that)
        x = a[0]
        if x is None:
            yield s, None
            return
        if not (isinstance(x, SV) and x.hint is LSeq):
            raise Unsupported("to_seq of something that is not the abstract argument sequence")
        s.ghost["seq_touched"] = list(s.ghost.get("seq_touched", [])) + [("empty?", x.t)]
        for s1, ne in e.branch(NONEMPTY(x.t), s):
            yield s1, (x if ne else None)

    eng.models[id(rt.to_seq)] = Model("runtime.to_seq", to_seq)

    def concat(e, s, a, k):
        # runtime.concat(leading, tail): a lazy seq of the leading items followed by the tail (trusted; native lazy seq)
        lead, tail = a
        if isinstance(lead, SV):
            its = None
            for s_, items in e.iter_concrete(lead, s):
                its = items
                break
            lead = its
        if not isinstance(lead, (list, tuple)):
            raise Unsupported("concat of a leading collection of symbolic length")
        ts = [e.lift(x, s) for x in lead]
        sq = z3.Empty(V.ValSeq) if not ts else (z3.Unit(ts[0]) if len(ts) == 1 else z3.Concat(*[z3.Unit(t) for t in ts]))
        if isinstance(tail, SV) and tail.hint is list:
            for s_, items in e.iter_concrete(tail, s):
                tail = items
                break
        if isinstance(tail, (list, tuple)):
            tail_t = CONCAT(z3.Concat(*[z3.Unit(e.lift(x, s)) for x in tail]) if len(tail) > 1 else (z3.Unit(e.lift(tail[0], s)) if tail else z3.Empty(V.ValSeq)), V.VNone)
        else:
            tail_t = e.lift(tail, s)
        r = CONCAT(sq, tail_t)
        s.assume(V.is_ref(r), V.Val.a(r) <= 0, V.cls_of(V.Val.a(r)) == lsid)
        yield s, SV(r, hint=LSeq)

    eng.models[id(rt.concat)] = Model("runtime.concat", concat)


def calls_to(a, f):
    return [c for c in a.post.st.calls if z3.eq(z3.simplify(c[0]), z3.simplify(f))]


def build(active_known=frozenset()):
    from basilisp.lang import runtime as rt

    pack = Pack("C08", "Calls bind arguments to the right arity however the call is made")
    pack.common_setup.append(setup)
    pack.trust("to_seq(s) of a seq is s when it has an element and nil otherwise; runtime.concat(leading, tail) is the lazy sequence of the leading items followed by tail (both native / lazy: not under contract)")
    pack.assume("arity dispatch is generated code and is not under contract; fixed arities are verified for max_fixed_arity and leading-argument counts 0..3; plain Python callables (no apply_to) are not covered")
    drv = "contracts.drivers_c08:"
    REST_KW = rt._REST_KW

    # ------------------------------------------------------------------ apply_to of a variadic function
    for M in range(0, 4):
        for kargs in range(0, 4):
            c = pack.contract(drv + "call_apply_to")
            c.label = f"variadic, max fixed arity {M}, {kargs} leading argument(s)"
            c.param("f", OBJ(BFn)).param("rest", OBJ(LSeq))
            c.param_value("arities", lambda eng, st, M=M: tuple(range(M + 1)) + (REST_KW,))
            c.param_value("max_fixed_arity", lambda eng, st, M=M: M)

            def mk_args(eng, st, kargs=kargs):
                ts = [z3.Const(f"lead{i}", V.Val) for i in range(kargs)]
                for t in ts:
                    st.assume(eng.external_ref_fact(st, t))
                return eng.new_list(st, [SV(t) for t in ts])

            c.param_value("args", mk_args)
            c.requires("apply only calls apply_to with a non-empty rest sequence", lambda a: NONEMPTY(a.rest))
            c.allow_callback_exceptions = True

            def post(a, M=M, kargs=kargs):
                calls = calls_to(a, a.f)
                if len(calls) != 1:
                    return z3.BoolVal(False)
                targs = calls[0][1]
                lead = [z3.Const(f"lead{i}", V.Val) for i in range(kargs)]
                missing = max(M - kargs, 0)
                st = a.post.st
                alts = []
                for t in range(0, missing + 1):
                    taken_ok = z3.And(*[NONEMPTY(nth_rest(a.rest, i)) for i in range(t)], z3.BoolVal(True) if t == missing else z3.Not(NONEMPTY(nth_rest(a.rest, t))))
                    more = NONEMPTY(nth_rest(a.rest, t))
                    for wrapped in (True, False):
                        if len(targs) != kargs + t + (1 if wrapped else 0):
                            continue
                        eqs = [targs[i] == lead[i] for i in range(kargs)] + [targs[kargs + i] == FIRST(nth_rest(a.rest, i)) for i in range(t)]
                        if wrapped:
                            w = targs[-1]
                            eqs += [V.is_ref(w), V.cls_of(V.Val.a(w)) == a.eng.class_id(rt._WrappedRestArgs),
                                    z3.Select(st.field_array("rest"), V.Val.a(w)) == nth_rest(a.rest, t)]
                        # when fixed parameters were still missing, a wrapped rest is passed exactly if something is left
                        cond = [taken_ok] + ([more == wrapped] if missing > 0 else [z3.BoolVal(wrapped)])
                        alts.append(z3.And(*cond, *eqs))
                return z3.Or(*alts) if alts else z3.BoolVal(False)

            c.ensures("the function is called exactly once: leading arguments in order, then as many elements of the sequence as the fixed "
                      "parameters still need (in order), then - only if something is left - the unrealised remainder as one wrapped rest argument", post)

            def lazy(a, M=M, kargs=kargs):
                touched = a.post.st.ghost.get("seq_touched", [])
                missing = max(M - kargs, 0)
                allowed = [nth_rest(a.rest, i) for i in range(missing + 1)]
                oks = []
                for kind, x in touched:
                    limit = missing if kind != "empty?" else missing + 1  # first/rest only of the elements taken; emptiness also of what is left
                    oks.append(z3.Or(*[x == y for y in allowed[:limit]]) if allowed[:limit] else z3.BoolVal(False))
                return z3.And(*oks) if oks else z3.BoolVal(True)

            c.ensures("only the part of the sequence that binds the fixed parameters is realised: first / rest are taken of at most the elements handed over, "
                      "and emptiness is tested no further than the element after them", lazy)

    # ------------------------------------------------------------------ runtime.apply on a compiled variadic function
    for M, nlead, through_var in ((0, 0, False), (0, 2, False), (2, 0, False), (2, 1, False), (2, 3, False), (0, 0, True), (2, 1, True)):
        c = pack.contract(drv + ("call_apply_var" if through_var else "call_apply"))
        c.label = f"variadic, max fixed arity {M}, {nlead} leading argument(s) before the final sequence" + (", through the function's Var" if through_var else "")
        c.param("f", OBJ(BFn))
        if through_var:
            c.param("v", OBJ(rt.Var))

            def vsetup(eng, st):
                eng.class_id(rt.Var)
                fterm = z3.Const("arg.f", V.Val)
                vm = Model("Var.value (the compiled function the Var holds)", lambda e, s, a, k: iter([(s, SV(fterm, hint=BFn))]))
                vm.is_property = True
                eng.method_models[(rt.Var, "value")] = vm

                def var_call(e, s, a, k):
                    # Var.__call__ (contract below): the value is called with the same arguments
                    yield from e.call(SV(fterm, hint=BFn), list(a[1:]), dict(k), s)

                eng.method_models[(rt.Var, "__call__")] = Model("Var.__call__ (by contract)", var_call)

            c.setup(vsetup)
            c.replay(lambda m, ctx, ob: CALLS_REPLAY)
            c.replay_without_model = True
        c.param_value("arities", lambda eng, st, M=M: tuple(range(M + 1)) + (REST_KW,))
        c.param_value("max_fixed_arity", lambda eng, st, M=M: M)

        def mk_apply_args(eng, st, nlead=nlead):
            ts = [z3.Const(f"lead{i}", V.Val) for i in range(nlead)]
            last = z3.Const("last.seq", V.Val)
            for t in ts + [last]:
                st.assume(eng.external_ref_fact(st, t))
            st.assume(V.is_ref(last), V.cls_of(V.Val.a(last)) == eng.class_id(LSeq))
            return tuple(SV(t) for t in ts) + (SV(last, hint=LSeq),)

        c.param_value("args", mk_apply_args)
        c.requires("f is a compiled function", lambda a: z3.Select(a.pre.st.field_array("_basilisp_fn"), V.Val.a(a.f)) == V.mk_bool(True))
        c.allow_callback_exceptions = True

        def apply_post(a, M=M, nlead=nlead):
            last = z3.Const("last.seq", V.Val)
            calls = calls_to(a, a.f)
            if len(calls) != 1:
                return z3.BoolVal(False)
            targs = calls[0][1]
            lead = [z3.Const(f"lead{i}", V.Val) for i in range(nlead)]
            missing = max(M - nlead, 0)
            st = a.post.st
            alts = []
            # an empty final sequence: just the leading arguments
            if len(targs) == nlead:
                alts.append(z3.And(z3.Not(NONEMPTY(last)), *[targs[i] == lead[i] for i in range(nlead)]))
            for t in range(0, missing + 1):
                taken_ok = z3.And(NONEMPTY(last), *[NONEMPTY(nth_rest(last, i)) for i in range(t)], z3.BoolVal(True) if t == missing else z3.Not(NONEMPTY(nth_rest(last, t))))
                more = NONEMPTY(nth_rest(last, t))
                for wrapped in (True, False):
                    if len(targs) != nlead + t + (1 if wrapped else 0):
                        continue
                    eqs = [targs[i] == lead[i] for i in range(nlead)] + [targs[nlead + i] == FIRST(nth_rest(last, i)) for i in range(t)]
                    if wrapped:
                        w = targs[-1]
                        eqs += [V.is_ref(w), V.cls_of(V.Val.a(w)) == a.eng.class_id(rt._WrappedRestArgs), z3.Select(st.field_array("rest"), V.Val.a(w)) == nth_rest(last, t)]
                    cond = [taken_ok] + ([more == wrapped] if missing > 0 else [z3.BoolVal(wrapped)])
                    alts.append(z3.And(*cond, *eqs))
            return z3.And(z3.Or(*alts) if alts else z3.BoolVal(False), z3.BoolVal(True) if isinstance(calls[0][3], Exc) else a.result == calls[0][3])

        c.ensures("apply calls the function exactly once with the leading arguments in order, then the elements of the final sequence that the fixed "
                  "parameters still need, then the unrealised remainder (if any) as the wrapped rest argument - and returns the function's result", apply_post)

    # (apply_to of a function without a rest arity is f(*concat(args, rest)): it spreads a sequence of unknown length,
    # which is outside the executor's reach - not claimed)

    # ------------------------------------------------------------------ _unwrap_rest_args: what a variadic function receives
    for n in (1, 2, 3):
        for wrapped in (True, False):
            c = pack.contract("basilisp.lang.runtime:_unwrap_rest_args")
            c.label = f"{n} surplus argument(s), last one {'a wrapped rest' if wrapped else 'an ordinary argument'}"

            def mk(eng, st, n=n, wrapped=wrapped):
                ts = [z3.Const(f"x{i}", V.Val) for i in range(n)]
                for t in ts:
                    st.assume(eng.external_ref_fact(st, t))
                if wrapped:
                    st.assume(V.is_ref(ts[-1]), V.cls_of(V.Val.a(ts[-1])) == eng.class_id(rt._WrappedRestArgs))
                    return tuple(SV(t) for t in ts[:-1]) + (SV(ts[-1], hint=rt._WrappedRestArgs),)
                st.assume(z3.Not(z3.And(V.is_ref(ts[-1]), V.cls_of(V.Val.a(ts[-1])) == eng.class_id(rt._WrappedRestArgs))))
                return tuple(SV(t) for t in ts)

            c.param_value("args", mk)
            c.raises()

            def post(a, n=n, wrapped=wrapped):
                xs = [z3.Const(f"x{i}", V.Val) for i in range(n)]
                lead = xs[:-1]
                sq = z3.Empty(V.ValSeq) if not lead else (z3.Unit(lead[0]) if len(lead) == 1 else z3.Concat(*[z3.Unit(t) for t in lead]))
                if wrapped:
                    tail = z3.Select(a.pre.st.field_array("rest"), V.Val.a(xs[-1]))
                else:
                    tail = CONCAT(z3.Unit(xs[-1]), V.VNone)
                return a.result == CONCAT(sq, tail)

            c.ensures("the rest parameter is the surplus arguments in order followed by the (still unrealised) wrapped remainder, or by the last argument itself", post)

    # ------------------------------------------------------------------ partial
    for name, na, nb in (("call_partial_1_1", 1, 1), ("call_partial_2_2", 2, 2), ("call_partial_0_1", 0, 1)):
        c = pack.contract(drv + name)
        c.param("f", OBJ(PlainFn))
        c.allow_callback_exceptions = True

        def post(a, na=na, nb=nb):
            calls = calls_to(a, a.f)
            if len(calls) != 1:
                return z3.BoolVal(False)
            targs, kwargs, res = calls[0][1], calls[0][2], calls[0][3]
            want = [getattr(a, f"a{i}") for i in range(na)] + [getattr(a, f"b{i}") for i in range(nb)]
            return z3.And(z3.BoolVal(len(targs) == len(want) and not kwargs), *[x == y for x, y in zip(targs, want)],
                          a.result == res if not isinstance(res, Exc) else z3.BoolVal(True))

        c.ensures("the partial application calls f exactly once with the stored arguments in order followed by the call's own, and returns its result", post)

    # ------------------------------------------------------------------ recur into a variadic arity: the rest parameter
    # `recur` hands the trampoline the new arguments; for a variadic arity the last one is the new value of the rest
    # parameter.  From the property: the rest parameter is a sequence of the surplus arguments, *nil when there are none*
    # - so a nil rest must come out as "no surplus arguments", not as one surplus argument that is nil.
    TA = rt._TrampolineArgs

    def ta_setup(eng, st):
        eng.class_id(TA)
        tid = eng.class_id(tuple)
        eng.field_types[("_TrampolineArgs", "_args")] = lambda v: (z3.And(V.is_ref(v), V.cls_of(V.Val.a(v)) == tid), tuple)
        eng.field_types[("_TrampolineArgs", "_has_varargs")] = lambda v: V.is_bool(v)

    for n in (1, 2, 3):
        c = pack.contract("basilisp.lang.runtime:_TrampolineArgs.args")
        c.label = f"variadic arity, {n - 1} fixed argument(s) and a nil rest"
        c.param("self", OBJ(TA))
        c.setup(ta_setup)

        def pre(a, n=n):
            st = a.pre.st
            items = V.seq_of(V.Val.a(z3.Select(st.field_array("_args"), V.Val.a(a.self))))
            return z3.And(z3.Select(st.field_array("_has_varargs"), V.Val.a(a.self)) == V.mk_bool(True), z3.Length(items) == n, V.is_none(items[n - 1]))

        c.requires("the function recurred into is variadic and the new rest value is nil", pre)
        c.raises()

        def post(a, n=n):
            st = a.pre.st
            items = V.seq_of(V.Val.a(z3.Select(st.field_array("_args"), V.Val.a(a.self))))
            out = V.seq_of(V.Val.a(a.result))
            return z3.And(V.is_ref(a.result), z3.Length(out) == n - 1, *[out[i] == items[i] for i in range(n - 1)])

        c.ensures("the function is re-entered with the fixed arguments only, so that its rest parameter is nil again (not a sequence holding nil)", post)

    c = pack.contract("basilisp.lang.runtime:_TrampolineArgs.args")
    c.label = "fixed arity"
    c.param("self", OBJ(TA))
    c.setup(ta_setup)
    c.requires("the function recurred into is not variadic", lambda a: z3.Select(a.pre.st.field_array("_has_varargs"), V.Val.a(a.self)) == V.mk_bool(False))
    c.raises()
    c.modifies()
    c.ensures("the arguments are passed on as they are", lambda a: a.result == z3.Select(a.pre.st.field_array("_args"), V.Val.a(a.self)))

    # ------------------------------------------------------------------ a call through the Var
    from pyvc.contract import STAR

    VALUE = z3.Const("the.vars.value", V.Val)
    KV = z3.Const("kwarg.k", V.Val)

    def var_setup(eng, st):
        eng.class_id(rt.Var)
        eng.class_id(PlainFn)
        st.assume(V.is_ref(VALUE), V.Val.a(VALUE) <= 0, V.cls_of(V.Val.a(VALUE)) == eng.class_id(PlainFn))
        vm = Model("Var.value (the function the Var holds)", lambda e, s, a, k: iter([(s, SV(VALUE, hint=PlainFn))]))
        vm.is_property = True
        eng.method_models[(rt.Var, "value")] = vm

    c = pack.contract("basilisp.lang.runtime:Var.__call__")
    c.param("self", OBJ(rt.Var)).param("args", STAR(2))
    c.extra_kwargs = {"k": SV(KV)}
    c.setup(var_setup)
    c.allow_callback_exceptions = True

    def var_call_post(a):
        calls = calls_to(a, VALUE)
        if len(calls) != 1:
            return z3.BoolVal(False)
        targs, kwargs, res = calls[0][1], calls[0][2], calls[0][3]
        if len(targs) != 2 or set(kwargs) != {"k"}:
            return z3.BoolVal(False)
        return z3.And(targs[0] == a.args0, targs[1] == a.args1, a.eng.lift(kwargs["k"], a.post.st) == KV, a.result == res if not isinstance(res, Exc) else z3.BoolVal(True))

    c.ensures("calling a Var calls the function it holds exactly once with the same positional arguments in order and the same keyword arguments, and returns its result", var_call_post)
    c.replay(lambda m, ctx, ob: VAR_CALL_REPLAY)
    c.replay_without_model = True

    add_dispatch_generator(pack)
    for c in pack.contracts:
        if c.replay_ is None:
            c.replay(lambda m, ctx, ob: CALLS_REPLAY)
            c.replay_without_model = True
    return pack


def add_dispatch_generator(pack):
    """The one number that ties the *generated* dispatcher to the run-time machinery proved above: ``apply_to`` takes
    ``max_fixed_arity`` leading arguments off the argument sequence before wrapping the rest, so the ``_basilisp_fn``
    decorator emitted for a multi-arity function has to carry exactly the analyzer's ``max_fixed_arity`` (which counts the
    fixed parameters of the variadic arity as well), and the dispatcher's "more arguments than any fixed arity" test has to
    compare against the same number.  Verified on one representative shape of the arity map (arities 1 and 3 plus a
    variadic arity); the number itself is symbolic."""
    import ast as _ast

    from basilisp.lang.compiler import generator as gen

    MFA = z3.Const("arg.max_fixed_arity", V.Val)
    RFA = z3.Const("arg.rest_arity_fixed_arity", V.Val)
    fn_decorator = gen.__dict__["__fn_decorator"]

    def dsetup(eng, st):
        for c_ in (_ast.Call, _ast.keyword, _ast.Constant, _ast.Name, _ast.Compare, _ast.If, _ast.FunctionDef, gen.GeneratedPyAST, gen.GeneratorContext):
            eng.class_id(c_)

        def deco(e, s, a, k):
            s.ghost["decorator_calls"] = list(s.ghost.get("decorator_calls", [])) + [dict((n, e.lift(v, s)) for n, v in k.items())]
            yield s, SV(V.fresh_val("decorator_call_node"))

        eng.models[id(fn_decorator)] = Model("__fn_decorator (contract below)", deco)
        eng.models[id(gen.gen_py_ast)] = Model("gen_py_ast (opaque)", lambda e, s, a, k: iter([(s, SV(V.fresh_val("generated")))]))

        def native(fn):
            # helpers called with concrete arguments only (name generation, dotted-name loading): run as they are
            def model(e, s, a, k):
                if not e.all_concrete(a, k):
                    raise Unsupported(f"{fn.__name__} with symbolic arguments")
                yield s, fn(*a, **k)

            return Model(f"{fn.__name__} (run natively on concrete arguments)", model)

        for fn in (gen.genname, gen._load_attr):
            eng.models[id(fn)] = native(fn)

    c = pack.contract("basilisp.lang.compiler.generator:__multi_arity_dispatch_fn")
    c.label = "arities 1 and 3 plus a variadic arity"
    c.param("ctx", OBJ(gen.GeneratorContext))
    c.param_value("name", lambda eng, st: "f")
    c.param_value("arity_map", lambda eng, st: {1: "f_arity1", 3: "f_arity3"})
    c.param_value("return_tags", lambda eng, st: (None, None, None))
    c.param_value("default_name", lambda eng, st: "f_rest")
    c.param_value("rest_arity_fixed_arity", lambda eng, st: SV(RFA))
    c.param_value("max_fixed_arity", lambda eng, st: SV(MFA))
    c.param_value("meta_node", lambda eng, st: None)
    c.param_value("is_async", lambda eng, st: False)
    c.setup(dsetup)
    c.requires("the arities are integers", lambda a: z3.And(V.is_int(MFA), V.is_int(RFA)))
    c.raises()

    def disp_post(a):
        calls = a.post.st.ghost.get("decorator_calls", [])
        if len(calls) != 1 or "max_fixed_arity" not in calls[0]:
            return z3.BoolVal(False)
        return calls[0]["max_fixed_arity"] == MFA

    c.ensures("the _basilisp_fn decorator of the dispatcher is given exactly the max_fixed_arity handed to the generator (the analyzer's count, which includes the fixed "
              "parameters of the variadic arity): the number apply_to peels off the argument sequence", disp_post)

    # ---- recur inside one arity of a multi-arity function re-enters *that* arity (each arity function is trampolined on
    # its own), so the recur point of an arity has to carry that arity's own variadic-ness: it decides whether the
    # trampoline unrolls the last recur argument into the rest parameter
    from basilisp.lang.compiler import nodes

    VAR1, VAR2 = z3.Bool("arity1.is_variadic"), z3.Bool("arity2.is_variadic")
    LOOP1, LOOP2 = z3.Const("arity1.loop_id", V.Val), z3.Const("arity2.loop_id", V.Val)

    class NullCM:
        """stand-in for the context managers of GeneratorContext: no effect on the block"""

    class RecurPointStandin:
        __slots__ = ("has_recur",)

    def msetup(eng, st):
        dsetup(eng, st)
        for c_ in (nodes.Fn, nodes.FnArity, NullCM, RecurPointStandin):
            eng.class_id(c_)
        objs = []
        for n, (var_, loop_) in enumerate(((VAR1, LOOP1), (VAR2, LOOP2)), start=1):
            # two arity nodes as objects of this run (distinct by construction); their fixed arities are the concrete
            # numbers 1 and 2 (they become keys of a Python dict in the generator), everything else is symbolic
            o = eng.alloc(st, nodes.FnArity)
            eng.store_field(st, o.t, "fixed_arity", V.mk_int(n), None)
            eng.store_field(st, o.t, "is_variadic", V.mk_bool(var_), None)
            eng.store_field(st, o.t, "loop_id", loop_, None)
            eng.store_field(st, o.t, "op", eng.lift(nodes.NodeOp.FN_ARITY, st), None)
            eng.store_field(st, o.t, "tag", V.VNone, None)
            objs.append(o)
        st.ghost["arity_objs"] = objs
        eng.field_types[("FnArity", "is_variadic")] = lambda v: V.is_bool(v)
        eng.field_types[("FnArity", "fixed_arity")] = lambda v: V.is_int(v)
        eng.field_types[("Fn", "is_variadic")] = lambda v: V.is_bool(v)
        eng.method_models[(NullCM, "__enter__")] = Model("context manager __enter__", lambda e, s, a, k: iter([(s, None)]))
        eng.method_models[(NullCM, "__exit__")] = Model("context manager __exit__", lambda e, s, a, k: iter([(s, False)]))
        GC = gen.GeneratorContext
        eng.method_models[(GC, "new_symbol_table")] = Model("GeneratorContext.new_symbol_table", lambda e, s, a, k: iter([(s, e.alloc(s, NullCM))]))

        def new_recur_point(e, s, a, k):
            s.ghost["recur_points"] = list(s.ghost.get("recur_points", [])) + [(e.lift(a[1], s), e.lift(k.get("is_variadic", a[3] if len(a) > 3 else None), s))]
            yield s, e.alloc(s, NullCM)

        eng.method_models[(GC, "new_recur_point")] = Model("GeneratorContext.new_recur_point (recorded)", new_recur_point)
        rp = Model("GeneratorContext.recur_point (some recur point)", lambda e, s, a, k: iter([(s, e.alloc(s, RecurPointStandin))]))
        rp.is_property = True
        eng.method_models[(GC, "recur_point")] = rp
        eng.field_types[("RecurPointStandin", "has_recur")] = lambda v: V.is_bool(v)
        eng.models[id(gen.__dict__["__fn_args_to_py_ast"])] = Model("__fn_args_to_py_ast (opaque)", lambda e, s, a, k: iter([(s, (SV(V.fresh_val("fn_args")), SV(V.fresh_val("varg")), SV(V.fresh_val("body")), []))]))
        eng.models[id(gen._should_gen_safe_python_param_names)] = Model("_should_gen_safe_python_param_names", lambda e, s, a, k: iter([(s, True)]))
        eng.models[id(gen._fn_node)] = Model("_fn_node (opaque)", lambda e, s, a, k: iter([(s, SV(V.fresh_val("fn_def")))]))
        eng.models[id(gen.munge)] = Model("munge (run natively)", lambda e, s, a, k: iter([(s, gen.munge(*a, **k))]))

        def dispatch(e, s, a, k):
            r = e.alloc(s, gen.GeneratedPyAST)
            e.store_field(s, r.t, "node", V.fresh_val("dispatch_node"), None)
            e.store_field(s, r.t, "dependencies", e.lift(e.new_list(s, []), s), None)
            yield s, r

        eng.models[id(gen.__dict__["__multi_arity_dispatch_fn"])] = Model("__multi_arity_dispatch_fn (contract above)", dispatch)

    c = pack.contract("basilisp.lang.compiler.generator:__multi_arity_fn_to_py_ast")
    c.label = "two arities"
    c.param("ctx", OBJ(gen.GeneratorContext)).param("node", OBJ(nodes.Fn))
    c.param_value("arities", lambda eng, st: tuple(st.ghost["arity_objs"]))
    c.param_value("def_name", lambda eng, st: "f")
    c.param_value("meta_node", lambda eng, st: None)
    c.setup(msetup)
    from pyvc import ops as _ops

    def fld_(st, o, f):
        return z3.Select(st.field_array(f), V.Val.a(o))

    c.requires("a multi-arity fn node without kwargs support or a local name, whose arities are fn arities without a return tag",
               lambda a: z3.And(_ops.eq_term(None, fld_(a.pre.st, a.node, "op"), a.eng.lift(nodes.NodeOp.FN, a.pre.st)), V.is_none(fld_(a.pre.st, a.node, "kwarg_support")),
                                V.is_none(fld_(a.pre.st, a.node, "local")), z3.Not(z3.And(VAR1, VAR2)),
                                *[_ops.eq_term(None, fld_(a.pre.st, o.t, "op"), a.eng.lift(nodes.NodeOp.FN_ARITY, a.pre.st)) for o in a.pre.st.ghost["arity_objs"]]))
    c.raises()

    def recur_post(a):
        pts = a.post.st.ghost.get("recur_points", [])
        if len(pts) != 2:
            return z3.BoolVal(False)
        return z3.And(pts[0][0] == LOOP1, pts[0][1] == V.mk_bool(VAR1), pts[1][0] == LOOP2, pts[1][1] == V.mk_bool(VAR2))

    c.ensures("each arity is generated under a recur point of its own loop that carries that arity's own variadic-ness (not the function's): recur inside a fixed arity "
              "passes its arguments on as they are, recur inside the variadic arity unrolls the new rest value", recur_post)

    # ---- the same for the arities of a deftype / reify method: recur inside one arity of a multi-arity method re-enters that arity
    def tsetup(eng, st):
        msetup(eng, st)
        for c_ in (nodes.DefTypeMethod, nodes.DefTypeMethodArity, nodes.Binding):
            eng.class_id(c_)
        eng.field_types[("DefTypeMethodArity", "is_variadic")] = lambda v: V.is_bool(v)
        eng.field_types[("DefTypeMethod", "is_variadic")] = lambda v: V.is_bool(v)
        eng.field_types[("DefTypeMethodArity", "name")] = lambda v: V.is_str(v)
        eng.field_types[("DefTypeMethod", "name")] = lambda v: V.is_str(v)
        eng.field_types[("Binding", "name")] = lambda v: V.is_str(v)
        GC = gen.GeneratorContext
        eng.method_models[(GC, "new_this")] = Model("GeneratorContext.new_this", lambda e, s, a, k: iter([(s, e.alloc(s, NullCM))]))
        st_ = Model("GeneratorContext.symbol_table (some table)", lambda e, s, a, k: iter([(s, e.alloc(s, SymbolTableStandin))]))
        st_.is_property = True
        eng.method_models[(GC, "symbol_table")] = st_
        eng.class_id(SymbolTableStandin)
        eng.method_models[(SymbolTableStandin, "new_symbol")] = Model("SymbolTable.new_symbol", lambda e, s, a, k: iter([(s, None)]))
        eng.models[id(gen.munge)] = Model("munge (some identifier)", lambda e, s, a, k: iter([(s, SV(V.mk_str(z3.String(V.fresh_name("munged")))))]))
        eng.models[id(gen.genname)] = Model("genname (some identifier)", lambda e, s, a, k: iter([(s, SV(V.mk_str(z3.String(V.fresh_name("genname")))))]))
        eng.models[id(gen.sym.symbol)] = Model("sym.symbol (some symbol)", lambda e, s, a, k: iter([(s, SV(V.fresh_val("this_sym")))]))
        eng.models[id(gen.ast_FunctionDef)] = Model("ast_FunctionDef (opaque)", lambda e, s, a, k: iter([(s, SV(V.fresh_val("method_def")))]))
        eng.models[id(_ast.arguments)] = Model("ast.arguments (opaque)", lambda e, s, a, k: iter([(s, SV(V.fresh_val("arguments")))]))
        eng.models[id(_ast.arg)] = Model("ast.arg (opaque)", lambda e, s, a, k: iter([(s, SV(V.fresh_val("arg")))]))
        eng.models[id(gen.chain)] = Model("itertools.chain (opaque: only builds argument and decorator lists)", lambda e, s, a, k: iter([(s, ())]))
        eng.models[id(gen.__dict__["__kwargs_support_decorator"])] = Model("__kwargs_support_decorator (opaque)", lambda e, s, a, k: iter([(s, ())]))

    class SymbolTableStandin:
        def new_symbol(self, *a):
            raise NotImplementedError

    c = pack.contract("basilisp.lang.compiler.generator:__deftype_method_arity_to_py_ast")
    c.param("ctx", OBJ(gen.GeneratorContext)).param("node", OBJ(nodes.DefTypeMethod)).param("arity", OBJ(nodes.DefTypeMethodArity))
    c.param_value("method_name", lambda eng, st: None)
    c.setup(tsetup)
    c.requires("an arity node of this method",
               lambda a: z3.And(_ops.eq_term(None, fld_(a.pre.st, a.arity, "op"), a.eng.lift(nodes.NodeOp.DEFTYPE_METHOD_ARITY, a.pre.st)),
                                fld_(a.pre.st, a.node, "name") == fld_(a.pre.st, a.arity, "name"),
                                V.is_ref(fld_(a.pre.st, a.arity, "this_local")), V.cls_of(V.Val.a(fld_(a.pre.st, a.arity, "this_local"))) == a.eng.class_id(nodes.Binding)))
    c.raises()

    def method_recur_post(a):
        pts = a.post.st.ghost.get("recur_points", [])
        if len(pts) != 1:
            return z3.BoolVal(False)
        return z3.And(pts[0][0] == fld_(a.pre.st, a.arity, "loop_id"), pts[0][1] == fld_(a.pre.st, a.arity, "is_variadic"))

    c.ensures("a method arity is generated under a recur point of its own loop that carries that arity's own variadic-ness (not the method's, which is true as soon as "
              "*any* arity is variadic): recur inside a fixed arity passes its arguments on as they are", method_recur_post)
    c.replay(lambda m, ctx, ob: METHOD_RECUR_REPLAY)
    c.replay_without_model = True

    def partial_signature_bounded(tier, seed):
        import os

        from pyvc.run import REPLAY_DIR, run_snippet

        p_ = os.path.join(REPLAY_DIR, "C08", "partial_signature_bounded.py")
        failed, outp = run_snippet("# bounded check for property C08\n# function: basilisp.lang.runtime:_update_signature_for_partial\n" + PARTIAL_BOUNDED, p_)
        ran = "cases 384" in outp
        rec = {"name": "[bounded: arities drawn from {0..4, :rest}, 0 <= num_args <= 5, 384 cases] a partial's arities and the number of parameters its apply_to peels off "
                       "an applied sequence are those of the remaining parameters",
               "kind": "bounded", "bounded": True, "line": 0, "time_s": 0.0, "backend": "concrete execution of the real function",
               "verdict": "refuted" if failed else ("bounded-ok" if ran else "unknown")}
        if failed:
            rec.update(replay=p_, reproduced=True, replay_output=outp[-1500:], model={})
        return [{"key": "bounded:basilisp.lang.runtime:_update_signature_for_partial", "file": "src/basilisp/lang/runtime.py", "lines": [0, 0], "error": None if (ran or failed) else "the bounded check did not run: " + outp[-300:],
                 "obligations": [rec], "extra": True, "bounded": True, "bound": "arities drawn from {0..4, :rest}, 0 <= num_args <= 5", "cases": 384,
                 "result": "a case fails" if failed else "all cases agree with the spec", "time_s": 0.0}]

    pack.extra.append(partial_signature_bounded)

    c = pack.contract("basilisp.lang.compiler.generator:__fn_decorator")
    c.param_value("arities", lambda eng, st: [1, 3])
    c.param_value("has_rest_arg", lambda eng, st: True)
    c.param_value("max_fixed_arity", lambda eng, st: SV(MFA))
    c.setup(dsetup)
    c.requires("an integer", lambda a: V.is_int(MFA))
    c.raises()

    def deco_post(a):
        st = a.post.st
        fld_ = lambda o, f: z3.Select(st.field_array(f), V.Val.a(o))  # noqa: E731
        kws = z3.Select(st.lists, V.Val.a(fld_(a.result, "keywords")))
        k1 = kws[1]
        return z3.And(z3.Length(kws) == 2, fld_(kws[0], "arg") == V.mk_str("arities"), fld_(k1, "arg") == V.mk_str("max_fixed_arity"),
                      V.is_ref(fld_(k1, "value")), V.cls_of(V.Val.a(fld_(k1, "value"))) == a.eng.class_id(_ast.Constant), fld_(fld_(k1, "value"), "value") == MFA)

    c.ensures("the emitted call is _basilisp_fn(arities=..., max_fixed_arity=<that number>)", deco_post)


PARTIAL_BOUNDED = r'''
# bounded stand-in for runtime._update_signature_for_partial (a loop over a symbolic set and max() over a filtered generator keep it
# outside the executor): the real function is run for every set of arities drawn from {0..4, :rest} and every 0 <= num_args <= 5 and
# compared with the spec: the partial accepts a - n arguments for every fixed arity a > n (0 if only a = n matched), keeps :rest, and its
# apply_to peels off exactly the largest *new* fixed arity - the number of parameters still to bind - from an applied sequence
import itertools
from basilisp.lang import runtime as rt, keyword as kw, set as lset
REST = kw.keyword("rest")
bad, cases = [], 0
real = rt._fn_apply_to
for k in range(0, 7):
    for arities in itertools.combinations([0, 1, 2, 3, 4, REST], k):
        for n in range(0, 6):
            cases += 1
            seen = {}
            def spy(f, ars, max_fixed_arity=None, _seen=seen):
                _seen["arities"], _seen["mfa"] = set(ars), max_fixed_arity
                return real(f, ars, max_fixed_arity=max_fixed_arity)
            def f(*a):
                return a
            f.arities = lset.set(arities)
            f.__name__ = "f"
            rt._fn_apply_to = spy
            try:
                import logging
                logging.disable(logging.CRITICAL)
                rt._update_signature_for_partial(f, n)
            finally:
                rt._fn_apply_to = real
                logging.disable(logging.NOTSET)
            want = {a - n for a in arities if a is not REST and a > n} | ({REST} if REST in arities else set())
            if not want and n in arities:
                want = {0}
            want_mfa = max((a for a in want if a is not REST), default=0)
            if set(f.arities) != want or seen.get("arities") != want or seen.get("mfa") != want_mfa:
                bad.append("arities %r, %d stored argument(s): the partial has arities %r and peels %r, expected %r and %r" % (sorted(map(str, arities)), n, sorted(map(str, f.arities)), seen.get("mfa"), sorted(map(str, want)), want_mfa))
print("cases", cases)
for line in bad[:8]:
    print(line)
print("REPRODUCED" if bad else "not reproduced")
'''


METHOD_RECUR_REPLAY = r'''
import subprocess, sys, tempfile, os
src = """(ns c08.method-recur)
(definterface I
  (m [n acc])
  (m [n acc & more]))
(deftype T []
  I
  (m [this n acc] (if (zero? n) acc (recur (dec n) (cons n acc))))
  (m [this n acc & more] (if (zero? n) [acc more] (recur (dec n) (cons n acc) more))))
(println (try (pr-str (.m (T) 3 nil)) (catch python/Exception e (str "raised " (python/type e)))))
(println (try (pr-str (.m (T) 2 nil :x :y)) (catch python/Exception e (str "raised " (python/type e)))))
"""
d = tempfile.mkdtemp()
p = os.path.join(d, "method_recur.lpy")
open(p, "w").write(src)
out = subprocess.run([sys.executable, "-m", "basilisp.cli", "run", p], capture_output=True, text=True, timeout=300)
lines = [l for l in out.stdout.strip().splitlines() if l.strip()]
print("\\n".join(lines[-2:]) if lines else out.stderr[-400:])
want = ["(1 2 3)", "[(1 2) (:x :y)]"]
print("REPRODUCED" if lines[-2:] != want else "not reproduced")
'''


VAR_CALL_REPLAY = r'''
from basilisp.lang import runtime as rt, symbol as sym
ns = rt.Namespace.get_or_create(sym.symbol("c08-var-call"))
v = rt.Var.intern(ns, sym.symbol("f"), lambda *a, **k: (a, k))
got = v(1, 2, k=3)
print("(#'f 1 2 :k 3) through the Var ->", got)
print("REPRODUCED" if got != ((1, 2), {"k": 3}) else "not reproduced")
'''


CALLS_REPLAY = r'''
import subprocess, sys, tempfile, os
src = """(ns c08.replay)
(def realized (atom 0))
(defn counted [n] (lazy-seq (swap! realized inc) (cons n (counted (inc n)))))
(defn f0 [& more] [:f0 (first more) (second more)])
(defn f2 [a b & more] [:f2 a b (first more)])
(defn f2only [a b & more] [:f2only a b (nil? more)])
(defn f4only [a b c d & more] [:f4only a b c d])
(defn g ([a] [:g1 a]) ([a b] [:g2 a b]) ([a b & more] [:gv a b (vec more)]))
(defn h3 ([a] [:one a]) ([a b c & r] [:rest a b c r]))
(defn gv [a & r] [a (first r)])
(defn rfix ([n acc] (if (zero? n) acc (recur (dec n) (cons n acc)))) ([n acc & more] [:variadic n acc more]))
(defn rr [x & more] (if (< x 3) (recur (inc x) more) [:rr x more]))
(defn rr0 [& more] (if (seq more) (recur (next more)) [:rr0 more]))
;; (each step is its own top-level form, so that the order of effects does not depend on how call arguments are compiled)
(def r1 (apply f0 (counted 0)))
(def c1 (<= @realized 3))
(reset! realized 0)
(def r2 (apply f2 (counted 0)))
(def c2 (<= @realized 3))
(def r3 (apply f2 10 (counted 0)))
(reset! realized 0)
(apply f2only :x (counted 0))
(def c3 (<= @realized 2))
(reset! realized 0)
(apply f4only :x :y (counted 0))
(def c4 (<= @realized 3))
(reset! realized 0)
(apply (partial f4only :p) :x (counted 0))
(def c5 (<= @realized 3))
(println "RESULT"
  r1 c1 r2 c2 r3 c3 c4 c5
  (apply f2 10 20 [30 40])
  (apply f2only [1 2])
  (apply f2only 1 [2])
  (apply g [1]) (apply g 1 [2]) (apply g 1 2 [3 4]) (apply g [1 2 3])
  ((partial g 1) 2) ((partial g 1 2) 3 4) ((partial vector 1 2) 3 4) ((partial f2 1) 2 3)
  (rr 0) (rr 0 :a :b) (rr0 1 2 3)
  (apply h3 [1 2 3]) (apply h3 1 2 [3 4 5]) (apply h3 [7]) (h3 1 2 3 4)
  (try (rfix 3 nil) (catch python/Exception e (python/type e))) (rfix 1 2 3)
  (do (reset! realized 0) [(apply (var gv) 1 (take 40 (counted 0))) (<= @realized 3)]))
"""
with tempfile.NamedTemporaryFile("w", suffix=".lpy", delete=False) as fh:
    fh.write(src)
try:
    out = subprocess.run([sys.executable, "-m", "basilisp.cli", "run", fh.name], capture_output=True, text=True, timeout=300)
finally:
    os.unlink(fh.name)
line = [l for l in out.stdout.splitlines() if l.startswith("RESULT")]
got = line[0] if line else "no output: " + out.stderr[-400:]
want = "RESULT [:f0 0 1] true [:f2 0 1 2] true [:f2 10 0 1] true true true [:f2 10 20 30] [:f2only 1 2 true] [:f2only 1 2 true] [:g1 1] [:g2 1 2] [:gv 1 2 [3 4]] [:gv 1 2 [3]] [:g2 1 2] [:gv 1 2 [3 4]] [1 2 3 4] [:f2 1 2 3] [:rr 3 nil] [:rr 3 (:a :b)] [:rr0 nil] [:rest 1 2 3 nil] [:rest 1 2 3 (4 5)] [:one 7] [:rest 1 2 3 (4)] (1 2 3) [:variadic 1 2 (3)] [[1 0] true]"
print("got     ", got)
print("expected", want)
print("REPRODUCED" if got != want else "not reproduced")
'''


class PlainFn:
    """stand-in for an arbitrary Python callable without basilisp function attributes"""
