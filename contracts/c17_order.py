"""C17 - compare is a consistent total order; keyword/symbol order is lexicographic on (ns, name).

The spec function ``named_lt`` is written from the property statement ("ordering by
namespace and then name", with the no-namespace case ordered consistently: names
without a namespace sort before namespaced ones).  The real ``__lt__`` bodies of
Keyword and Symbol are executed symbolically and must equal it; the derived
``__gt__/__le__/__ge__`` (functools.total_ordering, read from the installed stdlib
source) and ``runtime.compare`` are then verified against the same spec, and the
order lemmas are proved about the spec.
"""
import z3

from pyvc import vals as V
from pyvc.contract import Pack, T, OBJ, STR, OPT_STR, INT, FRACTION, NONE, ANY
from pyvc.engine import SV, Model


def _classes():
    from basilisp.lang.keyword import Keyword
    from basilisp.lang.symbol import Symbol

    return Keyword, Symbol


def named_lt(ns1, n1, ns2, n2):
    """Spec: lexicographic on (namespace, name); no namespace sorts first. ns terms are Val (str|None), names Val str."""
    s = V.Val.s
    return z3.If(
        z3.And(V.is_none(ns1), V.is_none(ns2)),
        s(n1) < s(n2),
        z3.If(
            V.is_none(ns1),
            True,
            z3.If(V.is_none(ns2), False, z3.Or(s(ns1) < s(ns2), z3.And(s(ns1) == s(ns2), s(n1) < s(n2)))),
        ),
    )


def same_name(ns1, n1, ns2, n2):
    return z3.And(ns1 == ns2, n1 == n2)


def _fields(a, obj, view=None):
    view = view or a.pre
    return view.field(obj, "_ns"), view.field(obj, "_name")


def _setup_types(eng, st):
    for cname in ("Keyword", "Symbol"):
        eng.field_types[(cname, "_name")] = lambda v: V.is_str(v)
        eng.field_types[(cname, "_ns")] = lambda v: z3.Or(V.is_str(v), V.is_none(v))
        eng.field_types[(cname, "_hash")] = lambda v: V.is_int(v)


def _wf(a, *objs):
    out = []
    for o in objs:
        ns, n = _fields(a, o)
        out += [V.is_str(n), z3.Or(V.is_str(ns), V.is_none(ns))]
    return z3.And(*out)


def _decode(s):
    """z3 string literal -> python str."""
    import re

    return re.sub(r"\\u\{([0-9a-fA-F]+)\}", lambda m: chr(int(m.group(1), 16)), s)


def _replay_named(modname, ctor, opexpr, expect):
    def rp(m, ctx, ob):
        def obj(t):
            ns, n = ctx.pre.field(t, "_ns"), ctx.pre.field(t, "_name")
            nsv = m.py(ns)
            nv = m.py(n)
            return (_decode(nv) if isinstance(nv, str) else nv, _decode(nsv) if isinstance(nsv, str) else nsv)

        (n1, ns1), (n2, ns2) = obj(ctx.self), obj(ctx.other)
        return (
            f"from basilisp.lang import {modname} as M\n"
            f"a = M.{ctor}({n1!r}, ns={ns1!r})\nb = M.{ctor}({n2!r}, ns={ns2!r})\n"
            "key = lambda o: (o.ns is not None, o.ns or '', o.name)\n"
            f"got = {opexpr}\nexp = {expect}\n"
            "print('a =', a, 'b =', b, 'got', got, 'expected (lexicographic on ns, name)', exp)\n"
            "print('REPRODUCED' if got != exp else 'not reproduced')\n"
        )

    return rp


def build(active_known=frozenset()):
    Keyword, Symbol = _classes()
    pack = Pack("C17", "compare is a consistent total order and sort returns the ordered permutation")
    pack.common_setup.append(_setup_types)
    pack.trust("str.__lt__ is the lexicographic code-point order (SMT-LIB str.<); functools.total_ordering source as installed")
    pack.assume("Keyword/Symbol objects are well-typed: _name is a str, _ns is a str or None (checked at the stores in __init__)")

    for cls, modname, ctor in ((Keyword, "keyword", "keyword"), (Symbol, "symbol", "symbol")):
        mod = f"basilisp.lang.{modname}"
        cn = cls.__name__
        # __init__ establishes the type invariant
        c = pack.contract(f"{mod}:{cn}.__init__")
        c.param("self", OBJ(cls)).param("name", STR).param("ns", OPT_STR)
        c.ensures("fields hold the arguments", lambda a: z3.And(a.post.field(a.self, "_name") == a.name, a.post.field(a.self, "_ns") == a.ns))

        # __lt__ against the lexicographic spec
        c = pack.contract(f"{mod}:{cn}.__lt__")
        c.param("self", OBJ(cls)).param("other", OBJ(cls))
        c.requires("operands are well-typed", lambda a: _wf(a, a.self, a.other))
        c.raises()
        c.ensures("result is a bool", lambda a: V.is_bool(a.result))
        c.ensures(
            "a < b  iff  (ns, name) of a is lexicographically below (ns, name) of b",
            lambda a: V.Val.b(a.result) == named_lt(*_fields(a, a.self), *_fields(a, a.other)),
        )
        c.replay(_replay_named(modname, ctor, "a < b", "key(a) < key(b)"))

        # derived operators (functools.total_ordering) against the same spec
        for op, spec, pyop in (
            ("__gt__", lambda a: named_lt(*_fields(a, a.other), *_fields(a, a.self)), "a > b"),
            ("__le__", lambda a: z3.Or(named_lt(*_fields(a, a.self), *_fields(a, a.other)), same_name(*_fields(a, a.self), *_fields(a, a.other))), "a <= b"),
            ("__ge__", lambda a: z3.Or(named_lt(*_fields(a, a.other), *_fields(a, a.self)), same_name(*_fields(a, a.self), *_fields(a, a.other))), "a >= b"),
        ):
            c = pack.contract(f"{mod}:{cn}.{op}")
            c.entry_live = True
            c.param("self", OBJ(cls)).param("other", OBJ(cls))
            c.requires("operands are well-typed", lambda a: _wf(a, a.self, a.other))
            c.raises()
            c.ensures(f"{op} agrees with the lexicographic order", lambda a, spec=spec: z3.And(V.is_bool(a.result), V.Val.b(a.result) == spec(a)))
            c.replay(_replay_named(modname, ctor, pyop, {"__gt__": "key(a) > key(b)", "__le__": "key(a) <= key(b)", "__ge__": "key(a) >= key(b)"}[op]))

        # __eq__: equal iff same (ns, name)   [interned keywords: also identical]
        c = pack.contract(f"{mod}:{cn}.__eq__")
        c.param("self", OBJ(cls)).param("other", OBJ(cls))
        c.requires("operands are well-typed", lambda a: _wf(a, a.self, a.other))
        c.requires("distinct objects (the identical case is trivially equal)", lambda a: a.self != a.other)
        c.raises()
        c.ensures("equal iff same namespace and name", lambda a: V.Val.b(a.result) == same_name(*_fields(a, a.self), *_fields(a, a.other)))

        # compare(x, y) through the live singledispatch object
        c = pack.contract("basilisp.lang.runtime:compare")
        c.entry_live = True
        c.label = cn
        c.param("x", OBJ(cls)).param("y", OBJ(cls))
        c.requires("operands are well-typed", lambda a: _wf(a, a.x, a.y))
        c.raises()
        c.ensures(
            "three-way result of the lexicographic order",
            lambda a: z3.And(
                V.is_int(a.result),
                V.Val.i(a.result)
                == z3.If(named_lt(*_fields(a, a.x), *_fields(a, a.y)), -1, z3.If(named_lt(*_fields(a, a.y), *_fields(a, a.x)), 1, 0)),
            ),
        )
        c.ensures(
            "zero exactly for equal names",
            lambda a: (V.Val.i(a.result) == 0) == same_name(*_fields(a, a.x), *_fields(a, a.y)),
        )

        def rp(m, ctx, ob, modname=modname, ctor=ctor):
            def obj(t):
                nsv, nv = m.py(ctx.pre.field(t, "_ns")), m.py(ctx.pre.field(t, "_name"))
                return (_decode(nv), _decode(nsv) if isinstance(nsv, str) else nsv)

            (n1, ns1), (n2, ns2) = obj(ctx.x), obj(ctx.y)
            return (
                f"from basilisp.lang import {modname} as M, runtime\n"
                f"a = M.{ctor}({n1!r}, ns={ns1!r})\nb = M.{ctor}({n2!r}, ns={ns2!r})\n"
                "key = lambda o: (o.ns is not None, o.ns or '', o.name)\n"
                "got = runtime.compare(a, b)\nexp = (key(a) > key(b)) - (key(a) < key(b))\n"
                "print('compare', a, b, '->', got, 'expected', exp, '; reverse ->', runtime.compare(b, a))\n"
                "print('REPRODUCED' if got != exp else 'not reproduced')\n"
            )

        c.replay(rp)

    # compare on numbers / strings / nil --------------------------------------------------
    EXACT = T(lambda v: z3.Or(V.is_int(v), V.is_frac(v)), None, "int|Fraction")
    c = pack.contract("basilisp.lang.runtime:compare")
    c.entry_live = True
    c.label = "exact-numbers"
    c.param("x", EXACT).param("y", EXACT)
    c.raises()
    c.ensures(
        "sign of the exact difference",
        lambda a: z3.And(
            V.is_int(a.result),
            V.Val.i(a.result) == z3.If(V.real_of(a.x) < V.real_of(a.y), -1, z3.If(V.real_of(a.x) > V.real_of(a.y), 1, 0)),
        ),
    )
    c = pack.contract("basilisp.lang.runtime:compare")
    c.entry_live = True
    c.label = "strings"
    c.param("x", STR).param("y", STR)
    c.raises()
    c.ensures(
        "three-way lexicographic comparison",
        lambda a: z3.And(
            V.is_int(a.result),
            V.Val.i(a.result) == z3.If(V.Val.s(a.x) < V.Val.s(a.y), -1, z3.If(V.Val.s(a.y) < V.Val.s(a.x), 1, 0)),
            (V.Val.i(a.result) == 0) == (V.Val.s(a.x) == V.Val.s(a.y)),
        ),
    )
    NONNIL = T(lambda v: z3.Or(V.is_int(v), V.is_frac(v), V.is_str(v), V.is_flt(v), V.is_dec(v)), None, "int|Fraction|float|Decimal|str")
    c = pack.contract("basilisp.lang.runtime:compare")
    c.entry_live = True
    c.label = "nil-left"
    c.param("x", NONE).param("y", NONNIL | NONE)
    c.raises()
    c.ensures("nil is below everything and equal to itself", lambda a: V.Val.i(a.result) == z3.If(V.is_none(a.y), 0, -1))
    c = pack.contract("basilisp.lang.runtime:compare")
    c.entry_live = True
    c.label = "nil-right"
    c.param("x", NONNIL).param("y", NONE)
    c.raises()
    c.ensures("everything is above nil", lambda a: V.Val.i(a.result) == 1)

    def rp_nil(m, ctx, ob):
        return (
            "import decimal, fractions\nfrom basilisp.lang import runtime\nbad = []\n"
            "for x in (0, -3, fractions.Fraction(1, 2), 1.5, float('nan'), decimal.Decimal('1.5'), decimal.Decimal('NaN'), '', 'a'):\n"
            "    for args, want in (((x, None), 1), ((None, x), -1)):\n"
            "        try:\n            r = runtime.compare(*args)\n        except Exception as e:\n            r = '%s: %s' % (type(e).__name__, e)\n"
            "        if r != want:\n            bad.append('compare%r -> %r, expected %r' % (args, r, want))\n"
            "print('\\n'.join(bad[:8]))\nprint('REPRODUCED' if bad else 'not reproduced')\n"
        )

    for c_ in pack.contracts[-2:]:
        c_.replay(rp_nil)
        c_.replay_without_model = True

    # a decimal against a float: whatever the float side of compare answers for (y, x), the decimal side answers the opposite for (x, y) -
    # antisymmetry across the two dispatch branches, for every pair (the decimal is never rounded to a float first)
    from basilisp.lang import runtime as rt_

    CMP = z3.Function("compare_by_the_float_branch", V.Val, V.Val, z3.IntSort())

    def dec_setup(eng, st):
        eng.models[id(rt_.compare)] = Model("compare (the dispatcher, used here for the float-first call only: an abstract three-way result)",
                                            lambda e, s, a, k: iter([(s, SV(V.mk_int(CMP(e.lift(a[0], s), e.lift(a[1], s)))))]))

    c = pack.contract("basilisp.lang.runtime:_compare_decimal")
    c.label = "against a float"
    c.param("x", T(lambda v: V.is_dec(v), None, "Decimal")).param("y", T(lambda v: V.is_flt(v), None, "float"))
    c.setup(dec_setup)
    c.raises()
    c.ensures("compare(decimal, float) is the opposite of compare(float, decimal) for the very same two values", lambda a: z3.And(V.is_int(a.result), V.Val.i(a.result) == -CMP(a.y, a.x)))

    def rp_dec(m, ctx, ob):
        return DEC_REPLAY

    c.replay(rp_dec)
    c.replay_without_model = True

    # compare on floats: NaN (documented design: compare with NaN is 0) -----------------------
    from pyvc import ops

    f_lt = ops.opq("num__lt__", V.Val, V.Val, z3.BoolSort())
    f_gt = ops.opq("num__gt__", V.Val, V.Val, z3.BoolSort())
    nan = lambda v: V.flt_isnan(V.Val.f(v))  # noqa: E731
    FLT = T(lambda v: V.is_flt(v), None, "float")
    c = pack.contract("basilisp.lang.runtime:compare")
    c.entry_live = True
    c.label = "floats"
    c.param("x", FLT).param("y", FLT)
    c.requires(
        "IEEE-754 comparison facts (trusted): > is the converse of <; NaN is unordered; non-NaN floats are totally ordered",
        lambda a: z3.And(
            f_gt(a.x, a.y) == f_lt(a.y, a.x),
            z3.Implies(z3.Or(nan(a.x), nan(a.y)), z3.And(z3.Not(f_lt(a.x, a.y)), z3.Not(f_lt(a.y, a.x)), z3.Not(V.py_eq(a.x, a.y)))),
            z3.Implies(
                z3.Not(z3.Or(nan(a.x), nan(a.y))),
                z3.And(
                    z3.Or(f_lt(a.x, a.y), f_lt(a.y, a.x), V.py_eq(a.x, a.y)),
                    z3.Not(z3.And(f_lt(a.x, a.y), f_lt(a.y, a.x))),
                    z3.Implies(V.py_eq(a.x, a.y), z3.And(z3.Not(f_lt(a.x, a.y)), z3.Not(f_lt(a.y, a.x)))),
                ),
            ),
        ),
    )
    if "C17-nan-compare" in active_known:
        c.requires("[carve-out of known finding C17-nan-compare] neither argument is NaN", lambda a: z3.Not(z3.Or(nan(a.x), nan(a.y))))
    c.raises()
    c.ensures("zero exactly for equal values", lambda a: (V.Val.i(a.result) == 0) == V.py_eq(a.x, a.y))
    c.ensures("antisymmetric sign", lambda a: z3.And(V.is_int(a.result), (V.Val.i(a.result) == -1) == f_lt(a.x, a.y), (V.Val.i(a.result) == 1) == f_lt(a.y, a.x)))

    def rp_nan(m, ctx, ob):
        xn, yn = m.bool(nan(ctx.x)), m.bool(nan(ctx.y))
        xs = "float('nan')" if xn else "1.0"
        ys = "float('nan')" if yn else ("1.0" if not xn else "2.0")
        return (
            "from basilisp.lang import runtime\n"
            f"x, y = {xs}, {ys}\nr = runtime.compare(x, y)\n"
            "print('compare', x, y, '->', r, '; x == y is', x == y)\n"
            "print('REPRODUCED' if (r == 0) != (x == y) else 'not reproduced')\n"
        )

    c.replay(rp_nan)

    # vectors: by length, then first differing element -----------------------------------------
    from basilisp.lang.vector import PersistentVector
    from pyvc import lib

    def vec_setup(eng, st):
        lib.install(eng)
        eng.abstract_order = True
        pv = eng.libcls["PVec"]
        cid = eng.class_id(pv)
        eng.field_types[("PersistentVector", "_inner")] = lambda v: (z3.And(V.is_ref(v), V.cls_of(V.Val.a(v)) == cid), pv)
        from basilisp.lang import runtime as _rt

        def compare_abs(e, s, a, k):
            # compare on two elements of one comparable family (its contracts are above): an integer whose sign is the
            # family's order - negative iff x < y, positive iff y < x
            x, y = e.lift(a[0], s), e.lift(a[1], s)
            c_ = z3.Int(V.fresh_name("cmp"))
            s.assume((c_ < 0) == V.py_lt(x, y), (c_ > 0) == V.py_lt(y, x))
            yield s, SV(V.mk_int(c_))

        eng.models[id(_rt.compare)] = Model("compare on elements of one comparable family (sign = the family's order)", compare_abs)

    def A(view, obj):
        return V.seq_of(V.Val.a(view.field(obj, "_inner")))

    lt = V.py_lt
    eqv = lambda x, y: z3.And(z3.Not(lt(x, y)), z3.Not(lt(y, x)))  # noqa: E731

    def vec_lt(sa, sb):
        k, j = z3.Int("k"), z3.Int("j")
        return z3.Or(
            z3.Length(sa) < z3.Length(sb),
            z3.And(
                z3.Length(sa) == z3.Length(sb),
                z3.Exists([k], z3.And(k >= 0, k < z3.Length(sa), lt(sa[k], sb[k]), z3.ForAll([j], z3.Implies(z3.And(j >= 0, j < k), eqv(sa[j], sb[j]))))),
            ),
        )

    c = pack.contract("basilisp.lang.vector:PersistentVector.__lt__")
    c.param("self", OBJ(PersistentVector)).param("other", OBJ(PersistentVector))
    c.setup(vec_setup)
    c.raises()
    c.ensures("shorter first, then the first non-equivalent element decides", lambda a: z3.And(V.is_bool(a.result), V.Val.b(a.result) == vec_lt(A(a.pre, a.self), A(a.pre, a.other))))

    def vec_inv(ctx):
        sa = V.seq_of(V.Val.a(ctx.field(ctx["self"], "_inner")))
        sb = V.seq_of(V.Val.a(ctx.field(ctx["other"], "_inner")))
        j = z3.Int("j")
        return z3.ForAll([j], z3.Implies(z3.And(j >= 0, j < ctx.i), eqv(sa[j], sb[j])))

    c.loop(0, invariant=vec_inv, frame=[], lists=False)
    pack.assume("vector elements: x < y is an uninterpreted relation and x > y its converse (elements of one comparable family)")

    # nil is a member of every comparable family ("with nil below everything"): a vector may hold it
    def vec1_setup(eng, st):
        lib.install(eng)
        pv = eng.libcls["PVec"]
        cid = eng.class_id(pv)
        eng.field_types[("PersistentVector", "_inner")] = lambda v: (z3.And(V.is_ref(v), V.cls_of(V.Val.a(v)) == cid), pv)

    for nil_left in (True, False):
        c = pack.contract("basilisp.lang.vector:PersistentVector.__lt__")
        c.label = "one-element vectors, nil against a number, nil on the " + ("left" if nil_left else "right")
        c.param("self", OBJ(PersistentVector)).param("other", OBJ(PersistentVector))
        c.setup(vec1_setup)

        def pre(a, nil_left=nil_left):
            sa, sb = A(a.pre, a.self), A(a.pre, a.other)
            x, y = (sa[0], sb[0]) if nil_left else (sb[0], sa[0])
            return z3.And(z3.Length(sa) == 1, z3.Length(sb) == 1, V.is_none(x), V.is_int(y))

        c.requires("both vectors have one element: nil in one, an integer in the other", pre)
        c.raises()
        c.ensures("nil sorts below every number inside a vector as well: [nil] < [n], and not the other way round",
                  lambda a, nil_left=nil_left: z3.And(V.is_bool(a.result), V.Val.b(a.result) == z3.BoolVal(nil_left)))
        c.loop(0, invariant=lambda ctx: ctx.i == 0, frame=[], lists=False)  # (the first pair decides: the back edge is never taken)
        c.replay(lambda m, ctx, ob: VEC_NIL_REPLAY)
        c.replay_without_model = True

    # ---------------------------------------------------------------- lemmas about the spec order
    def consts(*names):
        return [z3.Const(n, V.Val) for n in names]

    def wf(ns, n):
        return z3.And(V.is_str(n), z3.Or(V.is_str(ns), V.is_none(ns)))

    def lemma_irrefl():
        ns, n = consts("ns", "n")
        return [wf(ns, n)], z3.Not(named_lt(ns, n, ns, n))

    def lemma_asym():
        a, b, c_, d = consts("ns1", "n1", "ns2", "n2")
        return [wf(a, b), wf(c_, d), named_lt(a, b, c_, d)], z3.Not(named_lt(c_, d, a, b))

    def lemma_trans():
        a, b, c_, d, e, f = consts("ns1", "n1", "ns2", "n2", "ns3", "n3")
        return [wf(a, b), wf(c_, d), wf(e, f), named_lt(a, b, c_, d), named_lt(c_, d, e, f)], named_lt(a, b, e, f)

    def lemma_total():
        a, b, c_, d = consts("ns1", "n1", "ns2", "n2")
        return [wf(a, b), wf(c_, d)], z3.Or(named_lt(a, b, c_, d), named_lt(c_, d, a, b), same_name(a, b, c_, d))

    # vector order: strict partial order whenever the element order is a strict weak order
    x_, y_, z_ = z3.Consts("x y z", V.Val)
    elem_axioms = [
        z3.ForAll([x_], z3.Not(lt(x_, x_))),
        z3.ForAll([x_, y_, z_], z3.Implies(z3.And(lt(x_, y_), lt(y_, z_)), lt(x_, z_))),
        z3.ForAll([x_, y_, z_], z3.Implies(z3.And(z3.Not(lt(x_, y_)), z3.Not(lt(y_, z_))), z3.Not(lt(x_, z_)))),
    ]

    def vlt(sa, sb, tag):
        k, j = z3.Int("k" + tag), z3.Int("j" + tag)
        return z3.Or(
            z3.Length(sa) < z3.Length(sb),
            z3.And(
                z3.Length(sa) == z3.Length(sb),
                z3.Exists([k], z3.And(k >= 0, k < z3.Length(sa), lt(sa[k], sb[k]), z3.ForAll([j], z3.Implies(z3.And(j >= 0, j < k), eqv(sa[j], sb[j]))))),
            ),
        )

    SA, SB, SC = [z3.Const(n, V.ValSeq) for n in ("A", "B", "C")]
    pack.lemma("vec_lt is irreflexive (elements: strict weak order)", lambda: (elem_axioms, z3.Not(vlt(SA, SA, "1"))))
    pack.lemma("vec_lt is asymmetric (elements: strict weak order)", lambda: (elem_axioms + [vlt(SA, SB, "1")], z3.Not(vlt(SB, SA, "2"))))
    pack.lemma("vec_lt is transitive (elements: strict weak order)", lambda: (elem_axioms + [vlt(SA, SB, "1"), vlt(SB, SC, "2")], vlt(SA, SC, "3")))

    pack.lemma("named_lt is irreflexive", lemma_irrefl)
    pack.lemma("named_lt is asymmetric (compare antisymmetric)", lemma_asym)
    pack.lemma("named_lt is transitive", lemma_trans)
    pack.lemma("named_lt is total: exactly equal names are incomparable (compare = 0 iff equal)", lemma_total)

    # ------------------------------------------------------------------ the comparator sort / sort-by derive from a user function
    # (sort and sort-by themselves hand this comparator to Python's sorted(), a stable sort: trusted)
    class CmpFn:
        """stand-in for the user's comparison function: an opaque callable (boolean or three-way)"""

    def cmp_setup(eng, st):
        eng.class_id(CmpFn)
        eng.opaque_havoc = "none"

        def typed_result(e, s, f, args, kwargs, line):
            # the user's comparison function returns a boolean or a number (what the docstring of sort asks for)
            def gen():
                targs = [e.lift(x, s) for x in args]
                res = V.fresh_val("cmp_result")
                s.assume(z3.Or(V.is_bool(res), V.is_int(res), V.is_frac(res), V.is_flt(res), V.is_dec(res)))
                s_r = s.copy()
                s.calls.append((f.t, targs, dict(kwargs), res))
                yield s, SV(res)
                exc = Exc(None, (), term=V.fresh_int("exc"))
                s_r.calls.append((f.t, targs, dict(kwargs), exc))
                yield s_r, Raise(exc)

            return gen()

        eng.opaque_hook = typed_result

    from pyvc.engine import Exc, SV, Raise

    for kind in ("boolean or three-way",):
        c = pack.contract("contracts.drivers_c17:three_way")
        c.label = f"{kind} function"
        c.param("f", OBJ(CmpFn))
        c.setup(cmp_setup)
        c.allow_callback_exceptions = True

        def cmp_post(a, kind=kind):
            calls = [c_ for c_ in a.post.st.calls if z3.eq(z3.simplify(c_[0]), z3.simplify(a.f))]
            if not calls or any(isinstance(c_[3], Exc) for c_ in calls):
                return z3.BoolVal(False)
            first = calls[0]
            r1 = first[3]
            ok_args = z3.And(z3.BoolVal(len(first[1]) == 2), first[1][0] == a.x, first[1][1] == a.y)
            number = z3.And(z3.Not(V.is_bool(r1)), z3.Or(V.is_int(r1), V.is_frac(r1), V.is_flt(r1), V.is_dec(r1)))
            if len(calls) == 1:
                # a number is returned as it is; a true boolean means "x sorts before y"
                return z3.And(ok_args, z3.Or(z3.And(number, a.result == r1), z3.And(r1 == V.mk_bool(True), a.result == V.mk_int(-1))))
            if len(calls) == 2:
                second = calls[1]
                r2 = second[3]
                swapped = z3.And(z3.BoolVal(len(second[1]) == 2), second[1][0] == a.y, second[1][1] == a.x)
                return z3.And(ok_args, swapped, r1 == V.mk_bool(False), a.result == z3.If(a.eng.truthy_term(SV(r2), a.post.st), V.mk_int(1), V.mk_int(0)))
            return z3.BoolVal(False)

        from pyvc import ops as _ops
        from basilisp.lang import runtime as _rt

        c.requires("the function is not `compare` itself (which is used as it is)", lambda a: z3.Not(_ops.eq_term(None, a.f, a.eng.lift(_rt.compare, a.pre.st))))
        c.ensures("a three-way function's number is passed through; for a boolean 'less than' function the comparator is -1 when (f x y), "
                  "1 when (f y x), 0 otherwise - asking f at most twice, with the arguments in that order", cmp_post)
    add_sort(pack)
    return pack


THREEWAY = z3.Function("derived_comparator", V.Val, V.Val, V.Val, z3.IntSort())   # _fn_to_comparator(f)(x, y)
KEYFN = z3.Function("keyfn_of", V.Val, V.Val, V.Val)                                # keyfn(x) (a pure function of x)
PY_SORTED = z3.Function("python_sorted", V.ValSeq, z3.IntSort(), V.ValSeq)          # sorted(items, key=<ordering no.>)
SEQVIEW = z3.Function("elements_of_sequence", V.Val, V.ValSeq)                      # elements of lseq.sequence(...)


class NonEmptySeq:
    """stand-in for the (truthy) seq that to_seq returns for a non-empty collection"""


class OpaqueFn:
    """stand-in for a user's function"""


def add_sort(pack):
    """``sort`` and ``sort-by`` hand the collection to Python's ``sorted`` - trusted: a stable sort that returns a permutation
    of its input ordered by ``<`` on the key objects.  What is proved here is what they hand over: the collection's own
    elements, unchanged and in their original order (so that "stable" means stable with respect to the input), and key
    objects whose ``<`` is exactly ``comparator(x, y) < 0`` resp. ``comparator(keyfn(x), keyfn(y)) < 0`` on the elements -
    decided by running the local key class's ``__lt__`` on two arbitrary elements - and that what they return is the
    sequence of that sorted list (the empty list for an empty collection)."""
    import builtins

    from basilisp.lang import list as llist, runtime as rt, seq as lseq, vector as vec
    from pyvc import loops
    from pyvc.engine import SV, Model, Raise, Unsupported

    PV = vec.PersistentVector
    ANYIDX = z3.Int("any_index")
    PA, PB = z3.Const("probe_a", V.Val), z3.Const("probe_b", V.Val)

    def elems(st, coll):
        return V.seq_of(V.Val.a(z3.Select(st.field_array("_inner"), V.Val.a(coll))))

    def ssetup(eng, st):
        from pyvc import lib, ops

        lib.install(eng)
        lib.install_wrappers(eng)
        for c in (PV, NonEmptySeq, OpaqueFn, list):
            eng.class_id(c)
        eng.opaque_havoc = "none"

        def comparator_of(e, s, a, k):
            f = e.lift(a[0], s)

            def cmp(e2, s2, a2, k2):
                x, y = (e2.lift(t, s2) for t in a2)
                yield s2, SV(V.mk_int(THREEWAY(f, x, y)))

            yield s, Model("the comparator derived from the user's function (contract: three_way above; an integer here)", cmp)

        eng.models[id(rt._fn_to_comparator)] = Model("_fn_to_comparator (by contract)", comparator_of)

        def to_seq(e, s, a, k):
            coll = e.lift(a[0], s)
            n = z3.Length(elems(s, coll))
            s0 = s.copy()
            s0.assume(n == 0)
            if e.feasible(s0):
                yield s0, None
            s.assume(n > 0)
            if e.feasible(s):
                yield s, e.alloc(s, NonEmptySeq)

        eng.models[id(lseq.to_seq)] = Model("lseq.to_seq (nil for an empty collection)", to_seq)

        def sequence(e, s, a, k):
            lst = a[0]
            if not (isinstance(lst, SV) and lst.hint is list):
                raise Unsupported("lseq.sequence of something other than a list")
            r = V.fresh_val("sequence")
            s.assume(V.is_ref(r), V.Val.a(r) <= 0, SEQVIEW(r) == z3.Select(s.lists, V.Val.a(lst.t)))
            yield s, SV(r)

        eng.models[id(lseq.sequence)] = Model("lseq.sequence (the elements of the list, in order)", sequence)

        def sorted_(e, s, a, k):
            if set(k) - {"key"} or len(a) != 1:
                raise Unsupported("sorted() with reverse= or extra arguments")
            src = loops._as_symiter(e, a[0], s)
            n = src.length
            probe = s.copy()
            probe.assume(ANYIDX >= 0, ANYIDX < n)
            item = e.lift(src.item(e, probe, ANYIDX), probe)
            keyf = k.get("key")
            lt = None
            if keyf is not None:
                outs = []
                for s1, ka in e.call(keyf, [SV(PA)], {}, probe.copy()):
                    if isinstance(ka, Raise):
                        raise Unsupported("the key function raises on an arbitrary element")
                    for s2, kb in e.call(keyf, [SV(PB)], {}, s1):
                        if isinstance(kb, Raise):
                            raise Unsupported("the key function raises on an arbitrary element")
                        for s3, r in ops.ordering(e, __import__("ast").Lt(), ka, kb, s2):
                            if isinstance(r, Raise):
                                raise Unsupported("comparing two key objects raises")
                            outs.append(e.truthy_term(r if isinstance(r, SV) else SV(e.lift(r, s3)), s3))
                if len(outs) != 1:
                    raise Unsupported("the ordering of two arbitrary key objects is not a single expression")
                lt = z3.simplify(outs[0])
            order = z3.Int(V.fresh_name("ordering"))
            sv = e.alloc(s, list)
            content = PY_SORTED(src.seq if src.seq is not None else z3.Const(V.fresh_name("generated_items"), V.ValSeq), order)
            s.lists = z3.Store(s.lists, V.Val.a(sv.t), content)
            s.ghost["sorted_calls"] = list(s.ghost.get("sorted_calls", [])) + [dict(n=n, item=item, lt=lt, order=order, content=content, result=sv.t)]
            yield s, sv

        eng.models[id(builtins.sorted)] = Model("sorted (trusted: a stable sort by < on the key objects)", sorted_)

    def fn_value(name):
        def mk(eng, st):
            fterm = z3.Const(f"arg.{name}", V.Val)

            def call(e, s, a, k):
                yield s, SV(KEYFN(fterm, e.lift(a[0], s)))

            return Model(f"{name} (a pure function of its argument)", call)

        return mk

    for which in ("sort", "sort_by"):
        c = pack.contract(f"basilisp.lang.runtime:{which}")
        c.label = "a vector"
        if which == "sort":
            c.param("coll", OBJ(PV)).param("f", OBJ(OpaqueFn))
        else:
            c.param("keyfn", OBJ(OpaqueFn)).param("coll", OBJ(PV)).param("cmp", OBJ(OpaqueFn))
            c.param_value("keyfn", fn_value("keyfn"))
        c.setup(ssetup)
        c.raises()

        def post(a, which=which):
            pre, st = a.pre.st, a.post.st
            items = elems(pre, a.coll)
            calls = st.ghost.get("sorted_calls", [])
            if not calls:
                return z3.And(z3.Length(items) == 0, a.result == a.eng.lift(llist.EMPTY, st))
            if len(calls) != 1 or calls[0]["lt"] is None:
                return z3.BoolVal(False)
            cl = calls[0]
            if which == "sort":
                want = THREEWAY(a.f, PA, PB) < 0
            else:
                kf = z3.Const("arg.keyfn", V.Val)
                want = THREEWAY(a.cmp, KEYFN(kf, PA), KEYFN(kf, PB)) < 0
            return z3.And(z3.Length(items) > 0, cl["n"] == z3.Length(items),
                          z3.Implies(z3.And(ANYIDX >= 0, ANYIDX < z3.Length(items)), cl["item"] == items[ANYIDX]),
                          cl["lt"] == want, SEQVIEW(a.result) == cl["content"])

        what = "comparator(x, y) < 0" if which == "sort" else "comparator(keyfn(x), keyfn(y)) < 0"
        c.ensures(f"an empty collection gives the empty list; otherwise the result is the sequence of sorted(<the collection's own elements, in their order>) "
                  f"under key objects whose < is exactly {what} - so ties keep their input order (sorted is stable) and nothing else decides the order", post)
        c.replay(lambda m, ctx, ob: SORT_REPLAY)
        c.replay_without_model = True


VEC_NIL_REPLAY = r'''
from basilisp.lang import runtime as rt, vector as vec
bad = []
for a, b, want in ((vec.v(None), vec.v(1), -1), (vec.v(1), vec.v(None), 1), (vec.v(None, 1), vec.v(1, 1), -1), (vec.v(1, None), vec.v(1, 2), -1), (vec.v(None), vec.v(None), 0)):
    try:
        got = rt.compare(a, b)
    except Exception as e:
        got = "%s: %s" % (type(e).__name__, e)
    if got != want:
        bad.append("(compare %s %s) -> %r, expected %r" % (a, b, got, want))
for line in bad:
    print(line)
print("REPRODUCED" if bad else "not reproduced")
'''


DEC_REPLAY = r'''
import decimal
from basilisp.lang import runtime
bad = []
for d, f in ((decimal.Decimal('0.10000000000000001'), 0.1), (decimal.Decimal('0.1'), 0.1), (decimal.Decimal('1.5'), 1.5), (decimal.Decimal('-2.5'), 3.0),
             (decimal.Decimal('9007199254740993'), 9007199254740992.0), (decimal.Decimal('1E+400'), 1.7976931348623157e308)):
    try:
        a, b = runtime.compare(d, f), runtime.compare(f, d)
    except Exception as e:
        a, b = '%s: %s' % (type(e).__name__, e), None
    if b is None or a != -b:
        bad.append('compare(%r, %r) -> %r but compare(%r, %r) -> %r' % (d, f, a, f, d, b))
print('\n'.join(bad[:8]))
print('REPRODUCED' if bad else 'not reproduced')
'''


SORT_REPLAY = r'''
from basilisp.lang import runtime as rt, vector as vec, keyword as kw, map as lmap
bad = []
def chk(desc, got, want):
    if got != want:
        bad.append('%s: expected %r, got %r' % (desc, want, got))
V = vec.v
try:
    data = V(V(1, "b"), V(1, "a"), V(0, "z"), V(1, "c"), V(0, "y"))
    first = lambda x: x[0]
    chk('sort-by is stable for ties', list(rt.sort_by(first, data)), [V(0, "z"), V(0, "y"), V(1, "b"), V(1, "a"), V(1, "c")])
    chk('sort-by with a three-way comparator', list(rt.sort_by(first, data, lambda a, b: b - a)), [V(1, "b"), V(1, "a"), V(1, "c"), V(0, "z"), V(0, "y")])
    chk('sort-by with a boolean comparator', list(rt.sort_by(first, data, lambda a, b: a > b)), [V(1, "b"), V(1, "a"), V(1, "c"), V(0, "z"), V(0, "y")])
    maps = V(lmap.map({"rank": 1, "n": "x"}), lmap.map({"rank": 0, "n": "y"}), lmap.map({"rank": 1, "n": "w"}))
    chk('sort-by on elements without an order of their own', [m.val_at("n") for m in rt.sort_by(lambda m: m.val_at("rank"), maps)], ["y", "x", "w"])
    pairs = V(V(2, "a"), V(1, "b"), V(2, "c"), V(1, "d"))
    chk('sort with a comparator is stable for ties', list(rt.sort(pairs, lambda a, b: a[0] - b[0])), [V(1, "b"), V(1, "d"), V(2, "a"), V(2, "c")])
    chk('sort', list(rt.sort(V(3, 1, 2))), [1, 2, 3])
    chk('sort with a three-way comparator whose results are not just -1/0/1', list(rt.sort(V(5, 1, 3, 9, 2), lambda a, b: a - b)), [1, 2, 3, 5, 9])
    chk('sort-by with such a comparator', list(rt.sort_by(lambda x: x, V(5, 1, 3, 9, 2), lambda a, b: (b - a) * 10)), [9, 5, 3, 2, 1])
    chk('sort of nothing', list(rt.sort(V()) or []), [])
except BaseException as e:
    bad.append('unexpected %s: %s' % (type(e).__name__, e))
for line in bad[:10]:
    print(line)
print('REPRODUCED' if bad else 'not reproduced')
'''
