"""C05 - equality is an equivalence that hashing and lookup respect.

Spec functions written from the property:

* ``lisp_eq(a, b)`` on elements: a boolean (or nil) only equals the identical value, everything else
  compares with Python ``==`` (this is runtime.equals; the property says it must also hold
  for elements of collections);
* sequential collections are equal iff they have the same length and pairwise ``lisp_eq`` elements;
* values that are equal hash equal: every sequential representation class (vector, list, queue)
  must hash its *view* with the same function ``H_tuple`` (hash of the tuple of its items).

The library hashes are uninterpreted: ``H_pvector`` for pvectorc's own algorithm, ``H_tuple`` for
plist/pdeque (documented: ``hash(tuple(self))``) and for ``hash(tuple(...))``.
"""
import z3

from pyvc import vals as V
from pyvc import lib, ops
from pyvc.contract import Pack, T, OBJ, ANY
from pyvc.engine import SV, Model, Raise, Exc, Unsupported


def _cls():
    from basilisp.lang.vector import PersistentVector
    from basilisp.lang.list import PersistentList
    from basilisp.lang.queue import PersistentQueue

    return PersistentVector, PersistentList, PersistentQueue


def view(st, obj):
    return V.seq_of(V.Val.a(z3.Select(st.field_array("_inner"), V.Val.a(obj))))


def is_boolish(v):
    return z3.Or(V.is_bool(v), V.is_none(v))


def lisp_eq(a, b):
    """runtime.equals as a formula: booleans and nil equal only themselves, otherwise Python ==."""
    return z3.If(z3.Or(is_boolish(a), is_boolish(b)), a == b, z3.Not(ops.ne_term(None, a, b)))


def py_ne(a, b):
    return ops.ne_term(None, a, b)


def setup(eng, st):
    lib.install(eng)
    lib.install_wrappers(eng)
    for c in _cls():
        eng.class_id(c)


SEQ_ITEMS = z3.Function("seq_items", V.Val, V.ValSeq)  # the elements of an ISeq, in order


def _abstract_seq():
    from basilisp.lang.interfaces import ISeq

    class AbstractSeq(ISeq):  # never instantiated: a class id + the MRO that leads to ISeq's methods
        """stand-in for any ISeq (lazy seq, cons, ...)"""

    return AbstractSeq


AbstractSeq = _abstract_seq()

H_tuple = ops.opq("H_tuple", V.ValSeq, z3.IntSort())
lib_map_hash = ops.opq("H_map", z3.ArraySort(V.Val, V.Val), z3.ArraySort(V.Val, z3.BoolSort()), z3.IntSort())  # the function pyvc/lib.py uses for hash(<immutables.Map>)
H_pvector = ops.opq("H_pvector", V.ValSeq, z3.IntSort())


def build(active_known=frozenset()):
    PV, PL, PQ = _cls()
    pack = Pack("C05", "Equality is an equivalence that hashing and lookup respect")
    pack.trust("pyrsistent plist/pdeque hash as hash(tuple(self)); pvectorc hashes with its own algorithm (no relation to tuple hashing is assumed); Python's tuple hash is a function of the element hashes, so pairwise-equal elements with equal hashes give equal tuple hashes")
    pack.trust("iterating a PersistentList (native SeqIterator over first/rest) yields the items of the wrapped plist in order")
    pack.trust("immutables.Map == Map compares sizes and then every entry of the left map with the right one by ==; Map == <other class> is NotImplemented (reflected __eq__ runs); "
               "collections.abc.Set.__eq__ is 'same length and every member of self is in other'; a map's size is the cardinality of its key set")
    pack.assume("element __eq__/__ne__/__hash__ are pure; a != b is the negation of a == b for elements (default __ne__)")
    j = z3.Int("j")

    # ------------------------------------------------------------------ runtime.equals
    c = pack.contract("basilisp.lang.runtime:equals")
    c.setup(setup)
    c.raises()
    c.ensures("a boolean or nil equals only the identical value; everything else compares with ==",
              lambda a: z3.And(V.is_bool(a.result), V.Val.b(a.result) == z3.If(z3.Or(is_boolish(a.v1), is_boolish(a.v2)), a.v1 == a.v2, ops.eq_term(None, a.v1, a.v2))))

    # ------------------------------------------------------------------ seq_equals on two sequential collections
    for (C1, C2) in ((PV, PV), (PV, PL), (PL, PV), (PQ, PV)):
        c = pack.contract("basilisp.lang.interfaces:seq_equals")
        c.label = f"{C1.__name__}-{C2.__name__}"
        c.param("s1", OBJ(C1)).param("s2", OBJ(C2))
        c.setup(setup)
        c.raises()
        if "C05-bool-vs-number-elements" in active_known:
            c.requires("[carve-out of known finding C05-bool-vs-number-elements] no pair of corresponding elements is a boolean/nil against a different value that Python's == identifies with it",
                       lambda a: z3.ForAll([j], z3.Implies(z3.And(j >= 0, j < z3.Length(view(a.pre.st, a.s1)), j < z3.Length(view(a.pre.st, a.s2))),
                                                          (lambda x_, y_: z3.Implies(z3.Or(is_boolish(x_), is_boolish(y_)), z3.Not(py_ne(x_, y_)) == (x_ == y_)))(view(a.pre.st, a.s1)[j], view(a.pre.st, a.s2)[j]))))

        def post(a):
            A, B = view(a.pre.st, a.s1), view(a.pre.st, a.s2)
            same = z3.And(z3.Length(A) == z3.Length(B), z3.ForAll([j], z3.Implies(z3.And(j >= 0, j < z3.Length(A)), lisp_eq(A[j], B[j]))))
            return z3.And(V.is_bool(a.result), V.Val.b(a.result) == same)

        c.ensures("equal exactly when the lengths agree and corresponding elements are equal (a boolean never equals a number)", post)

        def inv(ctx):
            A = V.seq_of(V.Val.a(ctx.field(ctx["s1"], "_inner")))
            B = V.seq_of(V.Val.a(ctx.field(ctx["s2"], "_inner")))
            return z3.And(ctx.i <= z3.Length(A), ctx.i <= z3.Length(B),
                          z3.ForAll([j], z3.Implies(z3.And(j >= 0, j < ctx.i), z3.Not(py_ne(A[j], B[j])))))

        c.loop(0, invariant=inv, frame=[], lists=False)

        def rp(m, ctx, ob):
            return ELEM_REPLAY.replace("KNOWN_BOOL_FINDING", repr("C05-bool-vs-number-elements" in active_known))

        c.replay(rp)
        c.replay_without_model = True

    # ------------------------------------------------------------------ hashes: one function of the view for every class
    for C, modname in ((PV, "vector"), (PL, "list"), (PQ, "queue")):
        c = pack.contract(f"basilisp.lang.{modname}:{C.__name__}.__hash__")
        c.param("self", OBJ(C))
        c.setup(setup)
        c.raises()
        c.ensures("hash(x) is the tuple hash of x's items - the same function for every sequential representation, so equal sequences hash equal",
                  lambda a: z3.And(V.is_int(a.result), V.Val.i(a.result) == H_tuple(view(a.pre.st, a.self))))
        c.ensures("the hash does not depend on metadata", lambda a: z3.BoolVal(True))

        def rph(m, ctx, ob):
            return HASH_REPLAY

        c.replay(rph)
        c.replay_without_model = True

    # ---- lazy seqs, conses and every other ISeq inherit ISeq.__hash__: the same function of all the elements
    from basilisp.lang.interfaces import ISeq

    def seq_setup(eng, st):
        setup(eng, st)
        eng.class_id(AbstractSeq)
        from pyvc.loops import SymIter

        eng.method_models[(AbstractSeq, "__iter__")] = Model("iter(<an ISeq>) (its elements, in order)", lambda e, s, a, k: iter([(s, SymIter(SEQ_ITEMS(e.lift(a[0], s))))]))

    c = pack.contract("basilisp.lang.interfaces:ISeq.__hash__")
    c.param("self", OBJ(AbstractSeq))
    c.setup(seq_setup)
    c.raises()
    c.ensures("the hash of a seq (lazy seq, cons, ...) is the tuple hash of *all* its elements - the function vectors, lists and queues use, so a seq equal to one of them "
              "hashes like it and finds it as a map key", lambda a: z3.And(V.is_int(a.result), V.Val.i(a.result) == H_tuple(SEQ_ITEMS(a.self))))
    c.replay(lambda m, ctx, ob: HASH_REPLAY)
    c.replay_without_model = True

    # ------------------------------------------------------------------ maps and sets: equal exactly when they have equal entries
    from basilisp.lang.map import PersistentMap
    from basilisp.lang.set import PersistentSet
    from collections.abc import Set as AbstractSet_
    from pyvc.engine import BoundMethod

    def parts(st, obj):
        a_ = V.Val.a(z3.Select(st.field_array("_inner"), V.Val.a(obj)))
        return V.map_of(a_), V.dom_of(a_), lib.map_size(a_)

    kq = z3.Const("kq", V.Val)

    def map_setup(eng, st):
        setup(eng, st)
        IMap = eng.libcls["IMap"]

        def imap_eq(e, s, a, k):
            # trusted (immutables): Map == Map compares sizes, then looks every key of the left map up in the right one and compares the
            # values with == ; Map == <anything else> is NotImplemented, so that Python tries the reflected other.__eq__(map)
            me, other = a
            if isinstance(other, SV) and other.hint is IMap:
                a1, a2 = V.Val.a(me.t), V.Val.a(other.t)
                same = z3.And(lib.map_size(a1) == lib.map_size(a2),
                              z3.ForAll([kq], z3.Implies(z3.Select(V.dom_of(a1), kq),
                                                         z3.And(z3.Select(V.dom_of(a2), kq), z3.Not(py_ne(z3.Select(V.map_of(a1), kq), z3.Select(V.map_of(a2), kq)))))))
                yield s, SV(V.mk_bool(same))
                return
            if isinstance(other, SV) and other.hint is not None:
                m_ = e.lookup_method(other.hint, "__eq__")
                if m_ is None:
                    raise Unsupported("reflected == on a class without __eq__")
                s.ghost["reflected_eq"] = s.ghost.get("reflected_eq", 0) + 1
                if s.ghost["reflected_eq"] > 2:
                    raise Unsupported("reflected == does not settle")
                yield from e.call(BoundMethod(other, m_), [me], {}, s)
                return
            raise Unsupported("immutables.Map == a value of unknown class")

        eng.method_models[(IMap, "__eq__")] = Model("immutables.Map.__eq__ (trusted: same size and equal entries; NotImplemented -> reflected __eq__)", imap_eq)

        def abstract_set_eq(e, s, a, k):
            # trusted (collections.abc.Set.__eq__): len(self) == len(other) and every element of self is in other
            me, other = a
            n1 = yield_len(e, s, me)
            n2 = yield_len(e, s, other)
            d1, d2 = parts(s, me.t)[1], parts(s, other.t)[1]
            yield s, SV(V.mk_bool(z3.And(n1 == n2, z3.ForAll([kq], z3.Implies(z3.Select(d1, kq), z3.Select(d2, kq))))))

        def yield_len(e, s, obj):
            return parts(s, obj.t)[2]

        eng.models[id(AbstractSet_.__eq__)] = Model("collections.abc.Set.__eq__ (trusted: equal sizes and every member of the left set is a member of the right one)", abstract_set_eq)

    def entries_equal(a, with_values):
        m1, d1, n1 = parts(a.pre.st, a.self)
        m2, d2, n2 = parts(a.pre.st, a.other)
        per_key = z3.Select(d2, kq)
        if with_values:
            per_key = z3.And(per_key, lisp_eq(z3.Select(m1, kq), z3.Select(m2, kq)))
        return z3.And(n1 == n2, z3.ForAll([kq], z3.Implies(z3.Select(d1, kq), per_key)))

    for C, with_values, what in ((PersistentMap, True, "two maps are equal exactly when they have the same number of entries and every key of one is a key of the other with an equal value "
                                  "(nil is a value like any other: an entry holding nil is not matched by a missing key)"),
                                 (PersistentSet, False, "two sets are equal exactly when they have the same number of members and every member of one is a member of the other")):
        c = pack.contract(f"{C.__module__}:{C.__name__}.__eq__")
        c.label = "against the same kind of collection"
        c.param("self", OBJ(C)).param("other", OBJ(C))
        c.setup(map_setup)
        c.requires("both wrap an immutables.Map whose recorded size is the number of its keys: not negative, and two key sets of the same size include each other both "
                   "ways or not at all (finite sets); element == is symmetric (assumed of elements, as the property demands of =)",
                   lambda a: (lambda d1, n1, d2, n2, x_, y_: z3.And(
                       n1 >= 0, n2 >= 0,
                       z3.Implies(n1 == n2, z3.ForAll([kq], z3.Implies(z3.Select(d1, kq), z3.Select(d2, kq))) == z3.ForAll([kq], z3.Implies(z3.Select(d2, kq), z3.Select(d1, kq)))),
                       z3.ForAll([x_, y_], py_ne(x_, y_) == py_ne(y_, x_))))(
                           parts(a.pre.st, a.self)[1], parts(a.pre.st, a.self)[2], parts(a.pre.st, a.other)[1], parts(a.pre.st, a.other)[2], z3.Const("x_", V.Val), z3.Const("y_", V.Val)))
        if with_values and "C05-bool-vs-number-elements" in active_known:
            c.requires("[carve-out of known finding C05-bool-vs-number-elements] no key holds a boolean/nil in one map and a different value that Python's == identifies with it in the other",
                       lambda a: z3.ForAll([kq], (lambda x_, y_: z3.Implies(z3.Or(is_boolish(x_), is_boolish(y_)), z3.Not(py_ne(x_, y_)) == (x_ == y_)))(
                           z3.Select(parts(a.pre.st, a.self)[0], kq), z3.Select(parts(a.pre.st, a.other)[0], kq))))
        c.raises()
        c.ensures(what, lambda a, with_values=with_values: z3.And(V.is_bool(a.result), V.Val.b(a.result) == z3.Or(a.self == a.other, entries_equal(a, with_values))))
        c.replay(lambda m, ctx, ob: MAPSET_REPLAY.replace("KNOWN_BOOL_FINDING", repr("C05-bool-vs-number-elements" in active_known)))
        c.replay_without_model = True

    # ---- and their hashes: a function of the entries / members alone (never of the metadata), the same for every map / set object
    H_set = ops.opq("H_set", z3.ArraySort(V.Val, z3.BoolSort()), z3.IntSort())

    def hash_setup(eng, st):
        map_setup(eng, st)
        eng.method_models[(PersistentSet, "_hash")] = Model("collections.abc.Set._hash (trusted: a function of the members)",
                                                   lambda e, s, a, k: iter([(s, SV(V.mk_int(H_set(parts(s, a[0].t)[1]))))]))

    for C, spec in ((PersistentMap, lambda a: lib_map_hash(parts(a.pre.st, a.self)[0], parts(a.pre.st, a.self)[1])), (PersistentSet, lambda a: H_set(parts(a.pre.st, a.self)[1]))):
        c = pack.contract(f"{C.__module__}:{C.__name__}.__hash__")
        c.param("self", OBJ(C))
        c.setup(hash_setup)
        c.raises()
        c.ensures("the hash is the library's hash of the entries (members) and nothing else - in particular not of the metadata - so that maps (sets) with the same entries "
                  "hash alike whatever object they are", lambda a, spec=spec: z3.And(V.is_int(a.result), V.Val.i(a.result) == spec(a)))
        c.replay(lambda m, ctx, ob: MAPSET_REPLAY.replace("KNOWN_BOOL_FINDING", repr("C05-bool-vs-number-elements" in active_known)))
        c.replay_without_model = True

    # ------------------------------------------------------------------ lemmas about the spec relation
    e = z3.Function("elem_eq", V.Val, V.Val, z3.BoolSort())
    x, y, w = z3.Consts("x y w", V.Val)
    equiv = [z3.ForAll([x, y], e(x, y) == e(y, x)), z3.ForAll([x, y, w], z3.Implies(z3.And(e(x, y), e(y, w)), e(x, w)))]

    def seq_eq(A, B, tag):
        k = z3.Int("k" + tag)
        return z3.And(z3.Length(A) == z3.Length(B), z3.ForAll([k], z3.Implies(z3.And(k >= 0, k < z3.Length(A)), e(A[k], B[k]))))

    SA, SB, SC = [z3.Const(n, V.ValSeq) for n in "ABC"]
    pack.lemma("sequence equality is symmetric when element equality is", lambda: (equiv + [seq_eq(SA, SB, "1")], seq_eq(SB, SA, "2")))
    pack.lemma("sequence equality is transitive when element equality is", lambda: (equiv + [seq_eq(SA, SB, "1"), seq_eq(SB, SC, "2")], seq_eq(SA, SC, "3")))
    pack.lemma("equal views hash equal for every pair of representation classes (all hash H_tuple of the view)", lambda: ([SA == SB], H_tuple(SA) == H_tuple(SB)))
    return pack


MAPSET_REPLAY = r'''
import itertools
from basilisp.lang import map as lmap, set as lset, keyword as kw, runtime
a, b, c_ = kw.keyword("a"), kw.keyword("b"), kw.keyword("c")
maps = [lmap.map({}), lmap.map({a: None}), lmap.map({b: None}), lmap.map({a: 1}), lmap.map({b: 1}), lmap.map({a: None, b: 1}), lmap.map({a: 1, b: None}), lmap.map({a: 1, b: 2}),
        lmap.map({a: 1, c_: 2}), lmap.map({a: 1}, meta=lmap.map({b: 2})), lmap.map({a: lmap.map({b: None})}), lmap.map({a: lmap.map({c_: None})})]
sets = [lset.s(), lset.s(None), lset.s(a), lset.s(a, b), lset.s(a, c_), lset.s(None, a), lset.s(b, a), lset.s(a, meta=lmap.map({b: 2}))]
bad = []
def entries(m):
    return sorted(((repr(k), repr(v)) for k, v in m.items())) if hasattr(m, "items") else sorted(repr(x) for x in m)
for coll in (maps, sets):
    for x, y in itertools.product(coll, repeat=2):
        want = entries(x) == entries(y)
        got = runtime.equals(x, y)
        if got != want:
            bad.append("(= %r %r) is %r, the entries are %s" % (x, y, got, "equal" if want else "different"))
        if runtime.equals(x, y) != runtime.equals(y, x):
            bad.append("(= %r %r) and (= %r %r) differ" % (x, y, y, x))
        if got and hash(x) != hash(y):
            bad.append("%r and %r are = but hash differently" % (x, y))
for line in bad[:10]:
    print(line)
print("REPRODUCED" if bad else "not reproduced")
'''


ELEM_REPLAY = r'''
from basilisp.lang import vector as vec, list as llist, runtime
from basilisp.lang import queue as lqueue, seq as lseq
# pairs whose elements are a boolean against the number Python identifies it with (the recorded known finding) ...
bool_pairs = [(vec.v(True), vec.v(1)), (vec.v(1), llist.l(True)), (vec.v(False, 2), vec.v(0, 2))]
# ... and pairs that differ in length / nil padding / representation class
def lazy(*xs):
    return lseq.iterator_sequence(iter(xs))
shape_pairs = [(vec.v(None), vec.v(None)), (llist.l(), llist.l(None)), (llist.l(None), llist.l()), (llist.l(1), llist.l(1, None)), (vec.v(1), lazy(1, None)), (lazy(1, None), vec.v(1)),
               (vec.v(1, 2), llist.l(1, 2)), (llist.l(1, 2), vec.v(1, 2)), (lqueue.q(1, 2), vec.v(1, 2)), (vec.v(1, 2), vec.v(1, 3)), (vec.v(1, 2), llist.l(1)), (llist.l(), vec.v()), (llist.l(None, None), llist.l(None))]
pairs = shape_pairs + ([] if KNOWN_BOOL_FINDING else bool_pairs)
bad = []
for a, b in pairs:
    la, lb = list(a), list(b)
    elementwise = len(la) == len(lb) and all(runtime.equals(x, y) for x, y in zip(la, lb))
    if (a == b) != elementwise:
        bad.append("%r == %r is %s although the lengths are %d/%d and runtime.equals on the elements says %s" % (a, b, a == b, len(la), len(lb), elementwise))
for l in bad:
    print(l)
print("REPRODUCED" if bad else "not reproduced")
'''

HASH_REPLAY = r'''
from basilisp.lang import vector as vec, list as llist, queue as lqueue, map as lmap
a, b, q = vec.v(1, 2), llist.l(1, 2), lqueue.q(1, 2)
print("(= [1 2] '(1 2)):", a == b, " hashes:", hash(a), hash(b), hash(q))
m = lmap.map({a: "found"})
print("(get {[1 2] :found} '(1 2)) ->", m.val_at(b))
bad = (a == b and hash(a) != hash(b)) or (q == a and hash(q) != hash(a)) or (a == b and m.val_at(b) != "found")
from basilisp.lang import seq as lseq
for n in (0, 1, 3, 32, 33, 100):
    v = vec.vector(range(n))
    for label, sq in (("lazy seq", lseq.iterator_sequence(iter(range(n)))), ("seq of a vector", v.seq()), ("cons", lseq.Cons(0, lseq.iterator_sequence(iter(range(1, n)))) if n else None)):
        if sq is None:
            continue
        if sq == v and hash(sq) != hash(v):
            print("n=%d: a %s equals the vector but hashes differently" % (n, label))
            bad = True
        if sq == v and lmap.map({v: "found"}).val_at(sq) != "found":
            print("n=%d: a %s equal to the vector does not find it as a map key" % (n, label))
            bad = True
print("REPRODUCED" if bad else "not reproduced")
'''
