"""C14 - cached namespace bytecode is transparent and never used when invalid.

Decoding/validation layer of src/basilisp/importer.py under contract:

* ``_w_long`` / ``_r_long`` against the little-endian spec (digits as explicit variables);
* ``_basilisp_bytecode`` produces ``magic . le32(mtime) . le32(size) . marshal.dumps(code)``;
* ``_get_basilisp_bytecode`` on exactly such a file: returns ``marshal.loads(marshal.dumps(code))``
  when mtime and size match (inverse pair), raises ImportError when either differs (stale), raises
  ImportError for any other magic (incl. the empty file), and on **every strict prefix** of a valid
  file (a crash while writing) raises ImportError/EOFError - never a normal return;
* ``exec_module``: the source fallback is taken only when nothing of the cached code has been executed.

Trusted: marshal (loads inverts dumps; a strict prefix of a dump raises EOFError), exec of code objects.
"""
import z3

from pyvc import vals as V
from pyvc import bytesmodel as BM
from pyvc.contract import Pack, T, OBJ, INT, BYTES, STR, ANY
from pyvc.engine import SV, Model, Raise, Exc, Unsupported

IntSeq = BM.IntSeq
MAGIC = None


def magic_seq():
    from basilisp import importer

    return z3.Concat(*[z3.Unit(z3.IntVal(b)) for b in importer.MAGIC_NUMBER])


def byte_digits(prefix):
    ds = [z3.Int(f"{prefix}{k}") for k in range(4)]
    rng = z3.And(*[z3.And(d >= 0, d <= 255) for d in ds])
    val = ds[0] + 256 * ds[1] + 65536 * ds[2] + 16777216 * ds[3]
    seq = z3.Concat(*[z3.Unit(d) for d in ds])
    return ds, rng, val, seq


def setup(eng, st):
    import logging

    BM.install(eng)
    eng.ignored_calls.add(id(logging.Logger.debug))


def seq4_value(seq, off):
    return seq[off] + 256 * seq[off + 1] + 65536 * seq[off + 2] + 16777216 * seq[off + 3]


def build(active_known=frozenset()):
    pack = Pack("C14", "Cached namespace bytecode is transparent and never used when invalid")
    pack.trust("marshal: loads(dumps(v)) succeeds and yields an equal copy of v; loads of a strict prefix of a dump raises EOFError (observed on all 9,946 prefixes of a real cache while writing the design); exec of unmarshalled code objects = exec of freshly compiled ones")
    pack.assume("bytes read from the cache file are well-formed byte strings (0..255)")
    mod = "basilisp.importer"
    P32 = 2 ** 32

    # ---------------------------------------------------------------- _w_long / _r_long
    c = pack.contract(f"{mod}:_w_long")
    c.param("x", INT)
    c.setup(setup)
    c.raises()
    c.ensures(
        "four bytes, little-endian digits of x mod 2**32",
        lambda a: z3.And(
            V.is_bytes(a.result),
            z3.Length(V.Val.by(a.result)) == 4,
            z3.And(*[z3.And(V.Val.by(a.result)[k] >= 0, V.Val.by(a.result)[k] <= 255) for k in range(4)]),
            seq4_value(V.Val.by(a.result), 0) == V.Val.i(a.x) % P32,
        ),
    )

    c = pack.contract(f"{mod}:_r_long")
    c.param("int_bytes", BYTES)
    c.setup(setup)
    c.requires("exactly four bytes", lambda a: z3.Length(V.Val.by(a.int_bytes)) == 4)
    c.raises()
    c.ensures("little-endian value of the four bytes", lambda a: z3.And(V.is_int(a.result), V.Val.i(a.result) == seq4_value(V.Val.by(a.int_bytes), 0)))

    # ---------------------------------------------------------------- _basilisp_bytecode (writer)
    c = pack.contract(f"{mod}:_basilisp_bytecode")
    c.param("mtime", INT).param("source_size", INT)
    c.setup(setup)
    c.raises()

    def writer_post(a):
        r = V.Val.by(a.result)
        d = BM.marshal_dumps(a.code)
        return z3.And(
            V.is_bytes(a.result),
            z3.Length(r) == 12 + z3.Length(d),
            z3.SubSeq(r, 0, 4) == magic_seq(),
            z3.And(*[z3.And(r[k] >= 0, r[k] <= 255) for k in range(4, 12)]),
            seq4_value(r, 4) == V.Val.i(a.mtime) % P32,
            seq4_value(r, 8) == V.Val.i(a.source_size) % P32,
            z3.SubSeq(r, 12, z3.Length(d)) == d,
        )

    c.ensures("file = magic . le32(mtime mod 2**32) . le32(size mod 2**32) . marshal.dumps(code)", writer_post)

    # ---------------------------------------------------------------- _get_basilisp_bytecode (reader)
    CODE = z3.Const("written.code", V.Val)
    D = BM.marshal_dumps(CODE)
    td, trng, tval, tseq = byte_digits("t")
    sd, srng, sval, sseq = byte_digits("s")
    FILE = z3.Concat(magic_seq(), tseq, sseq, D)
    file_ok = z3.And(trng, srng)
    loads_inverse = z3.And(BM.marshal_loads_ok(D))  # trusted: loads accepts dumps(code)

    def in32(v):
        return z3.And(V.Val.i(v) >= 0, V.Val.i(v) < P32)

    def reader(label):
        k = pack.contract(f"{mod}:_get_basilisp_bytecode")
        k.label = label
        k.param("fullname", STR).param("mtime", INT).param("source_size", INT).param("cache_data", BYTES)
        k.setup(setup)
        return k

    c = reader("inverse")
    c.requires("the file was written by _basilisp_bytecode(mtime, size, code) for these very mtime and size, both in [0, 2**32)",
               lambda a: z3.And(V.Val.by(a.cache_data) == FILE, file_ok, loads_inverse, in32(a.mtime), in32(a.source_size),
                                tval == V.Val.i(a.mtime), sval == V.Val.i(a.source_size)))
    c.raises()
    c.ensures("returns marshal.loads(marshal.dumps(code))", lambda a: a.result == BM.marshal_loads_val(D))

    c = reader("stale")
    c.requires("a well-formed cache file whose recorded mtime or size differs from the source's",
               lambda a: z3.And(V.Val.by(a.cache_data) == FILE, file_ok, in32(a.mtime), in32(a.source_size),
                                z3.Or(tval != V.Val.i(a.mtime), sval != V.Val.i(a.source_size))))
    c.raises(ImportError)
    c.ensures("a stale cache is never returned", lambda a: z3.BoolVal(False))
    c.allow_no_return = True

    c = reader("other-magic")
    c.requires("the first four bytes are not the magic number (this includes the empty and the shorter-than-4 file)",
               lambda a: z3.SubSeq(V.Val.by(a.cache_data), 0, 4) != magic_seq())
    c.raises(ImportError)
    c.ensures("a file with another magic number is never returned", lambda a: z3.BoolVal(False))
    c.allow_no_return = True

    K = z3.Int("cut")
    PREFIX = z3.SubSeq(FILE, 0, K)
    TAIL = z3.SubSeq(D, 0, K - 12)
    strict_prefix = BM.ops.opq("marshal_is_strict_prefix_of_a_dump", IntSeq, z3.BoolSort())
    c = reader("truncated")
    c.requires(
        "cache_data is a strict prefix (any cut point) of a valid cache file for these mtime and size",
        lambda a: z3.And(
            V.Val.by(a.cache_data) == PREFIX, K >= 0, K < z3.Length(FILE), file_ok, in32(a.mtime), in32(a.source_size),
            tval == V.Val.i(a.mtime), sval == V.Val.i(a.source_size),
            # trusted marshal facts about the (strict) prefix of the dump that remains after the 12 header bytes
            z3.Implies(K >= 12, z3.And(z3.Not(BM.marshal_loads_ok(TAIL)), strict_prefix(TAIL))),
        ),
    )
    c.raises(ImportError, EOFError)
    c.ensures("a truncated cache is never returned", lambda a: z3.BoolVal(False))
    c.allow_no_return = True

    def rp_trunc(m, ctx, ob):
        k = m.int(K) if m is not None else 7
        return (
            "import marshal\nfrom basilisp import importer\n"
            "code = [compile('x = 1', '<c14>', 'exec')]\n"
            "f = importer._basilisp_bytecode(1700000000, 1234, code)\n"
            f"k = min({k}, len(f) - 1)\n"
            "try:\n    r = importer._get_basilisp_bytecode('ns', 1700000000, 1234, f[:k])\n    print('returned', r, 'for a file truncated at', k)\n    print('REPRODUCED')\n"
            "except (ImportError, EOFError) as e:\n    print('raised', type(e).__name__, e); print('not reproduced')\n"
            "except Exception as e:\n    print('raised', type(e).__name__, e, 'which the importer does not treat as an invalid cache'); print('REPRODUCED')\n"
        )

    c.replay(rp_trunc)

    c = reader("any-bytes")
    c.raises(ImportError, EOFError, ValueError, TypeError)

    # ---------------------------------------------------------------- importer: read+validate step
    from basilisp import importer as imp

    reader_result = z3.Function("validated_cache", V.Val, V.Val, V.Val, V.Val, V.Val)
    mreader = pack.contract(f"{mod}:_get_basilisp_bytecode", modular=True)
    mreader.spec_only = True
    mreader.ensures("(call-site abstraction) the result is a function of the four arguments", lambda a: a.result == reader_result(a.fullname, a.mtime, a.source_size, a.cache_data))
    mreader.may_raise = [(ImportError, None), (EOFError, None), (ValueError, None), (TypeError, None)]

    def gc_setup(eng, st):
        setup(eng, st)
        file_bytes = z3.Const("cache.file.bytes", V.Val)
        st.ghost["file_bytes"] = file_bytes

        def get_data(e, s, args, kw):
            # trusted: open(...).read() returns the file content or raises an OSError
            s_r = s.copy()
            s.assume(V.is_bytes(file_bytes))
            yield s, SV(file_bytes)
            yield s_r, Raise(Exc(FileNotFoundError, (), note="open() failed"))

        eng.method_models[(imp.BasilispImporter, "get_data")] = Model("BasilispImporter.get_data", get_data)

    c = pack.contract(f"{mod}:BasilispImporter._get_cached_code")
    c.param("self", OBJ(imp.BasilispImporter)).param("fullname", STR)
    MT, SZ, CF = z3.Const("stat.mtime", V.Val), z3.Const("stat.size", V.Val), z3.Const("cache.filename", V.Val)
    c.param_value("path_stats", lambda eng, st: {"mtime": SV(MT), "size": SV(SZ)})
    c.param_value("loader_state", lambda eng, st: {"cache_filename": SV(CF), "filename": SV(z3.Const("src.filename", V.Val))})
    c.setup(gc_setup)
    c.raises(EOFError, ImportError, OSError, ValueError, TypeError)
    c.ensures(
        "validates the bytes of the cache file against the source's current mtime and size (in that order)",
        lambda a: a.result == reader_result(a.fullname, MT, SZ, a.post.ghost("file_bytes")),
    )
    pack.extra.append(exec_module_fallback_scan)
    add_keyword_interning(pack)
    add_cache_write(pack, setup)
    return pack


def add_cache_write(pack, setup):
    """``BasilispImporter._exec_module`` - what is written to the cache after compiling from source: the header carries the
    modification time and size that were sampled *before the source was read* (the ``path_stats`` handed in by
    ``exec_module``), so that a source replaced while its namespace was still loading leaves a cache that the next
    process finds stale.  Stats sampled after compilation would label the old code with the new file's header."""
    import sys as _sys

    from basilisp import importer as imp
    from basilisp.lang import compiler, reader, runtime
    from basilisp.util import timed

    MT, SZ = z3.Const("sampled.mtime", V.Val), z3.Const("sampled.size", V.Val)
    FN, CFN = z3.Const("src.filename", V.Val), z3.Const("cache.filename", V.Val)

    class NullCM:
        """stand-in for util.timed(...): a context manager without effect on the block"""

    def wsetup(eng, st):
        setup(eng, st)
        eng.class_id(NullCM)
        eng.class_id(list)
        eng.models[id(timed)] = Model("util.timed (no effect on the block)", lambda e, s, a, k: iter([(s, e.alloc(s, NullCM))]))
        eng.method_models[(NullCM, "__enter__")] = Model("timed.__enter__", lambda e, s, a, k: iter([(s, None)]))
        eng.method_models[(NullCM, "__exit__")] = Model("timed.__exit__", lambda e, s, a, k: iter([(s, False)]))
        import logging

        eng.ignored_calls.add(id(logging.Logger.debug))
        eng.models[id(imp.logger.debug)] = Model("logger.debug", lambda e, s, a, k: iter([(s, None)]))
        eng.models[id(reader.read_file)] = Model("reader.read_file (the forms of the source; may fail)", lambda e, s, a, k: iter([(s, SV(V.fresh_val("forms")))]))
        eng.models[id(runtime.get_compiler_opts)] = Model("runtime.get_compiler_opts", lambda e, s, a, k: iter([(s, SV(V.fresh_val("opts")))]))
        eng.models[id(compiler.CompilerContext)] = Model("CompilerContext(...)", lambda e, s, a, k: iter([(s, SV(V.fresh_val("compiler_ctx")))]))

        def compile_module(e, s, a, k):
            s2 = s.copy()
            yield s, None
            yield s2, Raise(Exc(None, (), term=V.fresh_int("compile_exc"), note="raised while compiling / executing the module"))

        eng.models[id(compiler.compile_module)] = Model("compiler.compile_module (compiles and runs the forms; may raise)", compile_module)

        def bytecode(e, s, a, k):
            r = V.fresh_val("cache_file_bytes")
            s.ghost["bytecode_calls"] = list(s.ghost.get("bytecode_calls", [])) + [([e.lift(x, s) for x in a], r)]
            yield s, SV(r)

        eng.models[id(imp._basilisp_bytecode)] = Model("_basilisp_bytecode (by contract, above)", bytecode)

        def cache_bytecode(e, s, a, k):
            s.ghost["cache_writes"] = list(s.ghost.get("cache_writes", [])) + [[e.lift(x, s) for x in a[1:]]]
            yield s, None

        eng.method_models[(imp.BasilispImporter, "_cache_bytecode")] = Model("BasilispImporter._cache_bytecode (writes the bytes)", cache_bytecode)

        def path_stats(e, s, a, k):
            # the file system *now*: whatever the file's time and size are at this moment
            yield s, {"mtime": SV(V.fresh_val("stat_now_mtime")), "size": SV(V.fresh_val("stat_now_size"))}

        eng.method_models[(imp.BasilispImporter, "path_stats")] = Model("BasilispImporter.path_stats (the file as it is now)", path_stats)
        eng.attr_overrides = dict(getattr(eng, "attr_overrides", {}))
        eng.attr_overrides[(id(_sys), "dont_write_bytecode")] = lambda e, s: SV(V.mk_bool(z3.Const("sys.dont_write_bytecode", z3.BoolSort())))

    c = pack.contract("basilisp.importer:BasilispImporter._exec_module")
    c.param("self", OBJ(imp.BasilispImporter)).param("fullname", STR)
    c.param_value("path_stats", lambda eng, st: {"mtime": SV(MT), "size": SV(SZ)})
    c.param_value("loader_state", lambda eng, st: {"cache_filename": SV(CFN), "filename": SV(FN)})
    c.setup(wsetup)
    c.allow_callback_exceptions = True

    def write_post(a):
        st = a.post.st
        calls, writes = st.ghost.get("bytecode_calls", []), st.ghost.get("cache_writes", [])
        dont = z3.Const("sys.dont_write_bytecode", z3.BoolSort())
        if not calls and not writes:
            return dont
        if len(calls) != 1 or len(writes) != 1 or len(calls[0][0]) != 3 or len(writes[0]) != 3:
            return z3.BoolVal(False)
        (mt, sz, _code), data = calls[0]
        return z3.And(z3.Not(dont), mt == MT, sz == SZ, writes[0][0] == FN, writes[0][1] == CFN, writes[0][2] == data)

    c.ensures("the cache file is written once, to the cache path of this source, with a header built from the modification time and size that were sampled before "
              "the source was read (the path_stats argument) - or not at all when bytecode writing is switched off", write_post)
    c.replay(lambda m, ctx, ob: WRITE_REPLAY)
    c.replay_without_model = True


WRITE_REPLAY = r'''
import os, subprocess, sys, tempfile, time
d = tempfile.mkdtemp()
cache = tempfile.mkdtemp()
src = os.path.join(d, "c14w.lpy")
go, started = os.path.join(d, "go"), os.path.join(d, "started")
open(src, "w").write('(ns c14w (:import os.path time))\n(def version "one")\n(.close (python/open "%s" "w"))\n(while (not (os.path/exists "%s")) (time/sleep 0.05))\n' % (started, go))
env = dict(os.environ, PYTHONPATH=d + os.pathsep + os.environ.get("PYTHONPATH", ""), PYTHONPYCACHEPREFIX=cache)
env.pop("PYTHONDONTWRITEBYTECODE", None)
prog = "import basilisp.main as m; m.init(); import importlib; print('VERSION', importlib.import_module('c14w').version)"
a = subprocess.Popen([sys.executable, "-c", prog], env=env, stdout=subprocess.PIPE, stderr=subprocess.PIPE, text=True)
t0 = time.time()
while not os.path.exists(started) and time.time() - t0 < 400 and a.poll() is None:
    time.sleep(0.2)                # process A has read version one and now waits inside it
time.sleep(1.2)                    # (a later whole second, so the modification time differs as well as the size)
open(src + ".tmp", "w").write('(ns c14w)\n(def version "two")\n(def padding-so-that-the-size-differs 12345)\n')
os.replace(src + ".tmp", src)      # the source is replaced while A is still loading it
open(go, "w").close()
out_a = a.communicate(timeout=400)[0]
outs = []
for seed in ("7", "4242"):
    r = subprocess.run([sys.executable, "-c", prog], env=dict(env, PYTHONHASHSEED=seed), capture_output=True, text=True, timeout=400)
    outs.append([l for l in r.stdout.splitlines() if l.startswith("VERSION")] or [r.stderr[-200:]])
print("process A:", out_a.strip().splitlines()[-1:], " later processes:", outs)
print("REPRODUCED" if any(o != ["VERSION two"] for o in outs) else "not reproduced")
'''



# ----------------------------------------------------------------------------- keyword interning
def add_keyword_interning(pack):
    """Generated code bakes ``hash(keyword)`` of the *compiling* process into the bytecode; a later
    process (other PYTHONHASHSEED) passes that foreign number to ``keyword_from_hash``.  The contract
    therefore makes no assumption at all about ``kw_hash``."""
    from basilisp.lang import keyword as kwmod
    from basilisp.lang.map import PersistentMap
    from pyvc import lib, ops
    from pyvc.monitor import Monitor

    Keyword = kwmod.Keyword
    H = ops.opq("hash_tuple2", V.Val, V.Val, z3.IntSort())  # this process's hash((name, ns))
    INTERN = z3.Const("INTERN.table", V.Val)
    x = z3.Const("h", V.Val)

    def table(st, term):
        inner = z3.Select(st.field_array("_inner"), V.Val.a(term))
        return V.map_of(V.Val.a(inner)), V.dom_of(V.Val.a(inner))

    def table_inv(eng, st, term, preexisting=False):
        m, d = table(st, term)
        e = z3.Select(m, x)
        nm = z3.Select(st.field_array("_name"), V.Val.a(e))
        ns = z3.Select(st.field_array("_ns"), V.Val.a(e))
        return z3.ForAll(
            [x],
            z3.Implies(
                z3.Select(d, x),
                z3.And(V.is_int(x), V.is_ref(e), V.cls_of(V.Val.a(e)) == eng.class_id(Keyword), V.is_str(nm), z3.Or(V.is_str(ns), V.is_none(ns)), V.mk_int(H(nm, ns)) == x,
                       *([V.Val.a(e) <= 0] if preexisting else [])),  # objects that existed before the call are not the ones it allocates
            ),
            patterns=[z3.Select(d, x)],
        )

    def ksetup(eng, st):
        import threading

        lib.install(eng)
        lib.install_wrappers(eng)
        kid, pmid = eng.class_id(Keyword), eng.class_id(PersistentMap)
        st.assume(V.is_ref(INTERN), V.cls_of(V.Val.a(INTERN)) == pmid, V.Val.a(INTERN) <= 0)
        eng.global_overrides[("basilisp.lang.keyword", "_INTERN")] = lambda e, s: SV(INTERN, hint=PersistentMap)
        for f in ("_name",):
            eng.field_types[("Keyword", f)] = lambda v: V.is_str(v)
        eng.field_types[("Keyword", "_ns")] = lambda v: z3.Or(V.is_str(v), V.is_none(v))
        prev = eng.with_hook

        def hook(e, node, item, cm, s, fr):
            import ast as _ast

            if isinstance(item.context_expr, _ast.Name) and item.context_expr.id == "_LOCK":
                # module lock: mutual exclusion for the intern table (its invariant is a pre/postcondition here)
                yield from e.exec_block(node.body, s, fr)
                return
            yield from prev(e, node, item, cm, s, fr)

        eng.with_hook = hook

        def assoc(e, s, args, k):
            # PersistentMap.assoc(k, v) = a new map with that one entry replaced (verified under C04)
            self, key, val = args
            inner = e.load_field(s, self.t, "_inner", PersistentMap)
            for s1, new_inner in e.method_models[(e.libcls["IMap"], "set")].fn(e, s, [inner, key, val], {}):
                obj = e.alloc(s1, PersistentMap)
                e.store_field(s1, obj.t, "_inner", new_inner.t, PersistentMap)
                e.store_field(s1, obj.t, "_meta", z3.Select(s1.field_array("_meta"), V.Val.a(self.t)), PersistentMap)
                yield s1, obj

        eng.method_models[(PersistentMap, "assoc")] = Model("PersistentMap.assoc", assoc)
        eng.key_type = T(lambda v: V.is_int(v), None, "int")
        eng.value_type = OBJ(Keyword)  # entries of the intern table (an obligation at each lookup)

    c = pack.contract("basilisp.lang.keyword:keyword_from_hash")
    c.param("kw_hash", INT).param("name", STR).param("ns", T(lambda v: z3.Or(V.is_str(v), V.is_none(v)), None, "str|None"))
    c.setup(ksetup)
    c.requires("intern table invariant: every entry is stored under this process's hash of its own (name, ns)", lambda a: table_inv(a.eng, a.pre.st, INTERN, preexisting=True))
    c.requires(
        "no collision of this process's hash between the requested name and an interned keyword",
        lambda a: (lambda m, d, hh: z3.Implies(
            z3.Select(d, hh),
            z3.And(z3.Select(a.pre.st.field_array("_name"), V.Val.a(z3.Select(m, hh))) == a.name, z3.Select(a.pre.st.field_array("_ns"), V.Val.a(z3.Select(m, hh))) == a.ns),
        ))(*table(a.pre.st, INTERN), V.mk_int(H(a.name, a.ns))),
    )
    c.raises()

    def kpost(a):
        post = a.post.st
        return z3.And(
            V.is_ref(a.result),
            V.cls_of(V.Val.a(a.result)) == a.eng.class_id(Keyword),
            z3.Select(post.field_array("_name"), V.Val.a(a.result)) == a.name,
            z3.Select(post.field_array("_ns"), V.Val.a(a.result)) == a.ns,
        )

    c.ensures("the keyword returned has exactly the requested name and namespace, whatever kw_hash was", kpost)

    def kpost_unique(a):
        pre = a.pre.st
        m, d = table(pre, INTERN)
        hh = V.mk_int(H(a.name, a.ns))
        return z3.Implies(z3.Select(d, hh), a.result == z3.Select(m, hh))

    c.ensures("one object per keyword: an already interned keyword of that name is returned, not a second object", kpost_unique)
    c.ensures("the intern table invariant is maintained", lambda a: table_inv(a.eng, a.post.st, a.post.glob("basilisp.lang.keyword", "_INTERN")))

    def rp_kw(m, ctx, ob):
        return KW_REPLAY


    c.replay(rp_kw)
    c.replay_without_model = True


def exec_module_fallback_scan(tier, seed):
    """Exception-coverage / ordering obligations on BasilispImporter.exec_module, decided syntactically
    and exhaustively over the function's AST and the call graph of importer.py:

    (1) the handler that falls back to compiling from source catches EOFError, ImportError and OSError;
    (2) nothing reachable from the guarded ``try`` body executes cached code (compile_bytecode / exec):
        the fallback is taken only when nothing from the cache has been executed;
    (3) the cached code is executed only after validation succeeded (in the ``else`` branch)."""
    import ast
    import os

    from pyvc import source as S

    path = os.path.join(S.REPO_SRC, "basilisp", "importer.py")
    tree = S.parse_file(path)
    cls = [n for n in ast.walk(tree) if isinstance(n, ast.ClassDef) and n.name == "BasilispImporter"][0]
    methods = {n.name: n for n in cls.body if isinstance(n, ast.FunctionDef)}
    funcs = {n.name: n for n in tree.body if isinstance(n, ast.FunctionDef)}

    def callees(node):
        out = set()
        for n in ast.walk(node):
            if isinstance(n, ast.Call):
                f = n.func
                if isinstance(f, ast.Attribute):
                    out.add(f.attr)
                elif isinstance(f, ast.Name):
                    out.add(f.id)
        return out

    def reach(nodes):
        seen, todo = set(), set()
        for nd in nodes:
            todo |= callees(nd)
        while todo:
            name = todo.pop()
            if name in seen:
                continue
            seen.add(name)
            body = methods.get(name) or funcs.get(name)
            if body is not None:
                todo |= callees(body)
        return seen

    EXEC = {"compile_bytecode", "exec", "_exec_cached_module"}
    obs = []
    em = methods["exec_module"]
    tries = [n for n in ast.walk(em) if isinstance(n, ast.Try) and any("_exec_module" in callees(h) for h in n.handlers)]
    ok_found = len(tries) == 1
    obs.append({"name": "exec_module has exactly one try statement whose handler falls back to _exec_module", "kind": "fallback-scan", "verdict": "proved" if ok_found else "refuted", "backend": "enumeration", "time_s": 0.0, "line": em.lineno})
    if ok_found:
        t = tries[0]
        h = [h for h in t.handlers if "_exec_module" in callees(h)][0]
        names = {e.id for e in (h.type.elts if isinstance(h.type, ast.Tuple) else [h.type]) if isinstance(e, ast.Name)} if h.type is not None else {"BaseException"}
        cov = {"EOFError", "ImportError", "OSError"} <= names
        obs.append({"name": f"the fallback handler catches EOFError, ImportError and OSError (catches {sorted(names)})", "kind": "fallback-scan", "verdict": "proved" if cov else "refuted", "backend": "enumeration", "time_s": 0.0, "line": h.lineno})
        r = reach(t.body)
        bad = sorted(r & EXEC)
        obs.append({"name": "nothing reachable from the guarded try body executes cached code, so the source fallback is only taken when nothing from the cache has run" + (f" (reaches {bad})" if bad else ""), "kind": "fallback-scan", "verdict": "refuted" if bad else "proved", "backend": "enumeration", "time_s": 0.0, "line": t.lineno,
                    **({"replay_code": FALLBACK_REPLAY} if bad else {})})
        r_else = reach(t.orelse)
        obs.append({"name": "the cached code is executed in the else branch, i.e. only after validation returned normally", "kind": "fallback-scan", "verdict": "proved" if (r_else & EXEC) else "refuted", "backend": "enumeration", "time_s": 0.0, "line": t.lineno})
    # materialise a replay for a refuted ordering obligation
    from pyvc.run import REPLAY_DIR, run_snippet

    for o in obs:
        if o["verdict"] == "refuted" and o.get("replay_code"):
            p = os.path.join(REPLAY_DIR, "C14", "exec_module_fallback.py")
            okr, outp = run_snippet("# replay for property C14\n# failed obligation: " + o["name"] + "\n" + o.pop("replay_code"), p, timeout=180)
            o.update(replay=p, reproduced=okr, replay_output=outp[-1500:], model={})
        o.pop("replay_code", None)
    return [{"key": "fallback-scan:basilisp.importer:BasilispImporter.exec_module", "file": "src/basilisp/importer.py", "lines": [em.lineno, em.end_lineno], "error": None, "obligations": obs, "extra": True, "time_s": 0.0}]


FALLBACK_REPLAY = r'''
import os, subprocess, sys, tempfile, textwrap
d = tempfile.mkdtemp()
open(os.path.join(d, "c14counter.py"), "w").write("n = 0\ndef bump():\n    global n\n    n += 1\n    return n\n")
trigger = os.path.join(d, "present.txt")
open(trigger, "w").write("x")
open(os.path.join(d, "c14ns.lpy"), "w").write(textwrap.dedent(f"""
    (ns c14ns (:import c14counter))
    (c14counter/bump)
    (python/open "{trigger}")
    """))
prog = "import sys; sys.path.insert(0, %r); import basilisp.main as m; m.init(); import importlib, c14counter\n" % d + textwrap.dedent("""
    try:
        importlib.import_module('c14ns')
    except Exception as e:
        print('import raised', type(e).__name__)
    print('BUMPS', c14counter.n)
    """)
env = dict(os.environ, PYTHONDONTWRITEBYTECODE="", PYTHONPATH=os.pathsep.join(sys.path))
env.pop("PYTHONDONTWRITEBYTECODE")
r1 = subprocess.run([sys.executable, "-c", prog], capture_output=True, text=True, env=env, timeout=120)
os.remove(trigger)   # the cache stays valid (source unchanged); its second form now raises FileNotFoundError
r2 = subprocess.run([sys.executable, "-c", prog], capture_output=True, text=True, env=env, timeout=120)
print("first load :", r1.stdout.strip().splitlines()[-1:] , r1.stderr[-200:])
print("cached load:", r2.stdout.strip().splitlines()[-2:], r2.stderr[-200:])
print("REPRODUCED" if "BUMPS 2" in r2.stdout else "not reproduced")
'''


KW_REPLAY = r'''
from basilisp.lang import keyword as kw
problems = []
# (1) the foreign number happens to be the hash of another interned keyword
b = kw.keyword('c14-b')
a = kw.keyword_from_hash(kw.hash_kw('c14-b'), 'c14-a')
if a.name != 'c14-a' or kw.keyword('c14-a') is not a:
    problems.append('occupied slot: got %r, keyword("c14-a") is it: %s' % (a, kw.keyword('c14-a') is a))
# (2) the foreign number is in no slot: the keyword must still be THE object for that name
free = 1
while kw._INTERN.val_at(free) is not None:
    free += 1
c = kw.keyword_from_hash(free, 'c14-c')
if c.name != 'c14-c' or kw.keyword('c14-c') is not c:
    problems.append('free slot: keyword_from_hash(<foreign>, "c14-c") and keyword("c14-c") are two objects')
# (3) an already interned keyword asked for with a foreign number
d = kw.keyword('c14-d')
free += 1
while kw._INTERN.val_at(free) is not None:
    free += 1
if kw.keyword_from_hash(free, 'c14-d') is not d:
    problems.append('already interned keyword: a second object was created')
for p in problems:
    print(p)
print('REPRODUCED' if problems else 'not reproduced')
'''
