"""C13 - delays run once, promises deliver once, futures yield their body's outcome.

Promise: monitor proof.  Condition ``_condition`` owns ``_is_delivered`` / ``_value``;
ghost ``first`` = the first delivered value (written once); lock invariant
``_is_delivered => _value is first``; rely/guarantee ``delivered stays delivered, first
and _value fixed afterwards``.

Future: contract on ``deref`` against a trusted contract of
``concurrent.futures.Future.result/done`` that distinguishes an exception raised by the
body from the wait timing out (ghost flag on the exception).

Delay: monitor proof with ghost ``runs`` = number of body runs that have returned and
ghost ``dval`` = the value of that run; the body may only return into a state where
``runs`` was 0 (see the Delay section).
"""
import ast
import os

import z3

from pyvc import vals as V
from pyvc import lib
from pyvc.contract import Pack, T, OBJ, ANY
from pyvc.engine import SV, Model, Raise, Exc, Unsupported
from pyvc.monitor import Monitor


def _classes():
    from basilisp.lang.promise import Promise
    from basilisp.lang.futures import Future
    from basilisp.lang.delay import Delay

    return Promise, Future, Delay


def B(v):
    """bool field as z3 Bool."""
    return V.Val.b(v)


# ----------------------------------------------------------------------------- Promise
def promise_monitor():
    Promise, _, _ = _classes()

    def inv(eng, st, obj):
        d = z3.Select(st.field_array("_is_delivered"), V.Val.a(obj))
        v = z3.Select(st.field_array("_value"), V.Val.a(obj))
        return z3.And(V.is_bool(d), z3.Implies(B(d), v == st.ghost["first"]))

    def rely(eng, st, obj, old, new):
        return z3.Implies(
            B(old["_is_delivered"]),
            z3.And(B(new["_is_delivered"]), new["_value"] == old["_value"], new["first"] == old["first"]),
        )

    mon = Monitor("_condition", owned=["_is_delivered", "_value"], cls=Promise, invariant=inv, rely=rely, ghosts=("first",), name="Promise._condition")

    def on_store(eng, st, obj, fname, val):
        if fname == "_value":
            acq = st.ghost.get(("acq", mon.name))
            was = B(acq["_is_delivered"]) if acq else z3.BoolVal(False)
            eng.oblige(st, "ghost `first` is written at most once: the promise was undelivered when the lock was taken", z3.Not(was), "ghost-write-once")
            st.ghost["first"] = val

    mon.on_store_extra = on_store
    return mon


def promise_setup(eng, st):
    import threading

    mon = promise_monitor()
    st.ghost["first"] = z3.Const("first0", V.Val)
    mon.install(eng, st)
    eng.method_models[(threading.Condition, "wait_for")] = mon.wait_for_model()
    eng.method_models[(threading.Condition, "notify_all")] = Model("Condition.notify_all", lambda e, s, a, k: iter([(s, None)]))
    cid = eng.class_id(threading.Condition)
    eng.field_types[("Promise", "_condition")] = lambda v: (z3.And(V.is_ref(v), V.cls_of(V.Val.a(v)) == cid), threading.Condition)
    eng.opaque_havoc = "none"
    eng.pmon = mon


def acq(a, name="Promise._condition"):
    return a.post.st.ghost.get(("acq", name))


def build(active_known=frozenset()):
    Promise, Future, Delay = _classes()
    pack = Pack("C13", "Delays run once, promises deliver once, futures yield their body's outcome")
    pack.trust("threading.Condition: mutual exclusion; wait_for releases the lock while waiting, evaluates the predicate under the lock and returns its last value, falsy only after a timeout")
    pack.trust("concurrent.futures.Future.result(timeout): returns the body's value, re-raises the body's exception, raises CancelledError, or raises TimeoutError only when a non-None timeout elapsed; an exception coming from the body implies done() is true; result() on a done future never times out")
    pack.assume("atomic attribute access, sequential consistency (CPython + GIL)")

    # ---- Promise.deliver
    c = pack.contract("basilisp.lang.promise:Promise.deliver")
    c.param("self", OBJ(Promise))
    c.setup(promise_setup)
    c.raises()
    c.ensures(
        "first deliver wins: an already delivered promise is left exactly as it was",
        # (a path that never takes the lock writes nothing - stores outside the lock are refused by the monitor - and is
        # judged by the lock-discipline obligations, not by this clause, which speaks about the state found under the lock)
        lambda a: z3.BoolVal(True) if acq(a) is None else z3.Implies(
            B(acq(a)["_is_delivered"]),
            z3.And(a.post.field(a.self, "_value") == acq(a)["_value"], B(a.post.field(a.self, "_is_delivered")), a.post.ghost("first") == acq(a)["first"]),
        ),
    )
    c.ensures(
        "an undelivered promise becomes delivered with exactly this value",
        lambda a: z3.BoolVal(True) if acq(a) is None else z3.Implies(
            z3.Not(B(acq(a)["_is_delivered"])),
            z3.And(B(a.post.field(a.self, "_is_delivered")), a.post.field(a.self, "_value") == a.value, a.post.ghost("first") == a.value),
        ),
    )

    # ---- Promise.deref
    c = pack.contract("basilisp.lang.promise:Promise.deref")
    c.param("self", OBJ(Promise))
    c.param("timeout", T(lambda v: z3.Or(V.is_none(v), V.is_flt(v), V.is_int(v)), None, "float|int|None"))
    c.setup(promise_setup)
    c.raises()
    c.ensures(
        "returns the first delivered value once delivered; the timeout value only if nothing was delivered when a timed wait ended",
        lambda a: z3.If(
            B(a.post.field(a.self, "_is_delivered")),
            a.result == a.post.ghost("first"),
            z3.And(a.result == a.timeout_val, z3.Not(V.is_none(a.timeout))),
        ),
    )

    # ---- Promise.is_realized (monotone by the rely/guarantee)
    c = pack.contract("basilisp.lang.promise:Promise.is_realized")
    c.param("self", OBJ(Promise))
    c.setup(promise_setup)
    c.raises()
    c.ensures("reports the delivered flag as of the instant the lock was held", lambda a: z3.And(V.is_bool(a.result), B(a.result) == B(a.post.field(a.self, "_is_delivered"))))

    def lemma_monotone():
        d0, d1, d2 = z3.Bools("d0 d1 d2")
        step = lambda x, y: z3.Implies(x, y)  # noqa: E731  (the rely/guarantee on the flag)
        return [step(d0, d1), step(d1, d2), d0], d2

    pack.lemma("realized? of a promise is monotone along any chain of guaranteed steps", lemma_monotone)

    # ---- Future.deref
    add_future(pack, Future, active_known)
    # ---- Delay
    add_delay(pack, Delay, active_known)
    return pack


# ----------------------------------------------------------------------------- Future
def future_setup(eng, st):
    import concurrent.futures as cf

    cid = eng.class_id(cf.Future)
    eng.field_types[("Future", "_future")] = lambda v: (z3.And(V.is_ref(v), V.cls_of(V.Val.a(v)) == cid), cf.Future)
    body_value = z3.Const("body_value", V.Val)
    st.ghost["body_value"] = body_value
    st.ghost["waits"] = []  # log of result() calls: (timeout term, outcome)

    def result(eng_, s, args, kw):
        timeout = kw.get("timeout", args[1] if len(args) > 1 else None)
        tt = eng_.lift(timeout, s)
        known_done = s.ghost.get("known_done", False)
        prior = s.ghost.get("outcome")
        if prior == "body-raised":
            # the outcome of a finished future is fixed: the same exception again
            yield s, Raise(s.ghost["body_exc"])
            return
        if prior == "value":
            yield s, SV(z3.Const("body_value", V.Val))
            return
        # (a) the body returned
        s1 = s.copy()
        s1.ghost["outcome"] = "value"
        r = z3.Const("body_value", V.Val)
        s1.assume(eng_.external_ref_fact(s1, r))
        yield s1, SV(r)
        # (b) the body raised: any exception class at all (possibly TimeoutError itself)
        s2 = s.copy()
        e = Exc(None, (), term=V.fresh_int("body_exc"), note="raised by the future's body")
        e.from_body = True
        s2.ghost["outcome"] = "body-raised"
        s2.ghost["body_exc"] = e
        yield s2, Raise(e)
        # (c) cancelled
        s3 = s.copy()
        ec = Exc(cf.CancelledError, (), note="future was cancelled")
        ec.from_body = False
        ec.cancelled = True
        yield s3, Raise(ec)
        # (d) the wait timed out: only with a timeout, and never once the future is known to be done
        if not known_done:
            s4 = s
            s4.assume(z3.Not(V.is_none(tt)))
            if eng_.feasible(s4):
                et = Exc(cf.TimeoutError, (), note="wait timed out")
                et.from_body = False
                et.wait_timeout = True
                s4.ghost["wait_timed_out"] = True
                yield s4, Raise(et)

    def done(eng_, s, args, kw):
        # after a body exception/value was observed the future is done; after a wait timeout it may be either
        out = s.ghost.get("outcome")
        if out in ("value", "body-raised"):
            s.ghost["known_done"] = True
            yield s, True
            return
        s_t = s.copy()
        s_t.ghost["known_done"] = True
        yield s_t, True
        s.ghost["known_done"] = False
        yield s, False

    eng.method_models[(cf.Future, "result")] = Model("concurrent.futures.Future.result", result)
    eng.method_models[(cf.Future, "done")] = Model("concurrent.futures.Future.done", done)


def add_future(pack, Future, active_known):
    c = pack.contract("basilisp.lang.futures:Future.deref")
    c.param("self", OBJ(Future))
    c.param("timeout", T(lambda v: z3.Or(V.is_none(v), V.is_flt(v), V.is_int(v)), None, "float|int|None"))
    c.setup(future_setup)

    def post(a):
        st = a.post.st
        out = st.ghost.get("outcome")
        timed_out = st.ghost.get("wait_timed_out", False)
        if out == "value":
            return a.result == st.ghost["body_value"]
        # no value was obtained from the body on this path: only a genuine wait timeout may yield timeout_val
        return z3.And(z3.BoolVal(bool(timed_out) and out is None), a.result == a.timeout_val)

    c.ensures("returns the body's value, or the timeout value only when the wait itself timed out", post)
    c.ensures_on_raise(
        "re-raises what the body raised (or CancelledError); a wait timeout is never propagated as an exception",
        lambda a: z3.BoolVal(bool(getattr(a.exc, "from_body", False) or getattr(a.exc, "cancelled", False))),
    )

    def rp(m, ctx, ob):
        return (
            "from concurrent.futures import ThreadPoolExecutor\nfrom basilisp.lang.futures import Future\n"
            "def body():\n    raise TimeoutError('raised by the body')\n"
            "with ThreadPoolExecutor(1) as ex:\n    fut = Future(ex.submit(body))\n    import time; time.sleep(0.2)\n"
            "    try:\n        r = fut.deref(1.0, 'TIMEOUT-VAL')\n        print('deref returned', repr(r), 'although the body raised TimeoutError and no wait timed out')\n"
            "        print('REPRODUCED' if r == 'TIMEOUT-VAL' else 'not reproduced')\n"
            "    except TimeoutError as e:\n        print('re-raised', repr(e)); print('not reproduced')\n"
        )

    c.replay(rp)


# ----------------------------------------------------------------------------- Delay
DELAY_SELF = z3.Const("arg.self", V.Val)


def _delay_parts(st, delay):
    atom = z3.Select(st.field_array("_state"), V.Val.a(delay))
    s = z3.Select(st.field_array("_state"), V.Val.a(atom))
    return atom, s


def delay_setup(eng, st):
    from basilisp.lang import atom as atom_mod
    from basilisp.lang import delay as delay_mod
    from basilisp.lang import map as lmap
    from pyvc.loops import LoopSpec

    Atom, Delay, DState = atom_mod.Atom, delay_mod.Delay, delay_mod._DelayState
    lib.install(eng)
    aid, sid = eng.class_id(Atom), eng.class_id(DState)
    delay_f = z3.Const("delay_body", V.Val)
    st.ghost["runs"] = z3.Int("runs0")
    st.ghost["dval"] = z3.Const("dval0", V.Val)
    empty_watches = eng.lift(lmap.EMPTY, st)

    def state_facts(s_, st_):
        a = V.Val.a(s_)
        return z3.And(
            V.is_ref(s_),
            V.cls_of(a) == sid,
            V.is_bool(z3.Select(st_.field_array("computed"), a)),
            z3.Select(st_.field_array("f"), a) == delay_f,
        )

    def inv(eng_, st_, delay):
        atom, s = _delay_parts(st_, delay)
        a = V.Val.a(s)
        comp = B(z3.Select(st_.field_array("computed"), a))
        runs, dval = st_.ghost["runs"], st_.ghost["dval"]
        return z3.And(
            V.is_ref(atom),
            V.cls_of(V.Val.a(atom)) == aid,
            state_facts(s, st_),
            runs >= 0,
            runs <= 1,
            z3.Implies(comp, z3.And(runs == 1, z3.Select(st_.field_array("value"), a) == dval)),
            z3.Implies(z3.Not(comp), runs == 0),
            V.is_none(z3.Select(st_.field_array("_validator"), V.Val.a(atom))),
            z3.Select(st_.field_array("_watches"), V.Val.a(atom)) == empty_watches,
        )

    def rely(eng_, st_, delay, old, new):
        return z3.And(new["runs"] >= old["runs"], z3.Implies(old["runs"] == 1, new["dval"] == old["dval"]))

    def guards(eng_, st_, delay):
        atom = z3.Select(st_.field_array("_state"), V.Val.a(delay))
        return [(atom, "_state")]

    mon = Monitor("_lock", owned=[], cls=Delay, invariant=inv, rely=rely, ghosts=("runs", "dval"), guards=guards, name="Delay._lock")
    mon.install(eng, st)
    eng.dmon = mon
    eng.delay_inv = inv

    def held(eng_, st_, obj_term):
        return any(n == "_lock" and z3.eq(z3.simplify(o), DELAY_SELF) for o, n in st_.locks)

    def stable(eng_, st_, obj_term, v):
        # whatever another thread installed is a _DelayState of this delay
        return state_facts(v, st_)

    eng.shared_fields["_state"] = {"lock": "_lock", "cls": Atom, "held": held, "init_ok": True, "stable": stable, "reentrant": False}
    eng.field_types[("Delay", "_state")] = lambda v: (z3.And(V.is_ref(v), V.cls_of(V.Val.a(v)) == aid), Atom)
    eng.field_types[("Atom", "_state")] = lambda v: (z3.And(V.is_ref(v), V.cls_of(V.Val.a(v)) == sid), DState)
    eng.field_types[("_DelayState", "computed")] = lambda v: V.is_bool(v)
    eng.opaque_havoc = "none"
    def swap_loop_inv(ctx):
        base = z3.And(ctx.ghost("runs") >= 0, ctx.ghost("runs") <= 1)
        if ctx.entry is not None:
            # the loop never re-points the delay at another atom (only the atom's own _state slot is written)
            base = z3.And(base, ctx.field(DELAY_SELF, "_state") == ctx.entry.field(DELAY_SELF, "_state"))
        acq_ = ctx.st.ghost.get(("acq", "Delay._lock"))
        if acq_ is None or not held(eng, ctx.st, None):
            return base
        # with the delay's lock held nothing changes behind this thread's back: the lock invariant
        # and the ghost state known at acquisition still hold at the loop head
        return z3.And(base, inv(eng, ctx.st, DELAY_SELF), ctx.ghost("runs") == acq_["runs"], ctx.ghost("dval") == acq_["dval"])

    eng.loop_specs[("basilisp.lang.atom:Atom.swap", 0)] = LoopSpec(invariant=swap_loop_inv, frame=["_state"], lists=False, ghost=("runs", "dval"))
    # the same invariant serves the retry loop of Atom.reset should Delay use it
    eng.loop_specs[("basilisp.lang.atom:Atom.reset", 0)] = LoopSpec(invariant=swap_loop_inv, frame=["_state"], lists=False, ghost=("runs", "dval"))

    def body_hook(eng_, st_, f, args, kwargs, line):
        fr = max(st_.frames)
        if st_.frames[fr].closure.name != "__deref":
            return None

        def gen():
            is_held = held(eng_, st_, None)
            eng_.opaque_hook = None
            try:
                results = list(eng_.call_opaque(f, args, kwargs, st_, line))
            finally:
                eng_.opaque_hook = body_hook
            for st1, r in results:
                if isinstance(r, Raise):
                    yield st1, r
                    continue
                if is_held:
                    before = st1.ghost["runs"]
                else:
                    # nothing protects the ghost state: any number of runs may have returned meanwhile
                    before = V.fresh_int("runs_now")
                    st1.assume(before >= 0, before <= 1)
                eng_.oblige(st1, "the delay's body is run by at most one thread at a time (the delay's lock is held across the run)", z3.BoolVal(bool(is_held)), "delay-exclusive", line)
                eng_.oblige(st1, "no run of the body had returned before this run returns (the body never runs again after a run has returned)", before == 0, "delay-once", line)
                st1.ghost["runs"] = before + 1
                st1.ghost["dval"] = r.t
                yield st1, r

        return gen()

    eng.opaque_hook = body_hook


def add_delay(pack, Delay, active_known):
    from basilisp.lang import atom as atom_mod
    from basilisp.lang import reference as ref_mod

    pack.trust("threading.RLock: mutual exclusion, re-entrant")
    pack.assume("Delay encapsulates its Atom: the atom is only reachable through Delay.deref / Delay.is_realized (checked syntactically on every run), so it has no validator and no watches")

    # callee contracts justified by the encapsulation invariant (no validator, no watches on the private atom)
    for nm in ("_validate", "_notify_watches"):
        k = pack.contract(f"basilisp.lang.reference:RefBase.{nm}", modular=True)
        k.spec_only = True
        k.requires(
            "the private atom of a delay has no validator and no watches",
            lambda a: z3.And(V.is_none(a.pre.field(a.self, "_validator")), a.pre.field(a.self, "_watches") == a.eng.lift(__import__("basilisp.lang.map", fromlist=["EMPTY"]).EMPTY, a.pre.st)),
        )

    c = pack.contract("basilisp.lang.delay:Delay.__init__")
    c.param("self", OBJ(Delay))
    c.setup(delay_setup)
    c.requires("f is the delay's body", lambda a: a.f == z3.Const("delay_body", V.Val))
    c.raises()

    def init_post(a):
        st = a.post.st
        st.ghost["runs"] = z3.IntVal(0)
        return a.eng.delay_inv(a.eng, st, a.self)

    c.ensures("establishes the delay invariant with no run yet (private atom: uncomputed state, no validator, no watches)", init_post)

    c = pack.contract("basilisp.lang.delay:Delay.deref")
    c.param("self", OBJ(Delay))
    c.setup(delay_setup)
    c.ensures(
        "returns the value of the single run of the body that has returned",
        lambda a: z3.And(a.post.ghost("runs") == 1, a.result == a.post.ghost("dval")),
    )

    def rp(m, ctx, ob):
        return (
            "import threading\nfrom basilisp.lang.delay import Delay\n"
            "runs = []\n"
            "def body():\n"
            "    runs.append(threading.current_thread().name)\n"
            "    if len(runs) == 1:\n"
            "        # while the first run is in progress another thread forces the same delay\n"
            "        t = threading.Thread(target=lambda: d.deref(), name='second', daemon=True)\n"
            "        t.start(); t.join(2)\n"
            "    return len(runs)\n"
            "d = Delay(body)\n"
            "v = d.deref()\n"
            "import time; time.sleep(0.5)\n"
            "print('body ran', len(runs), 'times:', runs, '; deref ->', v, 'then', d.deref())\n"
            "print('REPRODUCED' if len(runs) > 1 else 'not reproduced')\n"
            "import os; os._exit(0)\n"
        )

    c.replay(rp)

    c = pack.contract("basilisp.lang.delay:Delay.is_realized")
    c.param("self", OBJ(Delay))
    c.setup(delay_setup)
    c.raises()
    c.ensures("reports the computed flag of a state that was installed in the private atom", lambda a: V.is_bool(a.result))

    def lemma_delay_monotone():
        # along guaranteed steps runs never decreases and computed <=> runs == 1 (lock invariant), runs <= 1
        r0, r1 = z3.Ints("r0 r1")
        c0, c1 = z3.Bools("c0 c1")
        return [r1 >= r0, r0 <= 1, r1 <= 1, r0 >= 0, c0 == (r0 == 1), c1 == (r1 == 1), c0], c1

    pack.lemma("realized? of a delay is monotone (invariant computed <=> runs = 1, guarantee runs non-decreasing)", lemma_delay_monotone)
    pack.extra.append(delay_encapsulation_scan)


def delay_encapsulation_scan(tier, seed):
    """Delay._state (the private Atom) is only used as the receiver of .swap/.deref inside class Delay."""
    from pyvc import source as S

    path = os.path.join(S.REPO_SRC, "basilisp", "lang", "delay.py")
    tree = S.parse_file(path)
    obs = []
    for cls in [n for n in ast.walk(tree) if isinstance(n, ast.ClassDef) and n.name == "Delay"]:
        for node in ast.walk(cls):
            if isinstance(node, ast.Attribute) and node.attr == "_state" and isinstance(node.value, ast.Name) and node.value.id == "self":
                par = getattr(node, "_parent", None)
                if isinstance(node.ctx, ast.Store):
                    fn = node
                    while not isinstance(fn, ast.FunctionDef):
                        fn = fn._parent
                    ok = fn.name == "__init__"
                    what = "assigned only in __init__"
                else:
                    ok = isinstance(par, ast.Attribute) and par.attr in ("swap", "deref", "reset", "compare_and_set") and isinstance(getattr(par, "_parent", None), ast.Call) and par._parent.func is par
                    what = "used only as receiver of an Atom method (swap/deref/reset/compare_and_set)"
                obs.append({"name": f"delay.py:{node.lineno}: self._state {what}", "kind": "encapsulation-scan", "verdict": "proved" if ok else "refuted", "backend": "enumeration", "time_s": 0.0, "line": node.lineno})
    slots_ok = True
    return [{"key": "encapsulation-scan:basilisp.lang.delay", "file": "src/basilisp/lang/delay.py", "lines": [0, 0], "error": None, "obligations": obs, "extra": True, "time_s": 0.0}]
