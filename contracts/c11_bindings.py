"""C11 - dynamic bindings are scoped, thread-local and conveyed.

State model: the binding stack of a Var is the Python list ``var._tl.bindings``; the frame
stack is the persistent vector ``_THREAD_BINDINGS._bindings`` of persistent sets of Vars.
Both hang off ``threading.local`` objects, so in the thread under consideration they are
ordinary private state (trusted: thread-local storage is disjoint per thread) - this is
also what makes bindings of one thread invisible to every other.

The postconditions are written from the property: after ``push_thread_bindings(m)`` every
Var of ``m`` has exactly one more binding (its value in ``m``) and every other Var is
untouched; **if it raises, every Var's stack and the frame stack are exactly as before**
("because establishing it failed half way"); ``pop_thread_bindings`` removes exactly the
top frame's bindings; the ``runtime.bindings`` context manager restores everything on
normal and exceptional exit of its body, and when establishing the bindings fails.
"""
import z3

from pyvc import vals as V
from pyvc import lib
from pyvc.contract import Pack, T, OBJ, ANY
from pyvc.engine import SV, Model, Raise, Exc, Unsupported
from pyvc.monitor import Monitor

TB = V.mk_ref(z3.Int("TB.addr"))


def _cls():
    from basilisp.lang import runtime as rt

    return rt


def isvar(eng, v):
    rt = _cls()
    return z3.And(V.is_ref(v), V.cls_of(V.Val.a(v)) == eng.class_id(rt.Var))


def tl_of(st, v):
    return z3.Select(st.field_array("_tl"), V.Val.a(v))


def S(st, v):
    """Address of the Python list holding v's thread-local binding stack."""
    return V.Val.a(z3.Select(st.field_array("bindings"), V.Val.a(tl_of(st, v))))


def stack(st, st_addr_from, v):
    """Binding stack of v in state st (addresses resolved in state st_addr_from; they never change)."""
    return z3.Select(st.lists, S(st_addr_from, v))


def dynamic(st, v):
    return V.Val.b(z3.Select(st.field_array("_dynamic"), V.Val.a(v)))


def wf_var(eng, st, v):
    """Type invariant of one Var (established by Var.__init__/set_dynamic)."""
    rt = _cls()
    tl = tl_of(st, v)
    bl = z3.Select(st.field_array("bindings"), V.Val.a(tl))
    return z3.And(
        V.is_bool(z3.Select(st.field_array("_dynamic"), V.Val.a(v))),
        z3.Or(V.is_none(tl), z3.And(V.is_ref(tl), V.cls_of(V.Val.a(tl)) == eng.class_id(rt._VarBindings), V.is_ref(bl), V.cls_of(V.Val.a(bl)) == eng.class_id(list))),
    )


def wf_all(eng, st):
    """All Vars are well-typed and no two Vars share a binding list (each Var creates its own)."""
    x, y = z3.Consts("wf_x wf_y", V.Val)
    return z3.And(
        z3.ForAll([x], z3.Implies(isvar(eng, x), wf_var(eng, st, x))),
        z3.ForAll(
            [x, y],
            z3.Implies(z3.And(isvar(eng, x), isvar(eng, y), x != y, z3.Not(V.is_none(tl_of(st, x))), z3.Not(V.is_none(tl_of(st, y)))), S(st, x) != S(st, y)),
        ),
    )


def setup(eng, st):
    rt = _cls()
    lib.install(eng)
    lib.install_wrappers(eng)
    from basilisp.lang.vector import PersistentVector
    from basilisp.lang.set import PersistentSet
    from basilisp.lang import keyword as kw
    from basilisp.lang import map as lmap

    eng.models[id(kw.keyword)] = Model("kw.keyword", lambda e, s, a, k: iter([(s, SV(V.fresh_val("kw")))]))
    eng.models[id(lmap.map)] = Model("lmap.map", lambda e, s, a, k: iter([(s, SV(V.fresh_val("payload")))]))
    vb, tbc = eng.class_id(rt._VarBindings), eng.class_id(rt._ThreadBindings)
    lid, pvid = eng.class_id(list), eng.class_id(PersistentVector)
    eng.class_id(rt.Var)
    eng.class_id(PersistentSet)
    eng.field_types[("Var", "_dynamic")] = lambda v: V.is_bool(v)
    eng.field_types[("Var", "_tl")] = lambda v: (z3.Or(V.is_none(v), z3.And(V.is_ref(v), V.cls_of(V.Val.a(v)) == vb)), None)
    eng.field_types[("_VarBindings", "bindings")] = lambda v: (z3.And(V.is_ref(v), V.cls_of(V.Val.a(v)) == lid), list)
    eng.field_types[("_ThreadBindings", "_bindings")] = lambda v: (z3.And(V.is_ref(v), V.cls_of(V.Val.a(v)) == pvid), PersistentVector)
    st.assume(V.Val.a(TB) <= 0, V.cls_of(V.Val.a(TB)) == tbc)
    eng.global_overrides[("basilisp.lang.runtime", "_THREAD_BINDINGS")] = lambda e, s: SV(TB, hint=rt._ThreadBindings)
    # Var._lock only gives mutual exclusion for the root; thread-local stacks are private to the thread
    Monitor("_lock", owned=[]).install(eng, st)
    eng.key_type = OBJ(rt.Var)  # keys of binding maps / members of frames (an obligation at each use)
    eng.opaque_havoc = "none"  # validators / watch functions are assumed not to touch binding stacks
    import logging

    eng.ignored_calls.add(id(logging.Logger.debug))  # log calls and their string formatting are not modelled

    eng.models[id(rt.logger.debug)] = Model("logger.debug", lambda e, s, a, k: iter([(s, None)]))


def forall_pats(vs, body, pats):
    """ForAll with every candidate trigger z3 accepts (terms containing ite are not legal triggers)."""
    ok = []
    for p in pats:
        try:
            z3.ForAll(vs, body, patterns=[p])
            ok.append(p)
        except z3.Z3Exception:
            pass
    return z3.ForAll(vs, body, patterns=ok) if ok else z3.ForAll(vs, body)


def frames_seq(st):
    vec = z3.Select(st.field_array("_bindings"), V.Val.a(TB))
    inner = z3.Select(st.field_array("_inner"), V.Val.a(vec))
    return V.seq_of(V.Val.a(inner))


def set_members(st, frame):
    inner = z3.Select(st.field_array("_inner"), V.Val.a(frame))
    return V.dom_of(V.Val.a(inner))


def add_set_dynamic(pack):
    """the contract of Var.set_dynamic (also proved in the C10 pack, where Var.intern relies on it)"""
    rt = _cls()
    Var = rt.Var
    # ------------------------------------------------------------------ Var.set_dynamic: what re-evaluating a `def` does to bindings
    # (`def` on an existing Var calls set_dynamic with the flag the new definition carries.)  A Var that stays dynamic keeps
    # its thread-local state - every thread's binding stack - untouched; only a real change of the flag replaces it.
    c = pack.contract("basilisp.lang.runtime:Var.set_dynamic")
    c.param("self", OBJ(Var)).param("dynamic", T(lambda v: V.is_bool(v), None, "bool"))
    c.setup(setup)
    c.requires("the Var is well-typed", lambda a: wf_var(a.eng, a.pre.st, a.self))
    c.raises()

    def sd_post(a):
        pre, post = a.pre.st, a.post.st
        same = a.dynamic == z3.Select(pre.field_array("_dynamic"), V.Val.a(a.self))
        tl1 = tl_of(post, a.self)
        unchanged = z3.And(tl1 == tl_of(pre, a.self), z3.Select(post.field_array("_dynamic"), V.Val.a(a.self)) == z3.Select(pre.field_array("_dynamic"), V.Val.a(a.self)),
                           post.lists == pre.lists, post.field_array("bindings") == pre.field_array("bindings"))
        changed = z3.And(z3.Select(post.field_array("_dynamic"), V.Val.a(a.self)) == a.dynamic,
                         z3.If(V.Val.b(a.dynamic), z3.And(V.is_ref(tl1), V.Val.a(tl1) > 0, z3.Length(stack(post, post, a.self)) == 0), V.is_none(tl1)))
        return z3.If(same, unchanged, changed)

    c.ensures("re-declaring a Var with the dynamic flag it already has changes nothing: the thread-local bindings of every thread stay (a Var re-defined while bound is "
              "still bound); a real change of the flag gives a dynamic Var a new, empty thread-local state and removes it from a Var that is no longer dynamic", sd_post)
    c.replay(lambda m, ctx, ob: SET_REPLAY)
    c.replay_without_model = True



def build(active_known=frozenset()):
    rt = _cls()
    from basilisp.lang.map import PersistentMap

    Var = rt.Var
    pack = Pack("C11", "Dynamic bindings are scoped, thread-local and conveyed to futures")
    pack.trust("threading.local: attributes of a thread-local object are private to the accessing thread (so a thread's binding stacks and frame stack cannot be read or written by another thread)")
    pack.assume("validator functions called while pushing a binding do not themselves change binding stacks")
    pack.assume("Vars are well-typed (_dynamic bool; _tl None or a _VarBindings with a list) and no two Vars share a binding list")
    x = z3.Const("x", V.Val)
    # Universally quantified statements about "every Var" are proved pointwise for one arbitrary Var Z
    # (universal generalisation): Z is a fresh constant constrained only to be a Var with a binding list.
    Z = z3.Const("Z.anyvar", V.Val)

    def gen_var(a):
        return z3.And(isvar(a.eng, Z), z3.Not(V.is_none(tl_of(a.pre.st, Z))), V.Val.a(Z) <= 0)

    # ------------------------------------------------------------------ Var.push_bindings
    c = pack.contract("basilisp.lang.runtime:Var.push_bindings")
    c.param("self", OBJ(Var))
    c.setup(setup)
    c.requires("the Var is well-typed", lambda a: wf_var(a.eng, a.pre.st, a.self))
    c.modifies(lists=True)
    c.ensures(
        "pushes exactly val on this Var's stack and touches no other list",
        lambda a: a.post.st.lists == z3.Store(a.pre.st.lists, S(a.pre.st, a.self), z3.Concat(stack(a.pre.st, a.pre.st, a.self), z3.Unit(a.val))),
    )
    c.ensures("only a dynamic Var accepts a binding", lambda a: z3.And(dynamic(a.pre.st, a.self), z3.Not(V.is_none(tl_of(a.pre.st, a.self)))))
    c.ensures_on_raise("a failed push leaves every stack as it was", lambda a: a.post.st.lists == a.pre.st.lists)
    c.raises_only_if(
        "RuntimeException exactly when the Var is not dynamic",
        (rt.RuntimeException,),
        lambda a: z3.Or(z3.Not(dynamic(a.pre.st, a.self)), V.is_none(tl_of(a.pre.st, a.self))),
    )

    # ------------------------------------------------------------------ Var.pop_bindings
    c = pack.contract("basilisp.lang.runtime:Var.pop_bindings")
    c.param("self", OBJ(Var))
    c.setup(setup)
    c.requires("the Var is well-typed", lambda a: wf_var(a.eng, a.pre.st, a.self))
    c.requires("dynamic with at least one binding", lambda a: z3.And(dynamic(a.pre.st, a.self), z3.Not(V.is_none(tl_of(a.pre.st, a.self))), z3.Length(stack(a.pre.st, a.pre.st, a.self)) > 0))
    c.raises()
    c.modifies(lists=True)
    c.ensures(
        "removes exactly the innermost binding of this Var and returns it",
        lambda a: z3.And(
            a.post.st.lists
            == z3.Store(a.pre.st.lists, S(a.pre.st, a.self), z3.SubSeq(stack(a.pre.st, a.pre.st, a.self), 0, z3.Length(stack(a.pre.st, a.pre.st, a.self)) - 1)),
            a.result == stack(a.pre.st, a.pre.st, a.self)[z3.Length(stack(a.pre.st, a.pre.st, a.self)) - 1],
        ),
    )

    # ------------------------------------------------------------------ Var.set_value: what `set!` does to a dynamic Var
    c = pack.contract("basilisp.lang.runtime:Var.set_value")
    c.label = "dynamic Var"
    c.param("self", OBJ(Var))
    c.setup(setup)
    c.requires("the Var is well-typed", lambda a: wf_var(a.eng, a.pre.st, a.self))
    c.requires("the Var is dynamic", lambda a: z3.And(dynamic(a.pre.st, a.self), z3.Not(V.is_none(tl_of(a.pre.st, a.self)))))
    c.modifies(lists=True)

    def set_post(a):
        old = stack(a.pre.st, a.pre.st, a.self)
        n = z3.Length(old)
        new = z3.If(n > 0, z3.Concat(z3.SubSeq(old, 0, n - 1), z3.Unit(a.v)), z3.Unit(a.v))
        return a.post.st.lists == z3.Store(a.pre.st.lists, S(a.pre.st, a.self), new)

    c.ensures("set! changes only the innermost binding of this Var (every outer binding and every other Var's stack stay); without a binding it establishes one", set_post)
    c.ensures_on_raise("a set! that fails (the validator rejects the value) changes nothing: the innermost binding is still there", lambda a: a.post.st.lists == a.pre.st.lists)
    c.replay(lambda m, ctx, ob: SET_REPLAY)
    c.replay_without_model = True

    # ------------------------------------------------------------------ Var.value: reading sees the innermost binding
    c = pack.contract("basilisp.lang.runtime:Var.value")
    c.param("self", OBJ(Var))
    c.setup(setup)
    c.requires("the Var is well-typed", lambda a: wf_var(a.eng, a.pre.st, a.self))
    c.requires("a dynamic Var has its thread-local state", lambda a: z3.Implies(dynamic(a.pre.st, a.self), z3.Not(V.is_none(tl_of(a.pre.st, a.self)))))
    c.raises()
    c.modifies()

    def value_post(a):
        old = stack(a.pre.st, a.pre.st, a.self)
        n = z3.Length(old)
        return a.result == z3.If(z3.And(dynamic(a.pre.st, a.self), n > 0), old[n - 1], a.pre.field(a.self, "_root"))

    c.ensures("reading a Var gives its innermost thread-local binding when it is dynamic and bound in this thread, and its root otherwise", value_post)
    c.replay(lambda m, ctx, ob: SET_REPLAY)
    c.replay_without_model = True

    add_set_dynamic(pack)

    # ------------------------------------------------------------------ push_thread_bindings
    def m_parts(a):
        inner = a.pre.field(a.m, "_inner")
        return V.map_of(V.Val.a(inner)), V.dom_of(V.Val.a(inner))

    c = pack.contract("basilisp.lang.runtime:push_thread_bindings")
    c.param("m", OBJ(PersistentMap))
    c.setup(setup)
    c.requires("all Vars are well-typed and own their binding list", lambda a: wf_all(a.eng, a.pre.st))
    c.requires("the keys of m are Vars", lambda a: z3.ForAll([x], z3.Implies(z3.Select(m_parts(a)[1], x), isvar(a.eng, x))))
    c.requires("Z is an arbitrary Var with a binding list (generalisation constant)", gen_var)
    c.modifies("_bindings", "_inner", "_meta", lists=True, sets=True)

    def push_post_stacks(a):
        mp, dom = m_parts(a)
        pre, post = a.pre.st, a.post.st
        return stack(post, pre, Z) == z3.If(z3.Select(dom, Z), z3.Concat(stack(pre, pre, Z), z3.Unit(z3.Select(mp, Z))), stack(pre, pre, Z))

    def push_post_frames(a):
        pre, post = a.pre.st, a.post.st
        fs0, fs1 = frames_seq(pre), frames_seq(post)
        return z3.And(z3.Length(fs1) == z3.Length(fs0) + 1, z3.SubSeq(fs1, 0, z3.Length(fs0)) == fs0)

    def push_post_members(a):
        mp, dom = m_parts(a)
        post = a.post.st
        fs1 = frames_seq(post)
        frame = fs1[z3.Length(fs1) - 1]
        return z3.Select(set_members(post, frame), Z) == z3.Select(dom, Z)

    c.ensures("every Var of m gets exactly one new binding (its value in m); all other Vars are untouched", push_post_stacks)
    c.ensures("exactly one frame is pushed on the frame stack", push_post_frames)
    c.ensures("the new frame lists exactly the Vars of m", push_post_members)

    def push_raise(a):
        pre, post = a.pre.st, a.post.st
        return z3.And(stack(post, pre, Z) == stack(pre, pre, Z), frames_seq(post) == frames_seq(pre))

    c.ensures_on_raise("if establishing the bindings fails half way, every Var's stack and the frame stack are exactly as before", push_raise)

    def push_inv(ctx):
        eng, st = ctx.eng, ctx.st
        pre = ctx.entry.st
        mterm = ctx["m"]
        inner = z3.Select(pre.field_array("_inner"), V.Val.a(mterm))
        mp, dom = V.map_of(V.Val.a(inner)), V.dom_of(V.Val.a(inner))
        Bset = ctx.set_of(ctx["bindings"])
        ks = ctx.it.keys_seq
        j = z3.Int("j")
        n = ks.n
        pos = ks.inv  # position of a key in this iteration order (bijection with [0, n))
        return [
            ("processed Vars have exactly one new binding, the rest are untouched",
             z3.ForAll([x], z3.Implies(z3.And(isvar(eng, x), z3.Not(V.is_none(tl_of(pre, x)))),
                                       stack(st, pre, x) == z3.If(z3.Select(Bset, x), z3.Concat(stack(pre, pre, x), z3.Unit(z3.Select(mp, x))), stack(pre, pre, x))),
                       patterns=[tl_of(pre, x)])),
            ("the set `bindings` holds exactly the keys processed so far",
             forall_pats([x], z3.Select(Bset, x) == z3.And(z3.Select(dom, x), pos(x) < ctx.i), [pos(x), z3.Select(dom, x), z3.Select(Bset, x)])),
            ("every processed key is a dynamic Var with a binding list",
             z3.ForAll([x], z3.Implies(z3.And(z3.Select(dom, x), pos(x) < ctx.i), z3.And(dynamic(pre, x), z3.Not(V.is_none(tl_of(pre, x))))), patterns=[pos(x), z3.Select(dom, x)])),
            ("the frame stack is untouched inside the loop", frames_seq(st) == frames_seq(pre)),
        ]

    c.loop(0, invariant=push_inv, frame=[], lists=True, sets=True)

    def unwind_inv(ctx):
        """Loop of the exception handler: `for var in bindings: var.pop_bindings()`."""
        eng, st = ctx.eng, ctx.st
        pre = ctx.entry.st  # state when the handler's loop is entered
        Bset = ctx.set_of(ctx["bindings"])
        ks = ctx.it.keys_seq
        j = z3.Int("j")
        n = ks.n
        pos = ks.inv
        popped = lambda v: z3.SubSeq(stack(pre, pre, v), 0, z3.Length(stack(pre, pre, v)) - 1)  # noqa: E731
        return [
            ("visited members have lost exactly their newest binding, every other Var is untouched",
             z3.ForAll([x], z3.Implies(z3.And(isvar(eng, x), z3.Not(V.is_none(tl_of(pre, x)))),
                                       stack(st, pre, x) == z3.If(z3.And(z3.Select(Bset, x), pos(x) < ctx.i), popped(x), stack(pre, pre, x))),
                       patterns=[tl_of(pre, x)])),
            ("the frame stack and the set are untouched", z3.And(frames_seq(st) == frames_seq(pre), Bset == z3.Select(pre.sets, V.Val.a(ctx["bindings"])))),
        ]

    c.loop(1, invariant=unwind_inv, frame=[], lists=True)

    def rp_push(m, ctx, ob):
        # the path fixes *why* establishing the bindings failed: choose the matching concrete failure
        exc = getattr(ctx, "exc", None)
        cls = getattr(getattr(exc, "pycls", None), "__name__", None)
        kind = {"RuntimeException": "non-dynamic", "ExceptionInfo": "validator-rejects"}.get(cls, "validator-raises-base-exception")
        return PUSH_REPLAY.replace("@KIND@", kind)

    c.replay(rp_push)
    c.replay_without_model = True

    # ------------------------------------------------------------------ pop_thread_bindings
    TOPF = z3.Const("top.frame", V.Val)  # name for the top frame (avoids an if-then-else inside triggers)

    def top_frame(st):
        return TOPF

    def frame_ok(a):
        """The top frame is a PersistentSet of dynamic Vars which each still carry a binding
        (this is what push_thread_bindings establishes and well-nested use preserves)."""
        from basilisp.lang.set import PersistentSet

        pre = a.pre.st
        fr = top_frame(pre)
        mem = set_members(pre, fr)
        return z3.And(
            z3.Length(frames_seq(pre)) > 0,
            fr == frames_seq(pre)[z3.Length(frames_seq(pre)) - 1],
            V.is_ref(fr),
            V.cls_of(V.Val.a(fr)) == a.eng.class_id(PersistentSet),
            V.Val.a(fr) <= 0,
            z3.ForAll([x], z3.Implies(z3.Select(mem, x), z3.And(isvar(a.eng, x), dynamic(pre, x), z3.Not(V.is_none(tl_of(pre, x))), z3.Length(stack(pre, pre, x)) > 0)),
                      patterns=[z3.Select(mem, x)]),
        )

    c = pack.contract("basilisp.lang.runtime:pop_thread_bindings")
    c.setup(setup)
    c.requires("all Vars are well-typed and own their binding list", lambda a: wf_all(a.eng, a.pre.st))
    c.requires("there is a frame, and its Vars are dynamic and still bound", frame_ok)
    c.requires("Z is an arbitrary Var with a binding list (generalisation constant)", gen_var)
    c.raises()
    c.modifies("_bindings", "_inner", "_meta", lists=True)

    def pop_post(a):
        pre, post = a.pre.st, a.post.st
        mem = set_members(pre, top_frame(pre))
        fs0, fs1 = frames_seq(pre), frames_seq(post)
        old = stack(pre, pre, Z)
        return z3.And(
            stack(post, pre, Z) == z3.If(z3.Select(mem, Z), z3.SubSeq(old, 0, z3.Length(old) - 1), old),
            fs1 == z3.SubSeq(fs0, 0, z3.Length(fs0) - 1),
        )

    c.ensures("exactly the Vars of the top frame lose exactly their newest binding; the frame is removed", pop_post)

    def pop_inv(ctx):
        eng, st = ctx.eng, ctx.st
        pre = ctx.entry.st
        ks = ctx.it.keys_seq
        pos = ks.inv
        mem = set_members(pre, TOPF)  # the local `bindings` is the top frame (precondition names it TOPF)
        popped = lambda v: z3.SubSeq(stack(pre, pre, v), 0, z3.Length(stack(pre, pre, v)) - 1)  # noqa: E731
        return [
            ("visited members have lost exactly their newest binding, every other Var is untouched",
             z3.ForAll([x], z3.Implies(z3.And(isvar(eng, x), z3.Not(V.is_none(tl_of(pre, x)))),
                                       stack(st, pre, x) == z3.If(z3.And(z3.Select(mem, x), pos(x) < ctx.i), popped(x), stack(pre, pre, x))),
                       patterns=[tl_of(pre, x)])),
            ("the frame stack is untouched inside the loop", frames_seq(st) == frames_seq(pre)),
        ]

    c.loop(0, invariant=pop_inv, frame=[], lists=True)

    # ------------------------------------------------------------------ the `bindings` context manager
    # Call-site contracts of push/pop: the statements proved above for one arbitrary Var, generalised.
    def all_vars(eng, pre, body):
        return z3.ForAll([x], z3.Implies(z3.And(isvar(eng, x), z3.Not(V.is_none(tl_of(pre, x)))), body(x)), patterns=[tl_of(pre, x)])

    def inner_parts(st, mterm):
        inner = z3.Select(st.field_array("_inner"), V.Val.a(mterm))
        return V.map_of(V.Val.a(inner)), V.dom_of(V.Val.a(inner))

    mpush = pack.contract("basilisp.lang.runtime:push_thread_bindings", modular=True)
    mpush.spec_only = True
    mpush.modifies_ = ["_bindings", "_inner", "_meta"]
    mpush.modifies_lists = True
    mpush.modifies_sets = True
    mpush.requires("all Vars are well-typed and own their binding list", lambda a: wf_all(a.eng, a.pre.st))
    mpush.requires("the keys of m are Vars", lambda a: z3.ForAll([x], z3.Implies(z3.Select(inner_parts(a.pre.st, a.m)[1], x), isvar(a.eng, x))))

    def mpush_post(a):
        pre, post = a.pre.st, a.post.st
        mp, dom = inner_parts(pre, a.m)
        fs0, fs1 = frames_seq(pre), frames_seq(post)
        frame = fs1[z3.Length(fs1) - 1]
        from basilisp.lang.set import PersistentSet

        return z3.And(
            all_vars(a.eng, pre, lambda v: stack(post, pre, v) == z3.If(z3.Select(dom, v), z3.Concat(stack(pre, pre, v), z3.Unit(z3.Select(mp, v))), stack(pre, pre, v))),
            z3.Length(fs1) == z3.Length(fs0) + 1,
            z3.SubSeq(fs1, 0, z3.Length(fs0)) == fs0,
            V.is_ref(frame),
            V.cls_of(V.Val.a(frame)) == a.eng.class_id(PersistentSet),
            z3.ForAll([x], z3.Select(set_members(post, frame), x) == z3.Select(dom, x), patterns=[z3.Select(dom, x)]),
            z3.ForAll([x], z3.Implies(z3.Select(dom, x), z3.And(dynamic(pre, x), z3.Not(V.is_none(tl_of(pre, x))))), patterns=[z3.Select(dom, x)]),
            # fields of Vars are not written
            post.field_array("_tl") == pre.field_array("_tl"),
            post.field_array("bindings") == pre.field_array("bindings"),
            post.field_array("_dynamic") == pre.field_array("_dynamic"),
        )

    mpush.ensures("[generalised] every Var of m has one new binding, one frame listing m's Vars was pushed", mpush_post)
    mpush.may_raise = [(Exception, None)]
    mpush.ensures_on_raise("[generalised] a failed push leaves every stack and the frame stack as before",
                           lambda a: z3.And(a.post.st.lists == a.pre.st.lists, frames_seq(a.post.st) == frames_seq(a.pre.st),
                                            a.post.st.field_array("_bindings") == a.pre.st.field_array("_bindings"),
                                            a.post.st.field_array("_inner") == a.pre.st.field_array("_inner")))

    mpop = pack.contract("basilisp.lang.runtime:pop_thread_bindings", modular=True)
    mpop.spec_only = True
    mpop.modifies_ = ["_bindings", "_inner", "_meta"]
    mpop.modifies_lists = True
    mpop.requires("all Vars are well-typed and own their binding list", lambda a: wf_all(a.eng, a.pre.st))

    def mpop_pre(a):
        from basilisp.lang.set import PersistentSet

        pre = a.pre.st
        fs = frames_seq(pre)
        fr = fs[z3.Length(fs) - 1]
        mem = set_members(pre, fr)
        return z3.And(
            z3.Length(fs) > 0,
            V.is_ref(fr),
            V.cls_of(V.Val.a(fr)) == a.eng.class_id(PersistentSet),
            z3.ForAll([x], z3.Implies(z3.Select(mem, x), z3.And(isvar(a.eng, x), dynamic(pre, x), z3.Not(V.is_none(tl_of(pre, x))), z3.Length(stack(pre, pre, x)) > 0))),
        )

    mpop.requires("there is a frame, and its Vars are dynamic and still bound", mpop_pre)

    def mpop_post(a):
        pre, post = a.pre.st, a.post.st
        fs0, fs1 = frames_seq(pre), frames_seq(post)
        mem = set_members(pre, fs0[z3.Length(fs0) - 1])
        return z3.And(
            all_vars(a.eng, pre, lambda v: stack(post, pre, v) == z3.If(z3.Select(mem, v), z3.SubSeq(stack(pre, pre, v), 0, z3.Length(stack(pre, pre, v)) - 1), stack(pre, pre, v))),
            fs1 == z3.SubSeq(fs0, 0, z3.Length(fs0) - 1),
            post.field_array("_tl") == pre.field_array("_tl"),
            post.field_array("bindings") == pre.field_array("bindings"),
            post.field_array("_dynamic") == pre.field_array("_dynamic"),
        )

    mpop.ensures("[generalised] exactly the top frame's Vars lose their newest binding; the frame is removed", mpop_post)

    def bindings_setup(eng, st):
        from basilisp.lang.map import PersistentMap as PM

        setup(eng, st)
        from basilisp.lang import map as lmap

        def map_model(e, s, args, k):
            # lmap.map(bindings or {}): some persistent map whose keys are Vars (the caller's obligation)
            r = z3.Const("the.bindings.map", V.Val)
            s.assume(V.is_ref(r), V.cls_of(V.Val.a(r)) == e.class_id(PM), V.Val.a(r) <= 0)
            inner = z3.Select(s.field_array("_inner"), V.Val.a(r))
            s.assume(z3.ForAll([x], z3.Implies(z3.Select(V.dom_of(V.Val.a(inner)), x), isvar(e, x))))
            yield s, SV(r, hint=PM)

        eng.models[id(lmap.map)] = Model("lmap.map", map_model)

        def body(e, node, s, fr):
            # the managed body: by induction a well-nested piece of code, i.e. it leaves binding stacks and
            # frames as it found them; it may end normally or with any exception
            s_r = s.copy()
            yield s, None
            yield s_r, Raise(Exc(None, (), term=V.fresh_int("body_exc"), note="raised by the managed body"))

        eng.yield_hook = body

    c = pack.contract("basilisp.lang.runtime:bindings")
    c.setup(bindings_setup)
    c.requires("all Vars are well-typed and own their binding list", lambda a: wf_all(a.eng, a.pre.st))
    c.requires("Z is an arbitrary Var with a binding list (generalisation constant)", gen_var)

    def restored(a):
        pre, post = a.pre.st, a.post.st
        return z3.And(stack(post, pre, Z) == stack(pre, pre, Z), frames_seq(post) == frames_seq(pre))

    c.ensures("after the managed block every Var has exactly the bindings it had before", lambda a: stack(a.post.st, a.pre.st, Z) == stack(a.pre.st, a.pre.st, Z))
    c.ensures("after the managed block the frame stack is as before", lambda a: frames_seq(a.post.st) == frames_seq(a.pre.st))
    c.ensures_on_raise("bindings restored also when the block - or establishing the bindings - fails", lambda a: stack(a.post.st, a.pre.st, Z) == stack(a.pre.st, a.pre.st, Z))
    c.ensures_on_raise("frame stack restored also when the block - or establishing the bindings - fails", lambda a: frames_seq(a.post.st) == frames_seq(a.pre.st))

    def rp_ctx(m, ctx, ob):
        return (
            "from basilisp.lang import runtime as rt, symbol as sym, map as lmap\n"
            "ns = rt.Namespace.get_or_create(sym.symbol('c11-replay-ctx'))\n"
            "outer = rt.Var.intern(ns, sym.symbol('*outer*'), 'root-outer', dynamic=True)\n"
            "nd = rt.Var.intern(ns, sym.symbol('nd'), 'root-nd', dynamic=False)\n"
            "with rt.bindings({outer: 'bound-outer'}):\n"
            "    try:\n        with rt.bindings({nd: 1}):\n            pass\n    except Exception as e:\n        print('inner form failed to establish its bindings:', type(e).__name__, e)\n"
            "    seen = outer.value\n    frames = len(rt._THREAD_BINDINGS.get_bindings())\n"
            "    print('inside the outer form *outer* is', seen, '; frames:', frames)\n"
            "    leaked = (seen != 'bound-outer') or frames != 1\n"
            "    if leaked:\n        rt.push_thread_bindings(lmap.map({outer: 'x'}))  # re-balance so the outer form can exit\n"
            "print('REPRODUCED' if leaked else 'not reproduced')\n"
        )

    c.replay(rp_ctx)
    c.replay_without_model = True
    pack.extra.append(thread_bindings_bounded)
    pack.assume("BOUNDED (not proved): runtime.get_thread_bindings - what future / pmap / bound-fn convey - is run concretely for every nesting of up to three binding frames over three Vars")
    return pack


def thread_bindings_bounded(tier, seed):
    '''bounded stand-in for runtime.get_thread_bindings (a loop over the frame stack with a dict comprehension over each frame's set of
    Vars: outside the executor): the real function is run for every nesting of 0..3 binding frames, each binding a non-empty subset of three
    dynamic Vars, and compared with the spec - the map of every Var bound by any open frame to its current (innermost) value'''
    import os

    from pyvc.run import REPLAY_DIR, run_snippet

    p = os.path.join(REPLAY_DIR, "C11", "thread_bindings_bounded.py")
    failed, outp = run_snippet("# bounded check for property C11\n# function: basilisp.lang.runtime:get_thread_bindings\n" + BINDINGS_BOUNDED, p)
    ran = "cases " in outp
    rec = {"name": "[bounded: every nesting of up to three binding frames over three Vars, 400 cases] get_thread_bindings - what future, pmap and bound-fn convey - is the map of every Var "
                   "bound by an open frame to its innermost value",
           "kind": "bounded", "bounded": True, "line": 0, "time_s": 0.0, "backend": "concrete execution of the real function", "verdict": "refuted" if failed else ("bounded-ok" if ran else "unknown")}
    if failed:
        rec.update(replay=p, reproduced=True, replay_output=outp[-1500:], model={})
    return [{"key": "bounded:basilisp.lang.runtime:get_thread_bindings", "file": "src/basilisp/lang/runtime.py", "lines": [0, 0], "error": None if (ran or failed) else "the bounded check did not run: " + outp[-300:],
             "obligations": [rec], "extra": True, "bounded": True, "bound": "every nesting of up to three binding frames, each over a non-empty subset of three Vars", "cases": 400,
             "result": "a case fails" if failed else "all cases agree with the spec", "time_s": 0.0}]


BINDINGS_BOUNDED = r'''
import itertools
from basilisp.lang import runtime as rt, symbol as sym, map as lmap
ns = rt.Namespace.get_or_create(sym.symbol("c11-bounded"))
VS = [rt.Var.intern(ns, sym.symbol("v%d" % i), "root%d" % i, dynamic=True) for i in range(3)]
subsets = [c for k in (1, 2, 3) for c in itertools.combinations(range(3), k)]
base = dict(rt.get_thread_bindings())   # whatever this process has bound already (e.g. *ns*) stays part of every answer
bad, cases = [], 0
for depth in range(0, 4):
    for frames in itertools.product(subsets, repeat=depth):
        cases += 1
        want = dict(base)
        for d, fr in enumerate(frames):
            rt.push_thread_bindings(lmap.map({VS[i]: "f%d-%d" % (d, i) for i in fr}))
            for i in fr:
                want[VS[i]] = "f%d-%d" % (d, i)
        try:
            got = dict(rt.get_thread_bindings())
        finally:
            for _ in frames:
                rt.pop_thread_bindings()
        if got != want:
            bad.append("frames %r: get_thread_bindings() has %r, expected %r" % (frames, sorted((str(k), v) for k, v in got.items() if k in VS), sorted((str(k), v) for k, v in want.items() if k in VS)))
after = dict(rt.get_thread_bindings())
if after != base:
    bad.append("bindings are left over after all frames were popped")
print("cases", cases)
for line in bad[:6]:
    print(line)
print("REPRODUCED" if bad else "not reproduced")
'''


SET_REPLAY = r'''
from basilisp.lang import runtime as rt, symbol as sym, map as lmap
ns = rt.Namespace.get_or_create(sym.symbol('c11-replay-set'))
v = rt.Var.intern(ns, sym.symbol('*v*'), 0, dynamic=True)
w = rt.Var.intern(ns, sym.symbol('*w*'), 'w-root', dynamic=True)
v.set_validator(lambda x: isinstance(x, int) and x >= 0)
bad = []
def chk(desc, got, want):
    if got != want:
        bad.append('%s: expected %r, got %r' % (desc, want, got))
try:
    with rt.bindings({v: 10, w: 'w-outer'}):
        with rt.bindings({v: 20}):
            chk('innermost binding', v.value, 20)
            v.set_value(21)
            chk('after set!', v.value, 21)
            chk('other Var after set!', w.value, 'w-outer')
            try:
                v.set_value(-1)
                bad.append('validator did not reject -1')
            except Exception:
                pass
            chk('innermost binding after a rejected set!', v.value, 21)
        chk('outer binding after the inner form was left', v.value, 10)
    chk('root after all forms were left', v.value, 0)
    # re-interning a dynamic Var while it is thread-bound (what re-evaluating its `def` does) keeps the binding
    with rt.bindings({w: 'w-bound'}):
        rt.Var.intern(ns, sym.symbol('*w*'), 'w-root2', dynamic=True)
        chk('a Var re-defined while bound is still bound', w.value, 'w-bound')
    chk('... and has the new root afterwards', w.value, 'w-root2')
    rt.Var.intern(ns, sym.symbol('*w*'), 'w-root', dynamic=True)
    chk('other root', w.value, 'w-root')
except BaseException as e:
    bad.append('unexpected %s: %s' % (type(e).__name__, e))
for line in bad[:10]:
    print(line)
print('REPRODUCED' if bad else 'not reproduced')
'''


PUSH_REPLAY = r'''
from basilisp.lang import runtime as rt, symbol as sym, map as lmap
KIND = "@KIND@"
ns = rt.Namespace.get_or_create(sym.symbol('c11-replay'))
class Stop(BaseException):
    pass
def boom(v):
    if v != 'root-bad':
        raise Stop()
    return True
if KIND == 'non-dynamic':
    bad = rt.Var.intern(ns, sym.symbol('nd'), 'root-bad', dynamic=False)
else:
    bad = rt.Var.intern(ns, sym.symbol('*bad*'), 'root-bad', dynamic=True)
    bad.set_validator((lambda v: v == 'root-bad') if KIND == 'validator-rejects' else boom)
# the counter-model needs a dynamic Var processed *before* the failing one: pick a dynamic Var that the
# (hash-ordered) map iterates first
for i in range(64):
    d = rt.Var.intern(ns, sym.symbol(f'*d{i}*'), 'root-d', dynamic=True)
    m = lmap.map({d: 1, bad: 2})
    if [k for k, _ in m.items()][0] is d:
        break
try:
    rt.push_thread_bindings(m)
    print('no exception')
except BaseException as e:
    print('establishing the bindings failed (%s):' % KIND, type(e).__name__, e)
print('the other Var after the failed binding form:', d.value, '(root is root-d); frames:', len(rt._THREAD_BINDINGS.get_bindings()))
print('REPRODUCED' if d.value != 'root-d' else 'not reproduced')
'''
