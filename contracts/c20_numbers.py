"""C20 - integer and ratio arithmetic is exact; quot/rem/mod identities; result types.

Contracts on the real functions of src/basilisp/lang/numbers.py, entered through
the live single-dispatch objects (so the dispatch table and the
`_normalize_fraction_result` decorator are the ones that run).
"""
import z3

from pyvc import vals as V
from pyvc.contract import Pack, T, INT, FRACTION, FLOAT, DECIMAL

EXACT = T(lambda v: z3.Or(V.is_int(v), V.is_frac(v)), None, "int|Fraction")
NUM4 = T(lambda v: z3.Or(V.is_int(v), V.is_frac(v), V.is_flt(v), V.is_dec(v)), None, "int|Fraction|float|Decimal")
INEXACT_PAIR = lambda a: z3.Or(V.is_flt(a.x), V.is_dec(a.x), V.is_flt(a.y), V.is_dec(a.y))  # noqa: E731

OPS = {
    "add": lambda x, y: x + y,
    "subtract": lambda x, y: x - y,
    "multiply": lambda x, y: x * y,
    "divide": lambda x, y: x / y,
}


def _replay_exact(fname):
    def rp(m, ctx, ob):
        x, y = m.py(ctx.x), m.py(ctx.y)
        return (
            "from fractions import Fraction\nfrom basilisp.lang import numbers\n"
            f"x, y = {x!r}, {y!r}\n"
            f"r = numbers.{fname}(x, y)\n"
            f"import operator\nexp = {{'add': operator.add, 'subtract': operator.sub, 'multiply': operator.mul, 'divide': lambda a, b: Fraction(a) / Fraction(b)}}['{fname}'](Fraction(x), Fraction(y))\n"
            "ok = (Fraction(r) == exp) and isinstance(r, (int, Fraction)) and not isinstance(r, bool) and (isinstance(r, int) == (exp.denominator == 1))\n"
            "print('result', repr(r), 'expected', exp)\n"
            "print('REPRODUCED' if not ok else 'not reproduced')\n"
        )

    return rp


def _replay_mixed(fname):
    def rp(m, ctx, ob):
        def sample(t):
            # a concrete value of the operand's type in the counter-model (the contract is about types only)
            for test, txt in ((V.is_flt, "1.5"), (V.is_dec, "Decimal('1.5')"), (V.is_frac, "Fraction(1, 3)"), (V.is_int, "7")):
                if m.bool(test(t)):
                    return txt
            return "7"

        xs, ys = sample(ctx.x), sample(ctx.y)
        return (
            "from fractions import Fraction\nfrom decimal import Decimal\nfrom basilisp.lang import numbers\n"
            f"x, y = {xs}, {ys}\n"
            f"r = numbers.{fname}(x, y)\n"
            "want = float if isinstance(x, float) or isinstance(y, float) else Decimal\n"
            f"print('{fname}', repr(x), repr(y), '->', repr(r), '; expected a', want.__name__)\n"
            "print('REPRODUCED' if type(r) is not want else 'not reproduced')\n"
        )

    return rp


def build(active_known=frozenset()):
    pack = Pack("C20", "Integer and ratio arithmetic is exact and quot/rem/mod obey their identities")
    pack.trust("fractions.Fraction keeps lowest terms with positive denominator (normal form); math.trunc/math.floor on Fraction are exact")
    pack.assume("float and Decimal arithmetic results are opaque: only the result *type* and exception class are derived for them")
    pack.assume("machine arithmetic treated as mathematical: in mixed float/integer (or float/ratio) arithmetic the conversion of the exact operand to float is assumed not to "
                "overflow (Python raises OverflowError for magnitudes of 2**1024 - 2**970 and more)")

    for fname, spec in OPS.items():
        # exact operands -------------------------------------------------------------
        c = pack.contract(f"basilisp.lang.numbers:{fname}")
        c.entry_live = True
        c.param("x", EXACT).param("y", EXACT)
        if fname == "divide":
            c.requires("divisor is not zero", lambda a: V.real_of(a.y) != 0)
        c.raises()  # no exception at all for exact operands (division by zero excluded above)
        c.ensures("result is an int or a Fraction", lambda a: z3.Or(V.is_int(a.result), V.is_frac(a.result)))
        c.ensures(
            "value is exactly the rational result",
            lambda a, spec=spec: V.real_of(a.result) == spec(V.real_of(a.x), V.real_of(a.y)),
        )
        c.ensures(
            "an integral result is an int (and only then)",
            lambda a, spec=spec: V.is_int(a.result) == z3.IsInt(spec(V.real_of(a.x), V.real_of(a.y))),
        )
        c.replay(_replay_exact(fname))

        # mixed operands: result type depends only on operand types -------------------
        if fname == "divide":
            continue
        c2 = pack.contract(f"basilisp.lang.numbers:{fname}")
        c2.entry_live = True
        c2.label = "mixed"
        c2.param("x", NUM4).param("y", NUM4)
        c2.requires("at least one operand is a float or a Decimal", INEXACT_PAIR)
        c2.raises()
        c2.ensures(
            "float if either operand is a float, else Decimal (independent of operand order and values)",
            lambda a: z3.If(
                z3.Or(V.is_flt(a.x), V.is_flt(a.y)),
                V.is_flt(a.result),
                V.is_dec(a.result),
            ),
        )
        c2.replay(_replay_mixed(fname))

    # divide: by zero raises ZeroDivisionError for exact operands
    c = pack.contract("basilisp.lang.numbers:divide")
    c.entry_live = True
    c.label = "by-zero"
    c.param("x", EXACT).param("y", EXACT)
    c.requires("divisor is zero", lambda a: V.real_of(a.y) == 0)
    c.raises(ZeroDivisionError)
    c.ensures("never returns", lambda a: z3.BoolVal(False))
    c.allow_no_return = True

    # divide mixed: type table
    c = pack.contract("basilisp.lang.numbers:divide")
    c.entry_live = True
    c.label = "mixed"
    c.param("x", NUM4).param("y", NUM4)
    c.requires("at least one operand is a float or a Decimal", INEXACT_PAIR)
    c.ensures(
        "float if either operand is a float, else Decimal",
        lambda a: z3.If(z3.Or(V.is_flt(a.x), V.is_flt(a.y)), V.is_flt(a.result), V.is_dec(a.result)),
    )
    c.replay(_replay_mixed("divide"))

    # trunc ---------------------------------------------------------------------------
    c = pack.contract("basilisp.lang.numbers:trunc")
    c.entry_live = True
    c.param("x", EXACT)
    c.raises()
    c.ensures("result is an int", lambda a: V.is_int(a.result))
    c.ensures(
        "rounds toward zero",
        lambda a: z3.And(
            z3.ToReal(V.Val.i(a.result)) * z3.ToReal(V.Val.i(a.result)) <= V.real_of(a.x) * V.real_of(a.x),
            z3.If(V.real_of(a.x) >= 0, z3.And(z3.ToReal(V.Val.i(a.result)) <= V.real_of(a.x), V.real_of(a.x) < z3.ToReal(V.Val.i(a.result)) + 1),
                  z3.And(z3.ToReal(V.Val.i(a.result)) >= V.real_of(a.x), V.real_of(a.x) > z3.ToReal(V.Val.i(a.result)) - 1)),
        ),
    )
    _lisp_contracts(pack)
    return pack


def _R(v):
    return V.real_of(v)


def _lisp_contracts(pack):
    """quot / rem / mod are Lisp functions of core.lpy: the verified text is the Python /repo's compiler emits (pyvc.lpy)."""
    from basilisp import main as _bmain

    _bmain.init()
    import importlib

    importlib.import_module("basilisp.core")
    pack.assume("NOT under contract: basilisp.core/rem and basilisp.core/mod. Their emitted bodies were extracted and executed (30 and 20 paths), but the "
                "obligations `rem = num - div * trunc(num / div)` / `mod = num - div * floor(num / div)` mix products of two symbolic numbers with "
                "integer-valued terms and stay `unknown` in z3 (100 s), in cvc5 and in the real relaxation (nlsat); they are not claimed")
    pack.trust("for the functions of core.lpy: compile() of the module the generator emits means what ast.unparse prints of it; the live "
               "basilisp.core module was produced by the same pipeline from the same file")

    nz = ("divisor is not zero", lambda a: _R(a.div) != 0)

    def lin(eng, st):
        eng.linear_pruning = True

    # quot ----------------------------------------------------------------------------
    c = pack.contract("basilisp.core:quot")
    c.param("num", EXACT).param("div", EXACT)
    c.requires(*nz)
    c.raises()
    c.ensures("an integer", lambda a: V.is_int(a.result))
    c.ensures(
        "the exact quotient rounded toward zero: |q*div| <= |num| < |(|q|+1)*div| and q*div has the sign of num",
        lambda a: _quot_spec(_R(a.num), _R(a.div), z3.ToReal(V.Val.i(a.result))),
    )
    c.replay(_replay_qrm("quot"))
    c.setup(lin)



def _abs(x):
    return z3.If(x >= 0, x, -x)


def TRUNC(t):
    """spec function: the integer nearest to t between 0 and t"""
    return z3.If(t >= 0, z3.ToReal(z3.ToInt(t)), -z3.ToReal(z3.ToInt(-t)))


def FLOOR(t):
    return z3.ToReal(z3.ToInt(t))


def _quot_spec(x, y, q):
    # q = trunc(x / y), characterised (q is an integer by a separate clause): between 0 and x / y, less than 1 from x / y
    t = x / y
    return z3.If(t >= 0, z3.And(q <= t, t < q + 1), z3.And(q >= t, t > q - 1))


def _rem_spec(x, y, r):
    return r == x - y * TRUNC(x / y)


def _mod_spec(x, y, r):
    return r == x - y * FLOOR(x / y)


def _replay_qrm(fname):
    def rp(m, ctx, ob):
        x, y = m.py(ctx.num), m.py(ctx.div)
        return (
            "from fractions import Fraction\nimport importlib, math\nfrom basilisp import main as bm\nbm.init()\n"
            "core = importlib.import_module('basilisp.core')\n"
            f"x, y = {x!r}, {y!r}\n"
            f"r = core.{fname}(x, y)\n"
            "X, Y = Fraction(x), Fraction(y)\n"
            "q = math.trunc(X / Y)\n"
            "exp = {'quot': q, 'rem': X - Y * q, 'mod': X - Y * math.floor(X / Y)}['" + fname + "']\n"
            "ok = isinstance(r, (int, Fraction)) and not isinstance(r, bool) and Fraction(r) == exp and (not (isinstance(x, int) and isinstance(y, int)) or isinstance(r, int))\n"
            f"print('{fname}', repr(x), repr(y), '->', repr(r), '; expected', exp)\n"
            "print('REPRODUCED' if not ok else 'not reproduced')\n"
        )

    return rp
