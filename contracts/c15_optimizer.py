"""C15 - the Python-AST optimisation pass only performs the catalogue of permitted rewrites.

The property's second sentence *is* a specification: every change the pass makes is one of
R1 drop a statement that is a bare constant or name; R2 drop statements made unreachable by
return/raise/break/continue; R3 drop an ``if`` whose branches are both empty (keeping its test's
evaluation), R3' ``if t: <nothing> else: B`` == ``if not t: B``; R4 de-duplicate ``global``
declarations; R5 ``operator.f(a, b)`` -> the native operator *with the same operands in the same
order and the same meaning*; R0 rebuilding a node with the same fields.

Each function of optimizer.py gets the postcondition "the result is exactly the catalogue rewrite of
its input" as an equation between AST shapes (classes and fields of heap objects).  The R5 table
below is written from the documentation of Python's ``operator`` module, not from the code.
That each catalogue rewrite preserves Python's semantics is trusted (Python language reference).
"""
import ast

import z3

from pyvc import vals as V
from pyvc.contract import Pack, T, OBJ, ANY, STR
from pyvc.engine import SV, Model, Raise, Exc, Unsupported

TERMINATORS = (ast.Break, ast.Continue, ast.Raise, ast.Return)

# R5: operator-module function -> (shape, native operator class); from the `operator` module docs:
# "operator.add(a, b): Return a + b" ... "operator.is_(a, b): Return a is b" ... "operator.contains(a, b):
# Return the outcome of the test b in a" (note the reversed operands) ... "operator.getitem(a, b): Return a[b]".
R5_BINOP = {"add": ast.Add, "and_": ast.BitAnd, "floordiv": ast.FloorDiv, "lshift": ast.LShift, "mod": ast.Mod, "mul": ast.Mult,
            "matmul": ast.MatMult, "or_": ast.BitOr, "pow": ast.Pow, "rshift": ast.RShift, "sub": ast.Sub, "truediv": ast.Div, "xor": ast.BitXor}
R5_UNARY = {"not_": ast.Not, "inv": ast.Invert, "invert": ast.Invert}
R5_COMPARE = {"lt": ast.Lt, "le": ast.LtE, "eq": ast.Eq, "ne": ast.NotEq, "gt": ast.Gt, "ge": ast.GtE, "is_": ast.Is, "is_not": ast.IsNot}
# `b in a` evaluates b before a, `operator.contains(a, b)` evaluates a before b: there is no native form with the
# same operands in the same order, so the catalogue has no entry for it.  `del a[b]` is a statement, not an
# expression: no entry either.
R5_SUBSCRIPT = {"getitem"}
AST_CLASSES = [ast.AST, ast.stmt, ast.expr, ast.Call, ast.Attribute, ast.Name, ast.Constant, ast.BinOp, ast.UnaryOp, ast.Compare, ast.Subscript, ast.Delete,
               ast.If, ast.While, ast.Try, ast.ExceptHandler, ast.FunctionDef, ast.AsyncFunctionDef, ast.Expr, ast.Global, ast.Pass, ast.Load, ast.Del, ast.In, *TERMINATORS,
               *set(R5_BINOP.values()), *set(R5_UNARY.values()), *set(R5_COMPARE.values())]


def fld(st, obj, name):
    return z3.Select(st.field_array(name), V.Val.a(obj))


def lst(st, ref):
    return z3.Select(st.lists, V.Val.a(ref))


def isa(eng, v, cls):
    return z3.And(V.is_ref(v), V.isinst(V.cls_of(V.Val.a(v)), eng.class_id(cls)))


def exact(eng, v, cls):
    return z3.And(V.is_ref(v), V.cls_of(V.Val.a(v)) == eng.class_id(cls))


def term(eng, v):
    return z3.Or(*[isa(eng, v, c) for c in TERMINATORS])


def setup(eng, st):
    from basilisp.lang.compiler import optimizer

    for c in AST_CLASSES:
        eng.class_id(c)
    eng.class_id(list)
    eng.closed_world_classes = True
    eng.models[id(ast.copy_location)] = Model("ast.copy_location", lambda e, s, a, k: iter([(s, a[0])]))  # copies only position attributes
    lid = eng.class_id(list)
    is_list = lambda v: (z3.And(V.is_ref(v), V.cls_of(V.Val.a(v)) == lid), list)  # noqa: E731
    for cname, f in (("Call", "args"), ("Call", "keywords"), ("If", "body"), ("If", "orelse"), ("While", "body"), ("While", "orelse"), ("Try", "body"), ("Try", "orelse"),
                     ("Try", "finalbody"), ("Try", "handlers"), ("ExceptHandler", "body"), ("FunctionDef", "body"), ("FunctionDef", "decorator_list"),
                     ("AsyncFunctionDef", "body"), ("AsyncFunctionDef", "decorator_list"), ("Global", "names")):
        eng.field_types[(cname, f)] = is_list
    eng.field_types[("Attribute", "attr")] = lambda v: V.is_str(v)
    eng.field_types[("Name", "id")] = lambda v: V.is_str(v)


def filter_spec(eng, R, S):
    """R2: R is S cut after its first return/raise/break/continue (or all of S if there is none)."""
    j = z3.Int("j")
    n, k = z3.Length(S), z3.Length(R)
    i = z3.Int("i")
    return z3.And(
        k <= n,
        z3.ForAll([i], z3.Implies(z3.And(i >= 0, i < k), R[i] == S[i])),  # R is the prefix of S of length k (elementwise)
        z3.ForAll([j], z3.Implies(z3.And(j >= 0, j < k - 1), z3.Not(term(eng, S[j])))),
        z3.Implies(k < n, z3.And(k >= 1, term(eng, S[k - 1]))),
    )


def build(active_known=frozenset()):
    from basilisp.lang.compiler import optimizer, constants

    pack = Pack("C15", "The Python-AST optimization pass never changes what generated code does")
    pack.trust("each catalogue rewrite R0-R5 preserves results, exceptions and effect order (Python language reference; `operator` module documentation for R5)")
    pack.trust("ast.NodeTransformer.generic_visit replaces child nodes by their visit results and returns the same node; ast.copy_location copies only position attributes")
    pack.assume("objects known only through isinstance tests are instances of the ast classes registered by this pack (closed world for attribute access)")
    mod = "basilisp.lang.compiler.optimizer"
    ALIAS = constants.OPERATOR_ALIAS

    # ------------------------------------------------------------------ R2: _filter_dead_code
    c = pack.contract(f"{mod}:_filter_dead_code")
    c.param("nodes", OBJ(list))
    c.setup(setup)
    c.raises()
    c.ensures("R2: the result is the input cut after its first return/raise/break/continue", lambda a: z3.And(exact(a.eng, a.result, list), filter_spec(a.eng, lst(a.post.st, a.result), lst(a.pre.st, a.nodes))))
    c.ensures("the input list itself is not modified", lambda a: lst(a.post.st, a.nodes) == lst(a.pre.st, a.nodes))

    def fdc_inv(ctx):
        S = ctx.entry.list_of(ctx["nodes"])
        R = ctx.list_of(ctx["new_nodes"])
        j = z3.Int("j")
        return [
            ("new_nodes is the visited prefix", z3.And(R == z3.SubSeq(S, 0, ctx.i), ctx.list_of(ctx["nodes"]) == S, ctx["new_nodes"] != ctx["nodes"])),
            ("no terminator among the visited statements", z3.ForAll([j], z3.Implies(z3.And(j >= 0, j < ctx.i), z3.Not(term(ctx.eng, S[j]))))),
        ]

    c.loop(0, invariant=fdc_inv, frame=[], lists=True)

    # ------------------------------------------------------------------ _needs_eq_operator
    c = pack.contract(f"{mod}:_needs_eq_operator")
    c.setup(setup)
    c.raises()

    def singleton(v):
        return z3.Or(V.is_none(v), v == V.mk_bool(True), v == V.mk_bool(False), v == a_ellipsis[0])

    a_ellipsis = [None]

    def ne_post(a):
        a_ellipsis[0] = a.eng.lift(..., a.pre.st)
        return V.Val.b(a.result) == z3.And(isa(a.eng, a.arg, ast.Constant), z3.Not(singleton(fld(a.pre.st, a.arg, "value"))))

    c.ensures("true exactly for constants other than True/False/None/...", lambda a: z3.And(V.is_bool(a.result), ne_post(a)))
    c.replay(lambda m, ctx, ob: R5_REPLAY.replace("@SKIP@", repr([n for n, k in (("is_ with a constant operand", "C15-is-to-eq"), ("contains operand order", "C15-contains-order")) if k in active_known])))
    c.replay_without_model = True

    # ------------------------------------------------------------------ R5: _optimize_operator_call_attr
    c = pack.contract(f"{mod}:_optimize_operator_call_attr")
    c.param("fn", OBJ(ast.Attribute)).param("node", OBJ(ast.Call))
    c.setup(setup)

    def is_operator_call(a):
        v = fld(a.pre.st, a.fn, "value")
        return z3.And(isa(a.eng, v, ast.Name), fld(a.pre.st, v, "id") == V.mk_str(ALIAS))

    def attr_is(a, name):
        return fld(a.pre.st, a.fn, "attr") == V.mk_str(name)

    def args(a):
        return lst(a.pre.st, fld(a.pre.st, a.node, "args"))

    def kwargs(a):
        return lst(a.pre.st, fld(a.pre.st, a.node, "keywords"))

    c.requires("the call has the arity of the operator function (2 operands; 1 for not_/inv/invert) and no keyword arguments",
               lambda a: z3.And(z3.If(z3.Or(*[attr_is(a, k) for k in R5_UNARY]), z3.Length(args(a)) == 1, z3.Length(args(a)) == 2),
                                exact(a.eng, fld(a.pre.st, a.node, "keywords"), list), z3.Length(kwargs(a)) == 0))
    if "C15-is-to-eq" in active_known:
        c.requires("[carve-out of known finding C15-is-to-eq] operator.is_/is_not is not applied to a non-singleton constant operand",
                   lambda a: z3.Implies(z3.Or(attr_is(a, "is_"), attr_is(a, "is_not")),
                                        z3.And(*[z3.Not(z3.And(isa(a.eng, args(a)[i], ast.Constant), z3.Not(singleton2(a, fld(a.pre.st, args(a)[i], "value"))))) for i in (0, 1)])))
    if "C15-contains-order" in active_known:
        c.requires("[carve-out of known finding C15-contains-order] the function is not operator.contains", lambda a: z3.Not(attr_is(a, "contains")))

    def singleton2(a, v):
        return z3.Or(V.is_none(v), v == V.mk_bool(True), v == V.mk_bool(False), v == a.eng.lift(..., a.pre.st))

    c.raises()

    def r5_post(a):
        st = a.post.st
        r = a.result
        A = args(a)
        clauses = []
        for k, opc in R5_BINOP.items():
            clauses.append(z3.Implies(attr_is(a, k), z3.And(exact(a.eng, r, ast.BinOp), fld(st, r, "left") == A[0], fld(st, r, "right") == A[1], exact(a.eng, fld(st, r, "op"), opc))))
        for k, opc in R5_UNARY.items():
            clauses.append(z3.Implies(attr_is(a, k), z3.And(exact(a.eng, r, ast.UnaryOp), fld(st, r, "operand") == A[0], exact(a.eng, fld(st, r, "op"), opc))))
        for k, opc in R5_COMPARE.items():
            ops_, comps = lst(st, fld(st, r, "ops")), lst(st, fld(st, r, "comparators"))
            clauses.append(z3.Implies(attr_is(a, k), z3.And(exact(a.eng, r, ast.Compare), fld(st, r, "left") == A[0], z3.Length(ops_) == 1, exact(a.eng, ops_[0], opc),
                                                            z3.Length(comps) == 1, comps[0] == A[1])))
        clauses.append(z3.Implies(attr_is(a, "getitem"), z3.And(exact(a.eng, r, ast.Subscript), fld(st, r, "value") == A[0], fld(st, r, "slice") == A[1], exact(a.eng, fld(st, r, "ctx"), ast.Load))))
        known = list(R5_BINOP) + list(R5_UNARY) + list(R5_COMPARE) + list(R5_SUBSCRIPT)
        clauses.append(z3.Implies(z3.And(*[z3.Not(attr_is(a, k)) for k in known]), r == a.node))
        return z3.If(is_operator_call(a), z3.And(*clauses), r == a.node)

    c.ensures("R5: the result is the native operator of the same meaning applied to the same operands in the same order; every other call is returned unchanged", r5_post)

    def rp_r5(m, ctx, ob):
        skip = [n for n, k in (("is_ with a constant operand", "C15-is-to-eq"), ("contains operand order", "C15-contains-order")) if k in active_known]
        return R5_REPLAY.replace("@SKIP@", repr(skip))

    c.replay(rp_r5)
    c.replay_without_model = True

    # a call that does not have the operator's arity is not one of the catalogue's rewrites: it has to be left alone (it
    # raises TypeError when - and only when - it is executed, optimised or not), and the pass itself must not fail on it
    c = pack.contract(f"{mod}:_optimize_operator_call_attr")
    c.label = "wrong arity"
    c.param("fn", OBJ(ast.Attribute)).param("node", OBJ(ast.Call))
    c.setup(setup)
    c.requires("the call does not have the arity of the operator function",
               lambda a: z3.Not(z3.If(z3.Or(*[attr_is(a, k) for k in R5_UNARY]), z3.Length(args(a)) == 1, z3.Length(args(a)) == 2)))
    c.raises()
    c.ensures("a call with the wrong number of operands is returned unchanged", lambda a: a.result == a.node)
    c.replay(rp_r5)
    c.replay_without_model = True

    # the functions of the operator module take no keyword arguments: such a call raises TypeError when executed, and
    # "the same operands" cannot be kept by an operator expression, so it is not one of the catalogue's rewrites either
    c = pack.contract(f"{mod}:_optimize_operator_call_attr")
    c.label = "keyword arguments"
    c.param("fn", OBJ(ast.Attribute)).param("node", OBJ(ast.Call))
    c.setup(setup)
    c.requires("the call passes at least one keyword argument", lambda a: z3.And(exact(a.eng, fld(a.pre.st, a.node, "keywords"), list), z3.Length(kwargs(a)) > 0))
    c.raises()
    c.ensures("a call with keyword arguments is returned unchanged", lambda a: a.result == a.node)
    c.replay(rp_r5)
    c.replay_without_model = True
    add_visitors(pack, active_known)
    return pack


# ----------------------------------------------------------------------------- the NodeTransformer methods
CHILD_FIELDS = ("body", "orelse", "finalbody", "handlers", "test", "type", "name", "args", "decorator_list", "returns", "value", "func", "keywords", "names")


def add_visitors(pack, active_known):
    from basilisp.lang.compiler import optimizer

    Opt = optimizer.PythonASTOptimizer
    mod = "basilisp.lang.compiler.optimizer"

    def vsetup(eng, st):
        setup(eng, st)

        def generic_visit(e, s, args, k):
            """Trusted contract of ast.NodeTransformer.generic_visit: the children of the node are replaced by the
            results of visiting them (here: arbitrary, by induction each is a catalogue rewrite of the old child);
            lists of children are rebuilt in place; the node itself is returned."""
            self_, node = args
            s.ghost["gv_in"] = s.copy()
            e.havoc_heap(s, [f for f in CHILD_FIELDS])
            s.lists = z3.Const(V.fresh_name("lists_after_generic_visit"), s.lists.sort())
            g0 = s.ghost["gv_in"]
            nd = e.lift(node, s)
            for f in CHILD_FIELDS:
                # (old_value[:] = new_values: a field holding a list keeps the list object, whose content is rebuilt)
                s.assume(z3.Implies(exact(e, fld(g0, nd, f), list), fld(s, nd, f) == fld(g0, nd, f)))
            s.ghost["gv"] = s.copy()
            yield s, node

        eng.method_models[(Opt, "generic_visit")] = Model("NodeTransformer.generic_visit", generic_visit)

        # _filter_dead_code is used through its contract (proved above)
        def fdc(e, s, args, k):
            nodes = args[0]
            r = e.alloc(s, list)
            R = V.fresh_val("filtered")
            seq = z3.Const(V.fresh_name("filtered_seq"), V.ValSeq)
            s.lists = z3.Store(s.lists, V.Val.a(r.t), seq)
            s.assume(filter_spec(e, seq, z3.Select(s.lists, V.Val.a(e.lift(nodes, s)))))
            yield s, r

        eng.models[id(optimizer._filter_dead_code)] = Model("_filter_dead_code (by contract)", fdc)

    def gv(a):
        return a.post.st.ghost["gv"]

    def filtered(a, result_list, old_list_ref):
        """result_list (a list ref in the post state) is the R2-filter of the list the node had after generic_visit"""
        g = gv(a)
        return filter_spec(a.eng, lst(a.post.st, result_list), lst(g, old_list_ref))

    def visitor(name, cls, bodies=()):
        c = pack.contract(f"{mod}:PythonASTOptimizer.{name}")
        c.param("self", OBJ(Opt)).param("node", OBJ(cls))
        c.setup(vsetup)
        c.raises()
        if bodies:
            # Visiting a statement has an effect on the pass itself (a `global` statement declares its names in the
            # current scope, R4), so statements that R2 removes must not be visited: their declarations would make the
            # pass drop a later, live `global` of the same name.
            def live_only(a, bodies=bodies):
                g = a.post.st.ghost["gv_in"]
                return z3.And(*[filter_spec(a.eng, lst(g, fld(g, a.node, f)), lst(g, fld(g, a.node, f))) for f in bodies])

            c.ensures("only live statements are visited: the statement lists handed to generic_visit contain nothing after a return/raise/break/continue", live_only)
            c.replay(lambda m, ctx, ob: R4_REPLAY)
            c.replay_without_model = True
        return c

    # ---- visit_While: R0 + R2 on both bodies
    c = visitor("visit_While", ast.While, bodies=("body", "orelse"))
    c.ensures("a While with the same test whose body and orelse are the R2-filtered bodies",
              lambda a: z3.And(exact(a.eng, a.result, ast.While), fld(a.post.st, a.result, "test") == fld(gv(a), a.node, "test"),
                               filtered(a, fld(a.post.st, a.result, "body"), fld(gv(a), a.node, "body")),
                               filtered(a, fld(a.post.st, a.result, "orelse"), fld(gv(a), a.node, "orelse"))))

    # ---- visit_Try
    c = visitor("visit_Try", ast.Try, bodies=("body", "orelse", "finalbody"))
    c.requires("the node is a try statement as Python builds it: handlers and finalbody are lists",
               lambda a: z3.And(*[z3.And(exact(a.eng, fld(a.pre.st, a.node, f), list), a.eng.external_ref_fact(a.pre.st, fld(a.pre.st, a.node, f))) for f in ("handlers", "finalbody")]))

    def try_post(a):
        g, st, r = gv(a), a.post.st, a.result
        H, F = lst(g, fld(g, a.node, "handlers")), lst(g, fld(g, a.node, "finalbody"))
        RF = lst(st, fld(st, r, "finalbody"))
        # (the R2-filter of a list is empty exactly when the list is empty)
        bare = z3.And(z3.Length(H) == 0, z3.Length(F) == 0)
        return z3.And(exact(a.eng, r, ast.Try), fld(st, r, "handlers") == fld(g, a.node, "handlers"),
                      *[filtered(a, fld(st, r, f), fld(g, a.node, f)) for f in ("body", "orelse")],
                      z3.If(bare, z3.And(z3.Length(RF) == 1, exact(a.eng, RF[0], ast.Pass)), filter_spec(a.eng, RF, F)))

    c.ensures("a Try with the same handlers whose body, orelse and finalbody are R2-filtered; where that would leave a try with neither a handler "
              "nor a finally clause (every statement of the finally clause was a bare constant or name), a single `pass` stands for the dropped "
              "statements, so that the result is still a statement Python compiles", try_post)
    c.replay(lambda m, ctx, ob: combine_replays(R4_REPLAY, TRY_REPLAY))
    c.ensures("the result has a handler or a non-empty finally clause, as Python requires of a try statement",
              lambda a: z3.Or(z3.Length(lst(a.post.st, fld(a.post.st, a.result, "handlers"))) > 0, z3.Length(lst(a.post.st, fld(a.post.st, a.result, "finalbody"))) > 0))

    # ---- visit_ExceptHandler
    c = visitor("visit_ExceptHandler", ast.ExceptHandler, bodies=("body",))
    c.ensures("an ExceptHandler with the same type and name whose body is R2-filtered",
              lambda a: z3.And(exact(a.eng, a.result, ast.ExceptHandler), fld(a.post.st, a.result, "type") == fld(gv(a), a.node, "type"),
                               fld(a.post.st, a.result, "name") == fld(gv(a), a.node, "name"), filtered(a, fld(a.post.st, a.result, "body"), fld(gv(a), a.node, "body"))))

    # ---- visit_Expr: R1
    c = visitor("visit_Expr", ast.Expr)
    c.replay(lambda m, ctx, ob: R1_REPLAY)
    c.replay_without_model = True
    c.ensures("R1: a statement that is a bare constant or name is dropped, every other expression statement is returned unchanged",
              lambda a: z3.If(z3.Or(isa(a.eng, fld(a.pre.st, a.node, "value"), ast.Constant), isa(a.eng, fld(a.pre.st, a.node, "value"), ast.Name)), V.is_none(a.result), a.result == a.node))
    c.modifies()

    # ---- visit_If: R2, R3, R3'
    c = visitor("visit_If", ast.If, bodies=("body", "orelse"))

    def if_post(a):
        g, st, r = gv(a), a.post.st, a.result
        B0, E0 = lst(g, fld(g, a.node, "body")), lst(g, fld(g, a.node, "orelse"))
        test = fld(g, a.node, "test")
        RB, RE = lst(st, fld(st, r, "body")), lst(st, fld(st, r, "orelse"))
        # (the R2-filter of a list is empty exactly when the list is empty: it always keeps the first statement)
        keep = z3.And(exact(a.eng, r, ast.If), fld(st, r, "test") == test, filter_spec(a.eng, RB, B0), filter_spec(a.eng, RE, E0))
        nt = fld(st, r, "test")
        flip = z3.And(exact(a.eng, r, ast.If), exact(a.eng, nt, ast.UnaryOp), exact(a.eng, fld(st, nt, "op"), ast.Not), fld(st, nt, "operand") == test,
                      filter_spec(a.eng, RB, E0), z3.Length(RE) == 0)
        drop_ok = V.is_none(r)
        if "C15-if-drops-test" not in active_known:
            # R3 as written in the property: the `if` may go, its test's evaluation has to stay
            drop_ok = z3.And(exact(a.eng, r, ast.Expr), fld(st, r, "value") == test)
        return z3.If(z3.Length(B0) > 0, keep, z3.If(z3.Length(E0) > 0, flip, drop_ok))

    c.ensures("R2 on both branches; R3' flips an empty body; R3 drops an if with two empty branches while keeping its test's evaluation", if_post)

    def rp_if(m, ctx, ob):
        return IF_REPLAY

    c.replay(rp_if)
    c.replay_without_model = True

    # ---- visit_Call: children first, then R5 on operator calls
    c = visitor("visit_Call", ast.Call)

    def call_setup(eng, st):
        vsetup(eng, st)
        opt_res = z3.Function("optimize_operator_call", V.Val, V.Val, V.Val)

        def ooc(e, s, args, k):
            # the single-dispatch entry (proved above for Attribute callees; identity for every other callee type)
            fn, node = e.lift(args[0], s), e.lift(args[1], s)
            s.ghost["ooc_args"] = (fn, node)
            r = opt_res(fn, node)
            s.assume(e.external_ref_fact(s, r))
            yield s, SV(r)

        eng.models[id(optimizer._optimize_operator_call)] = Model("_optimize_operator_call (by contract)", ooc)
        eng.opt_res = opt_res

    c.setup_.clear()
    c.setup(call_setup)
    c.ensures("the operator rewrite is applied to the node's callee and the node after its children were visited",
              lambda a: a.result == a.eng.opt_res(fld(gv(a), a.node, "func"), a.node))

    # ------------------------------------------------------------------ R4: global declarations, one context per function scope
    # Python: a `global` statement applies to the code block it appears in; a nested function does not inherit the
    # declarations of the enclosing one.  The pass keeps a stack of per-scope name sets (self._global_ctx).
    from pyvc import lib

    ANYK = z3.Int("any_address")
    ANYNAME = z3.Const("any_name", V.Val)

    def ctx_stack(st, self_):
        return lst(st, fld(st, self_, "_global_ctx"))

    def set_of(st, ref):
        return z3.Select(st.sets, V.Val.a(ref))

    def r4_setup(eng, st):
        vsetup(eng, st)
        lib.install(eng)
        eng.class_id(set)
        lid = eng.class_id(list)
        # the deque of scopes is used as a stack (append / pop / [-1]): modelled as a list
        eng.field_types[("PythonASTOptimizer", "_global_ctx")] = lambda v: (z3.And(V.is_ref(v), V.cls_of(V.Val.a(v)) == lid), list)

        def generic_visit_scoped(e, s, args, k):
            """generic_visit as above; in addition the visited children may declare names in the *current* scope
            (by visit_Global's contract they only add names to the set on top of the stack) and leave the stack of
            scopes as it was (by visit_FunctionDef's contract, inductively)."""
            self_, node = args
            s.ghost["gv_pre"] = s.copy()
            s.ghost["gv_in"] = s.copy()
            stack_ref = z3.Select(s.field_array("_global_ctx"), V.Val.a(e.lift(self_, s)))
            stack = z3.Select(s.lists, V.Val.a(stack_ref))
            e.havoc_heap(s, [f for f in CHILD_FIELDS])
            s.lists = z3.Store(z3.Const(V.fresh_name("lists_after_generic_visit"), s.lists.sort()), V.Val.a(stack_ref), stack)
            for f in ("body", "orelse", "finalbody", "handlers", "decorator_list", "names", "args", "keywords"):
                # the stack of scopes is private to the optimizer: no child list of an AST node is that list
                s.assume(z3.Select(s.field_array(f), V.Val.a(e.lift(node, s))) != stack_ref)
            top = stack[z3.Length(stack) - 1]
            grown = z3.Const(V.fresh_name("scope_after_children"), z3.ArraySort(V.Val, z3.BoolSort()))
            kk = z3.Const(V.fresh_name("k"), V.Val)
            s.assume(z3.ForAll([kk], z3.Implies(z3.Select(z3.Select(s.sets, V.Val.a(top)), kk), z3.Select(grown, kk))))
            s.sets = z3.Store(s.sets, V.Val.a(top), grown)
            g0 = s.ghost["gv_in"]
            nd = e.lift(node, s)
            for f in CHILD_FIELDS:
                # (old_value[:] = new_values: a field holding a list keeps the list object, whose content is rebuilt)
                s.assume(z3.Implies(exact(e, fld(g0, nd, f), list), fld(s, nd, f) == fld(g0, nd, f)))
            s.ghost["gv"] = s.copy()
            yield s, node

        eng.method_models[(Opt, "generic_visit")] = Model("NodeTransformer.generic_visit (scoped)", generic_visit_scoped)

    def stack_wf(a):
        """the scope stack is a non-empty list of distinct sets, none of which is the list of names of the node"""
        S = ctx_stack(a.pre.st, a.self)
        i, j = z3.Ints("i j")
        sid = a.eng.class_id(set)
        top = S[z3.Length(S) - 1]
        stack_ref = fld(a.pre.st, a.self, "_global_ctx")
        return z3.And(z3.Length(S) >= 1, V.is_ref(top), V.cls_of(V.Val.a(top)) == sid, V.is_ref(stack_ref), V.Val.a(stack_ref) <= 0, V.Val.a(top) <= 0,
                      fld(a.pre.st, a.self, "_global_ctx") != fld(a.pre.st, a.node, "names" if "Global" in a.eng.cur_func_key else "body"))

    c = visitor("visit_Global", ast.Global)
    c.setup_.clear()
    c.setup(r4_setup)
    c.requires("the scope stack is not empty, its top is a set, and it is not the node's list of names", stack_wf)

    def global_post(a):
        pre, post = a.pre.st, a.post.st
        S = ctx_stack(pre, a.self)
        top = S[z3.Length(S) - 1]
        G = set_of(pre, top)
        declared = lib.seq_members(lst(pre, fld(pre, a.node, "names")))
        new = z3.And(z3.Select(declared, ANYNAME), z3.Not(z3.Select(G, ANYNAME)))
        r = a.result
        # (stated for the arbitrary name ANYNAME: a dropped statement declared nothing new; a kept one lists exactly
        # the new names, of which there is at least one)
        kept = z3.And(exact(a.eng, r, ast.Global), z3.Select(lib.seq_members(lst(post, fld(post, r, "names"))), ANYNAME) == new,
                      z3.Length(lst(post, fld(post, r, "names"))) > 0)
        return z3.And(
            z3.If(V.is_none(r), z3.Not(new), kept),
            ctx_stack(post, a.self) == S,
            z3.Select(set_of(post, top), ANYNAME) == z3.Or(z3.Select(G, ANYNAME), z3.Select(declared, ANYNAME)),
            z3.Implies(z3.And(ANYK <= 0, ANYK != V.Val.a(top)), z3.Select(post.sets, ANYK) == z3.Select(pre.sets, ANYK)),
        )

    ANYNAME2 = z3.Const("any_name2", V.Val)
    c.ensures("R4: the statement keeps exactly the names not yet declared in the current scope (dropped when none is left); "
              "the current scope then also holds the declared names; no other scope changes", global_post)

    def function_scope(fname, fcls):
        c = visitor(fname, fcls, bodies=("body",))
        c.setup_.clear()
        c.setup(r4_setup)
        c.requires("the scope stack is well-formed", stack_wf)

        def fresh_scope(a):
            pre = a.pre.st
            g0 = a.post.st.ghost["gv_pre"]
            S0, S1 = ctx_stack(pre, a.self), ctx_stack(g0, a.self)
            t = S1[z3.Length(S1) - 1]
            return z3.And(S1 == z3.Concat(S0, z3.Unit(t)), V.is_ref(t), V.Val.a(t) > 0, V.cls_of(V.Val.a(t)) == a.eng.class_id(set),
                          z3.Not(z3.Select(set_of(g0, t), ANYNAME)),
                          z3.Implies(ANYK <= 0, z3.Select(g0.sets, ANYK) == z3.Select(pre.sets, ANYK)))

        c.ensures("R4: the body of a function is visited in a new scope that is empty (global declarations are per function: "
                  "nothing is inherited from the enclosing scopes) on top of the unchanged enclosing scopes", fresh_scope)
        c.ensures("R4: afterwards the enclosing scopes are exactly as before",
                  lambda a: z3.And(ctx_stack(a.post.st, a.self) == ctx_stack(a.pre.st, a.self), fld(a.post.st, a.self, "_global_ctx") == fld(a.pre.st, a.self, "_global_ctx"),
                                   z3.Implies(ANYK <= 0, z3.Select(a.post.st.sets, ANYK) == z3.Select(a.pre.st.sets, ANYK))))
        c.ensures("a FunctionDef with the same name, arguments, decorators and return annotation whose body is R2-filtered",
                  lambda a: z3.And(exact(a.eng, a.result, fcls),
                                   *[fld(a.post.st, a.result, f) == fld(gv(a), a.node, f) for f in ("name", "args", "decorator_list", "returns")],
                                   filtered(a, fld(a.post.st, a.result, "body"), fld(gv(a), a.node, "body"))))

        def rp_fd(m, ctx, ob):
            return R4_REPLAY

        c.replay(rp_fd)
        c.replay_without_model = True


    for fname, fcls in (("visit_FunctionDef", ast.FunctionDef), ("visit_AsyncFunctionDef", ast.AsyncFunctionDef)):
        if hasattr(Opt, fname):
            function_scope(fname, fcls)

    # scope completeness: every kind of function definition the generator emits opens a scope of its own for `global`
    # statements, so the pass must open one too - a definition kind without a visitor of its own is visited by
    # generic_visit in the *enclosing* scope, and its `global` statements are then dropped as duplicates
    def scope_completeness(tier, seed):
        import os

        from pyvc.run import REPLAY_DIR, run_snippet

        kinds = (("visit_FunctionDef", ast.FunctionDef), ("visit_AsyncFunctionDef", ast.AsyncFunctionDef))
        missing = [n for n, _ in kinds if not hasattr(Opt, n)]
        rec = {"name": "R4: every kind of function definition (FunctionDef, AsyncFunctionDef) has a visitor of its own that opens a scope for `global` declarations"
                       + (f" [missing: {', '.join(missing)}]" if missing else ""),
               "kind": "scope-completeness", "verdict": "refuted" if missing else "proved", "backend": "enumeration", "time_s": 0.0, "line": 0}
        if missing:
            p_ = os.path.join(REPLAY_DIR, "C15", "scope_completeness.py")
            okr, outp = run_snippet("# replay for property C15\n# failed obligation: " + rec["name"] + "\n" + R4_REPLAY, p_, timeout=120)
            rec.update(replay=p_, reproduced=okr, replay_output=outp[-1500:], model={"missing": missing})
        return [{"key": "scope-completeness:basilisp.lang.compiler.optimizer:PythonASTOptimizer", "file": "src/basilisp/lang/compiler/optimizer.py", "lines": [0, 0],
                 "error": None, "obligations": [rec], "extra": True, "time_s": 0.0}]

    pack.extra.append(scope_completeness)

R4_REPLAY = r'''
import ast
from basilisp.lang.compiler import optimizer
src = """
x = 0
def outer():
    global x
    x = 1
    def inner():
        global x
        x = 2
    return inner
def twice():
    global y
    global y
    y = 5
outer()()
twice()
import asyncio
async def a1():
    global z
    z = 1
async def a2():
    global z
    z = 2
asyncio.run(a1())
asyncio.run(a2())
"""
out = []
for optimise in (False, True):
    tree = ast.parse(src)
    if optimise:
        tree = ast.fix_missing_locations(optimizer.PythonASTOptimizer().visit(tree))
    env = {}
    try:
        exec(compile(tree, "<c15-r4>", "exec"), env)
        out.append((env.get("x"), env.get("y"), env.get("z")))
    except Exception as e:
        out.append("raised " + type(e).__name__)
print("module globals (x, y, z) after nested / async functions re-declare a global: unoptimised", out[0], " optimised", out[1])
bad = out[0] != out[1]
# a `global` statement in dead code (the generator emits such trees; CPython would reject the source text, so the tree is
# built directly): after the pass the live declaration must still be there
def G(name):
    return ast.Global(names=[name])
def assign(name, v):
    return ast.Assign(targets=[ast.Name(id=name, ctx=ast.Store())], value=ast.Constant(v))
for label, wrap in (("if", lambda dead: ast.If(test=ast.Name(id="t", ctx=ast.Load()), body=dead, orelse=[])),
                    ("while", lambda dead: ast.While(test=ast.Name(id="t", ctx=ast.Load()), body=dead, orelse=[])),
                    ("try", lambda dead: ast.Try(body=dead, handlers=[ast.ExceptHandler(type=ast.Name(id="ValueError", ctx=ast.Load()), name=None, body=[ast.Pass()])], orelse=[], finalbody=[]))):
    dead = [ast.Raise(exc=ast.Call(func=ast.Name(id="ValueError", ctx=ast.Load()), args=[], keywords=[]), cause=None), G("w"), assign("w", 1)]
    fn = ast.FunctionDef(name="f", args=ast.arguments(posonlyargs=[], args=[ast.arg(arg="t")], kwonlyargs=[], kw_defaults=[], defaults=[]),
                         body=[wrap(dead), G("w"), assign("w", 2)], decorator_list=[], returns=None, type_params=[])
    mod = ast.fix_missing_locations(optimizer.PythonASTOptimizer().visit(ast.Module(body=[fn], type_ignores=[])))
    env = {}
    try:
        exec(compile(mod, "<c15-dead-global>", "exec"), env)
        env["f"](False)
        got = env.get("w")
    except Exception as e:
        got = "raised " + type(e).__name__
    if got != 2:
        print("a `global w` inside dead code of an %s made the pass drop the live `global w`: module global w is %r after f(False), expected 2" % (label, got))
        bad = True
print("REPRODUCED" if bad else "not reproduced")
'''


R1_REPLAY = r'''
import ast
from basilisp.lang.compiler import optimizer
src = """
log = []
class T:
    @property
    def p(self):
        log.append("p")
        return 1
o = T()
def f():
    log.append("a")
    o.p
    o.p.real
    5
    o
    log.append("b")
    len(log)
f()
try:
    o.nope
    log.append("no error")
except AttributeError:
    log.append("AttributeError")
"""
out = []
for optimise in (False, True):
    tree = ast.parse(src)
    if optimise:
        tree = ast.fix_missing_locations(optimizer.PythonASTOptimizer().visit(tree))
    env = {}
    exec(compile(tree, "<c15-r1>", "exec"), env)
    out.append(env["log"])
print("effects of expression statements: unoptimised", out[0], " optimised", out[1])
print("REPRODUCED" if out[0] != out[1] else "not reproduced")
'''


TRY_REPLAY = r'''
import ast
from basilisp.lang.compiler import optimizer
bad = []
for name, src in [
    ("finally holding only a constant", "log = []\ntry:\n    log.append(1)\nfinally:\n    None\n"),
    ("finally holding only names and constants, in a function", "log = []\ndef f(x):\n    try:\n        log.append(x)\n        return x\n    finally:\n        x\n        5\nlog.append(f(2))\n"),
    ("finally with an effect", "log = []\ntry:\n    log.append(1)\nfinally:\n    log.append(2)\n    3\n"),
    ("handler and constant finally", "log = []\ntry:\n    log.append(1)\n    log.nope\nexcept AttributeError:\n    log.append('h')\nfinally:\n    None\n"),
    ("raise passing through a constant finally", "log = []\ndef f():\n    try:\n        raise KeyError(1)\n    finally:\n        None\ntry:\n    f()\nexcept KeyError:\n    log.append('KeyError')\n"),
]:
    out = []
    for optimise in (False, True):
        tree = ast.parse(src)
        try:
            if optimise:
                tree = ast.fix_missing_locations(optimizer.PythonASTOptimizer().visit(tree))
            env = {}
            exec(compile(tree, "<c15-try>", "exec"), env)
            out.append(env["log"])
        except Exception as e:
            out.append("%s: %s" % (type(e).__name__, e))
    if out[0] != out[1]:
        bad.append("%s: unoptimised -> %r, optimised -> %r" % (name, out[0], out[1]))
for b in bad:
    print(b)
print("REPRODUCED" if bad else "not reproduced")
'''


def combine_replays(*scripts):
    """one witness script out of several: reproduced when any of them reproduces"""
    return ("import io, contextlib\nhit = False\nfor src in %r:\n    buf = io.StringIO()\n    with contextlib.redirect_stdout(buf):\n        exec(src, {'__name__': '__main__'})\n"
            "    out = buf.getvalue()\n    print(out, end='')\n    hit = hit or out.strip().splitlines()[-1:] == ['REPRODUCED']\nprint('REPRODUCED' if hit else 'not reproduced')\n" % (list(scripts),))


IF_REPLAY = r'''
import ast
from basilisp.lang.compiler import optimizer
src = "trace = []\ndef tr(x):\n    trace.append(x)\n    return x\nif tr(1):\n    None\nelse:\n    None\n"
out = []
for optimise in (False, True):
    tree = ast.parse(src)
    if optimise:
        tree = ast.fix_missing_locations(optimizer.PythonASTOptimizer().visit(tree))
    env = {}
    exec(compile(tree, "<c15-if>", "exec"), env)
    out.append(env["trace"])
print("effects of `if tr(1): <empty> else: <empty>`: unoptimised", out[0], " optimised", out[1])
print("REPRODUCED" if out[0] != out[1] else "not reproduced")
'''


R5_REPLAY = r'''
import ast, operator, io, contextlib
from basilisp.lang.compiler import optimizer, constants
ALIAS = constants.OPERATOR_ALIAS
problems = []
def run(src_call, extra=""):
    """evaluate <ALIAS>.<f>(...) unoptimised and optimised in the same environment; compare results/effect order"""
    outs = []
    for optimise in (False, True):
        tree = ast.parse(extra + "\nRESULT = " + src_call.replace("OP", ALIAS))
        if optimise:
            try:
                tree = ast.fix_missing_locations(optimizer.PythonASTOptimizer().visit(tree))
            except Exception as e:
                outs.append(("the optimiser itself raised " + type(e).__name__, []))
                continue
        trace = []
        env = {ALIAS: operator, "tr": lambda x: (trace.append(x), x)[1]}
        try:
            exec(compile(tree, "<c15>", "exec"), env)
            outs.append((env["RESULT"], list(trace)))
        except Exception as e:
            outs.append(("raised " + type(e).__name__, list(trace)))
    return outs
SKIP = @SKIP@
for name, call, extra in [
    ("is_ against None", "OP.is_(E, None)", "class _E:\n    def __eq__(self, o):\n        return True\n    def __ne__(self, o):\n        return False\n    __hash__ = None\nE = _E()"),
    ("is_not against a boolean", "OP.is_not(E, True)", "class _E:\n    def __eq__(self, o):\n        return True\n    def __ne__(self, o):\n        return False\n    __hash__ = None\nE = _E()"),
    ("wrong arity in a branch that is not taken", "(OP.add(1) if tr(False) else 'ok')", ""),
    ("wrong arity of a unary operator", "(OP.not_(1, 2) if tr(False) else 'ok')", ""),
    ("wrong arity, executed", "OP.sub(tr(1))", ""),
    ("concat of non-sequences (not a catalogue operator: must stay a call)", "OP.concat(tr(1), tr(2))", ""),
    ("concat of sequences", "OP.concat(tr([1]), tr([2]))", ""),
    ("truth", "OP.truth(tr([]))", ""),
    ("index of a non-integer", "OP.index(tr(1.5))", ""),
    ("neg", "OP.neg(tr(True))", ""),
    ("keyword argument, executed", "OP.add(tr(1), tr(2), x=tr(3))", ""),
    ("keyword argument in a branch that is not taken", "(OP.lt(1, 2, **{}) if tr(False) else 'ok')", ""),
    ("empty ** mapping", "OP.getitem(tr([5, 6]), tr(1), **tr({}))", ""),
    ("is_ with a constant operand", "OP.is_(1.0, 1)", ""),
    ("contains operand order", "OP.contains(tr([1, 2]), tr(1))", ""),
    ("delitem in expression position", "OP.delitem(D, 'a')", "D = {'a': 1}"),
    ("add", "OP.add(tr(1), tr(2))", ""),
    ("getitem", "OP.getitem(tr([5, 6]), tr(1))", ""),
]:
    if name in SKIP:
        continue
    plain, opt = run(call, extra)
    if plain != opt:
        problems.append("%s: unoptimised -> %r, optimised -> %r" % (name, plain, opt))
for p in problems:
    print(p)
print("REPRODUCED" if problems else "not reproduced")
'''
