"""Drivers for the C08 pack.

``runtime._fn_apply_to`` and ``runtime.partial`` *return* functions; what the property talks about is what those
returned functions do when called.  A driver only sequences calls to the real functions (make the closure, call
it); the executor runs the real bodies from /repo for everything the driver calls.  Nothing of basilisp is
re-implemented here.
"""
from basilisp.lang import runtime as rt


def call_apply_to(f, arities, max_fixed_arity, args, rest):
    """the ``apply_to`` method the compiler's ``_basilisp_fn`` decorator installs, applied to (args, rest)"""
    return rt._fn_apply_to(f, arities, max_fixed_arity)(args, rest)


def call_partial_1_1(f, a0, b0):
    """((partial f a0) b0)"""
    return rt.partial(f, a0)(b0)


def call_partial_2_2(f, a0, a1, b0, b1):
    """((partial f a0 a1) b0 b1)"""
    return rt.partial(f, a0, a1)(b0, b1)


def call_partial_0_1(f, b0):
    """((partial f) b0)"""
    return rt.partial(f)(b0)


def call_apply(f, arities, max_fixed_arity, args):
    """(apply f a b ... coll) on a compiled function: the decorator's apply_to is installed, then runtime.apply runs"""
    f.apply_to = rt._fn_apply_to(f, arities, max_fixed_arity)
    return rt.apply(f, args)


def call_apply_var(v, f, arities, max_fixed_arity, args):
    """(apply #'f a b ... coll): the Var v holds the compiled function f"""
    f.apply_to = rt._fn_apply_to(f, arities, max_fixed_arity)
    return rt.apply(v, args)
