"""C16 - the reader reports true locations (and classifies incomplete input).

Within reach of function contracts is the component every location comes from: ``StreamReader``.
Its abstract view is the *text* (the infinite sequence CH(0), CH(1), ... of what ``stream.read(1)``
returns: characters, then "" for ever) and a *position* p, the index of the character ``peek``
returns.  The representation (three bounded deques of pushback_depth entries and a negative index)
is tied to the view by the invariant INV:

    after n reads, entry k of the buffer / line / column deque is CH(k) / LINE(k) / COL(k)
    and  p = n + _idx  lies inside the retained window,

where LINE / COL are *specified* from the property, not from the code: the first character sits at
(init_line, init_col); a character that follows a line terminator - LF, or CR that is not followed
by LF (so CRLF counts once) - starts the next line at column 0; any other character is one column
to the right on the same line.

Contracts: ``__init__`` establishes INV at p = 0; ``peek`` returns CH(p); ``loc`` returns
(LINE(p), COL(p)); ``next_char`` / ``advance`` move to p + 1 and return CH(p + 1) / CH(p);
``pushback`` moves to p - 1 or raises IndexError when that would leave the window; every
operation preserves INV.  The number of reads n is ghost state.

Not covered: the form readers built on top (totality, SyntaxError-only, EOF classification of
every reader function) - stated in the manifest.
"""
import z3

from pyvc import vals as V
from pyvc import lib
from pyvc.contract import Pack, T, OBJ, ANY, INT, STR
from pyvc.engine import SV, Model, Raise, Exc, Unsupported

CH = z3.Function("CH", z3.IntSort(), V.Val)        # what the k-th stream.read(1) returns
LINE = z3.Function("LINE", z3.IntSort(), z3.IntSort())
COL = z3.Function("COL", z3.IntSort(), z3.IntSort())
INIT_LINE, INIT_COL = z3.Int("init.line"), z3.Int("init.col")
ONECHAR = z3.Function("one_char_or_empty", V.Val, z3.BoolSort())  # what read(1) returns: a single character, or "" at the end
k = z3.Int("k")


class TextStream:
    """stand-in for the io.TextIOBase the reader is given: only read(1) is used"""


def is_terminated_before(j):
    """character j starts a new line: character j-1 is LF, or CR not followed by LF"""
    prev, cur = CH(j - 1), CH(j)
    return z3.Or(prev == V.mk_str("\n"), z3.And(prev == V.mk_str("\r"), cur != V.mk_str("\n")))


def text_axioms():
    """the specification of the text and of line / column numbering"""
    return z3.And(
        z3.ForAll([k], z3.And(V.is_str(CH(k)), ONECHAR(CH(k))), patterns=[CH(k)]),
        LINE(0) == INIT_LINE, COL(0) == INIT_COL,
        z3.ForAll([k], z3.Implies(k >= 1, LINE(k) == z3.If(is_terminated_before(k), LINE(k - 1) + 1, LINE(k - 1))), patterns=[LINE(k)]),
        z3.ForAll([k], z3.Implies(k >= 1, COL(k) == z3.If(is_terminated_before(k), 0, COL(k - 1) + 1)), patterns=[COL(k)]),
    )


def _cls():
    from basilisp.lang import reader

    return reader.StreamReader


def fld(st, obj, name):
    return z3.Select(st.field_array(name), V.Val.a(obj))


def hist(st, obj, name):
    """(items, count) of everything appended so far to the deque in field `name`"""
    return lib.deque_history(st, V.Val.a(fld(st, obj, name)))


def nreads(st):
    return st.ghost["n_read"]


def setup(eng, st):
    import collections

    SR = _cls()
    lib.install(eng)
    eng.class_id(SR)
    eng.class_id(TextStream)
    dq = eng.class_id(collections.deque)
    for f in ("_buffer", "_line", "_col"):
        eng.field_types[("StreamReader", f)] = lambda v: (z3.And(V.is_ref(v), V.cls_of(V.Val.a(v)) == dq), collections.deque)
    eng.field_types[("StreamReader", "_idx")] = lambda v: V.is_int(v)
    eng.field_types[("StreamReader", "_pushback_depth")] = lambda v: V.is_int(v)
    eng.field_types[("StreamReader", "_stream")] = lambda v: (z3.And(V.is_ref(v), V.cls_of(V.Val.a(v)) == eng.class_id(TextStream)), TextStream)
    st.ghost["n_read"] = z3.Int("n_read.0")
    st.assume(text_axioms())
    eng.single_char_pred = ONECHAR
    from pyvc.contract import INT as _INT, STR as _STR

    self_t = z3.Const("arg.self", V.Val)

    def elem_type(e, s, dq):
        # the line / column deques hold integers, the buffer holds strings (obligations at each use, from INV)
        for f, t in (("_line", _INT), ("_col", _INT), ("_buffer", _STR)):
            if z3.eq(z3.simplify(dq.t), z3.simplify(fld(s, self_t, f))):
                return t
        return None

    eng.elem_type = elem_type

    def read(e, s, args, kw):
        # trusted: a text stream hands out its characters one by one and "" for ever after the end
        if len(args) != 2 or not (isinstance(args[1], int) and args[1] == 1):
            raise Unsupported("stream.read(n) with n != 1")
        n = s.ghost["n_read"]
        s.ghost["n_read"] = n + 1
        yield s, SV(CH(n))

    eng.method_models[(TextStream, "read")] = Model("TextIOBase.read(1)", read)


def _mentions(t, v, has_ite=False):
    todo, found, ite = [t], False, False
    while todo:
        u = todo.pop()
        if z3.eq(u, v):
            found = True
        if z3.is_app(u):
            if u.decl().kind() == z3.Z3_OP_ITE:
                ite = True
            todo.extend(u.children())
    return found and not ite


def nth_pattern(seq, idx):
    """the in-bounds element-access term z3 uses for seq[idx] after simplification, when that is a legal trigger
    (mentions the bound variable, no if-then-else); None otherwise"""
    t = z3.simplify(seq[idx])
    todo = [t]
    while todo:
        u = todo.pop()
        if z3.is_app(u):
            if u.decl().name() == "seq.nth_i" and _mentions(u, idx):
                return u
            todo.extend(u.children())
    return None


def forall_k(body, *pats):
    ok = []
    for p_ in pats:
        if p_ is None or not _mentions(p_, k):
            continue
        try:
            z3.ForAll([k], body, patterns=[p_])
            ok.append(p_)
        except z3.Z3Exception:
            pass
    return z3.ForAll([k], body, patterns=ok) if ok else z3.ForAll([k], body)


ANYIDX = z3.Int("any_index")  # an arbitrary index: a goal stated for it holds for every index


def INV_parts(eng, st, self_, as_goal=False):
    """representation invariant of a StreamReader after n = nreads(st) reads, as named conjuncts.
    As a hypothesis the element clauses are universally quantified; as a goal they are stated for the arbitrary
    index ANYIDX (equivalent, and quantifier-free)."""
    n = nreads(st)
    B, L, C = (hist(st, self_, f) for f in ("_buffer", "_line", "_col"))
    depth = V.Val.i(fld(st, self_, "_pushback_depth"))
    idx = V.Val.i(fld(st, self_, "_idx"))
    bufs = [fld(st, self_, f) for f in ("_buffer", "_line", "_col")]

    def elems(S, spec, pat):
        items = S[0]
        if as_goal:
            return z3.Implies(z3.And(ANYIDX >= 0, ANYIDX < n), z3.Select(items, ANYIDX) == spec(ANYIDX))
        return forall_k(z3.Implies(z3.And(k >= 0, k < n), z3.Select(items, k) == spec(k)), pat(k), z3.Select(items, k))

    return [
        ("at least two characters were read, the window holds at least two, and the three deques are distinct and bounded by the window",
         z3.And(n >= 2, depth >= 2, *[lib.deque_maxlen(V.Val.a(b)) == depth for b in bufs], bufs[0] != bufs[1], bufs[0] != bufs[2], bufs[1] != bufs[2])),
        ("every deque has one entry per character read", z3.And(B[1] == n, L[1] == n, C[1] == n)),
        ("buffer entry k is character k of the text", elems(B, CH, CH)),
        ("line entry k is the line of character k", elems(L, lambda i: V.mk_int(LINE(i)), LINE)),
        ("column entry k is the column of character k", elems(C, lambda i: V.mk_int(COL(i)), COL)),
        ("the cursor lies inside the retained window", z3.And(idx <= -2, -idx <= depth, -idx <= n)),
    ]


_WF = None


def WF(eng, st, self_):
    """An *opaque name* for INV, used wherever a client of StreamReader (a form reader) states or assumes that the
    reader is well-formed: the clients' proofs only pass it from one StreamReader operation to the next, so they do
    not need - and are not slowed down by - the quantified definition.  It is a function of everything INV reads.
    The StreamReader operations themselves are proved against the real INV: their contracts read
    "INV before => INV after", and it is exactly this implication that a client uses under the name WF."""
    global _WF
    lib.deque_history(st, z3.IntVal(0))
    if _WF is None:
        _WF = z3.Function("stream_reader_well_formed", V.Val, V.Val, V.Val, V.Val, V.Val, V.Val, st.aux["dqv"].sort(), st.aux["dqn"].sort(), z3.IntSort(), z3.BoolSort())
    return _WF(self_, fld(st, self_, "_idx"), fld(st, self_, "_buffer"), fld(st, self_, "_line"), fld(st, self_, "_col"), fld(st, self_, "_pushback_depth"),
               st.aux["dqv"], st.aux["dqn"], nreads(st))


def INV(eng, st, self_):
    return z3.And(*[f for _, f in INV_parts(eng, st, self_)])


INV_PART_NAMES = ["at least two characters were read, the window holds at least two, the three deques are distinct and bounded by the window",
                  "every deque has one entry per character read", "buffer entry k is character k of the text", "line entry k is the line of character k",
                  "column entry k is the column of character k", "the cursor lies inside the retained window"]


def pos(st, self_):
    """index of the character `peek` returns"""
    return nreads(st) + V.Val.i(fld(st, self_, "_idx"))


def build(active_known=frozenset()):
    SR = _cls()
    pack = Pack("C16", "The reader is total, classifies incomplete input, and reports true locations")
    pack.common_setup.append(setup)
    pack.trust("a text stream's read(1) returns the next character, and the empty string for ever once the text is exhausted")
    pack.trust("collections.deque(iterable, maxlen) keeps the last maxlen appended items and indexes them like a list (model in pyvc/lib.py)")
    pack.assume("under contract: StreamReader, _with_loc (span tagging), _read_reader_macro (dispatch branch), the prefix readers (quote, deref, unquote, syntax-quote, "
                "metadata, #_), _read_comment, _consume_whitespace, _read_reader_conditional_macro, _read_coll; NOT under contract: the map / number / string / symbol / "
                "keyword / character / regex / reader-conditional readers, read() itself, totality and 'SyntaxError only' for the reader as a whole")
    pack.assume("_read_num: the pushback that directly follows next_char is assumed not to be refused; int()/float()/Decimal() applied to the groups of the number patterns "
                "parse (trusted from the patterns, which are not interpreted); only the truth of a pattern match and the string-ness of its groups are modelled")
    pack.assume("_read_set: the construction of the 'duplicated values' error message (a filtered generator expression over collections.Counter) is not modelled")
    pack.assume("_read_unicode_escape_seq: the single pushback it performs is assumed not to be refused (window of at least three characters, none pushed back on entry)")
    pack.assume("_read_next_consuming_comment, the readers behind the # dispatch table and the function decorated by _with_loc are used by contract (induction over the "
                "nesting depth): they move the cursor forward, keep the stream reader well-formed, return a form (the eof value exactly when nothing but whitespace and "
                "comments is left) or raise a syntax error")
    mod = "basilisp.lang.reader:StreamReader."

    def op(name, moves=False, reads=False):
        """a StreamReader operation: proved here once, and used *by contract* wherever it is called (by the other
        operations and by the form readers)"""
        c = pack.contract(mod + name, modular=True)
        c.inline_within = mod  # the operations call each other: inside their own proofs the real bodies are inlined
        c.param("self", OBJ(SR))
        # (universal clauses: quantified where the clause is assumed, stated for an arbitrary index where it is a goal)
        # inside the operation's own proof the invariant is the real one (assumed before, proved after, clause by clause);
        # at a call site it goes by its opaque name WF (proved before the call, assumed after it)
        c.requires("the reader is well-formed", lambda a: z3.And(*[f for _, f in INV_parts(a.eng, a.pre.st, a.self)]) if a.assuming else WF(a.eng, a.pre.st, a.self))
        inv_after(c)
        c.modifies_ = ["_idx"] if moves else []
        if reads:
            c.modifies_aux = ("dqv", "dqn")
            c.modifies_ghost = ("n_read",)
            c.ensures("reading only appends: at least as many characters have been read as before", lambda a: nreads(a.post.st) >= nreads(a.pre.st))
        return c

    def inv_after(c, on_raise=False):
        """one postcondition per conjunct of the invariant"""
        for i in range(6):
            nm = INV_PART_NAMES[i]

            def fn(a, i=i):
                if a.assuming:  # call site: the whole invariant under its opaque name (once is enough)
                    return WF(a.eng, a.post.st, a.self) if i == 0 else z3.BoolVal(True)
                return INV_parts(a.eng, a.post.st, a.self, as_goal=True)[i][1]

            c.ensures("the reader stays well-formed: " + nm, fn)
            if on_raise:
                c.ensures_on_raise("the reader stays well-formed: " + nm, fn)

    def keeps(a, moved_by):
        """no deque object was swapped, and the position moved by `moved_by`"""
        pre, post = a.pre.st, a.post.st
        return z3.And(pos(post, a.self) == pos(pre, a.self) + moved_by,
                      *[fld(post, a.self, f) == fld(pre, a.self, f) for f in ("_buffer", "_line", "_col", "_pushback_depth", "_stream")])

    c = op("peek")
    c.modifies()
    c.raises()
    c.ensures("peek returns the character at the current position and moves nothing", lambda a: z3.And(a.result == CH(pos(a.pre.st, a.self)), keeps(a, 0), nreads(a.post.st) == nreads(a.pre.st)))
    c.ensures("what is returned is a string of at most one character", lambda a: z3.And(V.is_str(a.result), ONECHAR(a.result)))

    for nm, fn in (("line", LINE), ("col", COL)):
        c = op(nm)
        c.modifies()
        c.raises()
        c.ensures(f"{nm} is the {nm} of the character at the current position", lambda a, fn=fn: z3.And(a.result == V.mk_int(fn(pos(a.pre.st, a.self))), keeps(a, 0)))

    c = op("loc")
    c.modifies()
    c.raises()
    c.ensures("loc is (line, column) of the character at the current position: lines are counted by LF, CRLF and lone CR alike, columns restart at 0 after each",
              lambda a: z3.And(V.is_ref(a.result), V.seq_of(V.Val.a(a.result)) == z3.Concat(z3.Unit(V.mk_int(LINE(pos(a.pre.st, a.self)))), z3.Unit(V.mk_int(COL(pos(a.pre.st, a.self))))), keeps(a, 0)))

    c = op("next_char", moves=True, reads=True)
    c.modifies("_idx")
    c.frame_aux = ("dqv", "dqn")  # the three deques grow; that they are the only ones touched is part of `keeps` + INV
    c.raises()
    c.ensures("next_char moves one character forward and returns the character now under the cursor",
              lambda a: z3.And(a.result == CH(pos(a.pre.st, a.self) + 1), keeps(a, 1)))
    c.ensures("what is returned is a string of at most one character", lambda a: z3.And(V.is_str(a.result), ONECHAR(a.result)))

    c = op("advance", moves=True, reads=True)
    c.modifies("_idx")
    c.frame_aux = ("dqv", "dqn")
    c.raises()
    c.ensures("advance moves one character forward and returns the character that was under the cursor",
              lambda a: z3.And(a.result == CH(pos(a.pre.st, a.self)), keeps(a, 1)))
    c.ensures("what is returned is a string of at most one character", lambda a: z3.And(V.is_str(a.result), ONECHAR(a.result)))

    c = op("pushback", moves=True)
    c.may_raise = [(IndexError, None)]
    c.modifies("_idx")
    c.raises(IndexError)
    c.raises_only_if("the position before the current one has left the pushback window", (IndexError,),
                     lambda a: 1 - V.Val.i(fld(a.pre.st, a.self, "_idx")) > V.Val.i(fld(a.pre.st, a.self, "_pushback_depth")))
    c.ensures_on_raise("a refused pushback changes nothing", lambda a: z3.And(keeps(a, 0), nreads(a.post.st) == nreads(a.pre.st)))
    c.ensures("pushback moves one character back (the same characters will be read again)", lambda a: z3.And(keeps(a, -1), nreads(a.post.st) == nreads(a.pre.st)))
    c.requires("the reader does not stand on the very first character (nothing was read before it that could be pushed back)", lambda a: pos(a.pre.st, a.self) >= 1)

    c = pack.contract(mod + "__init__")
    c.param("self", OBJ(SR)).param("stream", OBJ(TextStream)).param("pushback_depth", INT)
    c.requires("nothing has been read from the stream yet; the window holds at least two characters", lambda a: z3.And(nreads(a.pre.st) == 0, V.Val.i(a.pushback_depth) >= 2))
    c.requires("the start location is the given one, or (1, 0) by default",
               lambda a: z3.And(z3.Or(V.is_none(a.init_line), V.is_int(a.init_line)), z3.Or(V.is_none(a.init_column), V.is_int(a.init_column)),
                                INIT_LINE == z3.If(V.is_none(a.init_line), 1, V.Val.i(a.init_line)), INIT_COL == z3.If(V.is_none(a.init_column), 0, V.Val.i(a.init_column))))
    c.raises()
    inv_after(c)
    c.ensures("a new reader stands on the first character, at the start location", lambda a: pos(a.post.st, a.self) == 0)

    # ------------------------------------------------------------------ lemmas: the numbering really is "true locations"
    j = z3.Int("j")
    ax = text_axioms()
    LF, CR = V.mk_str("\n"), V.mk_str("\r")
    pack.lemma("a character after LF starts the next line at column 0", lambda: ([ax, j >= 1, CH(j - 1) == LF], z3.And(LINE(j) == LINE(j - 1) + 1, COL(j) == 0)))
    pack.lemma("CRLF is one line break: LF after CR stays on the line, the character after it starts the next line",
               lambda: ([ax, j >= 2, CH(j - 2) == CR, CH(j - 1) == LF], z3.And(LINE(j - 1) == LINE(j - 2), LINE(j) == LINE(j - 2) + 1, COL(j) == 0)))
    pack.lemma("a lone CR is a line break", lambda: ([ax, j >= 1, CH(j - 1) == CR, CH(j) != LF], z3.And(LINE(j) == LINE(j - 1) + 1, COL(j) == 0)))
    pack.lemma("any other character is one column further on the same line",
               lambda: ([ax, j >= 1, CH(j - 1) != LF, CH(j - 1) != CR], z3.And(LINE(j) == LINE(j - 1), COL(j) == COL(j - 1) + 1)))
    pack.lemma("line numbers never decrease", lambda: ([ax, j >= 1], LINE(j) >= LINE(j - 1)))

    for c in pack.contracts:
        if c.replay_ is None:
            c.replay(lambda m, ctx, ob: SR_REPLAY)
            c.replay_without_model = True
    add_prefix_readers(pack)
    pack.extra.append(located_prefix_readers)
    return pack


def located_prefix_readers(tier, seed):
    """The span tagging itself (_with_loc) is proved above; what is decided here, by enumeration over the readers of the
    one-character prefixes, is that each reader which *builds a list form* from its text - 'x, @x, ~x, #'x, #(...) - is
    wrapped by that tagger, so that the form it returns carries the span of its own text like every other collection."""
    import inspect
    import os

    from basilisp.lang import reader as rd
    from pyvc.run import REPLAY_DIR, run_snippet

    builders = {"'x": rd._read_quoted, "@x": rd._read_deref, "~x": rd._read_unquote, "#'x": rd._read_var_macro, "#(...)": rd._read_function}
    missing = [k_ for k_, fn in builders.items() if getattr(getattr(fn, "__code__", None), "co_name", "") != "with_lineno_and_col"]  # (_with_loc's wrapper)
    rec = {"name": "every prefix reader that builds a list form ('x, @x, ~x, #'x, #(...)) is wrapped by the location tagger" + (f" [not wrapped: {', '.join(missing)}]" if missing else ""),
           "kind": "located-readers", "verdict": "refuted" if missing else "proved", "backend": "enumeration", "time_s": 0.0, "line": 0}
    if missing:
        p_ = os.path.join(REPLAY_DIR, "C16", "located_prefix_readers.py")
        okr, outp = run_snippet("# replay for property C16\n# failed obligation: " + rec["name"] + "\n" + PREFIX_LOC_REPLAY, p_, timeout=120)
        rec.update(replay=p_, reproduced=okr, replay_output=outp[-1500:], model={"missing": missing})
    return [{"key": "located-readers:basilisp.lang.reader", "file": "src/basilisp/lang/reader.py", "lines": [0, 0], "error": None, "obligations": [rec], "extra": True, "time_s": 0.0}]


PREFIX_LOC_REPLAY = r'''
from basilisp.lang import reader, runtime as rt, symbol as sym
rt.Var.intern(rt.Namespace.get_or_create(sym.symbol(rt.CORE_NS)), sym.symbol(rt.NS_VAR_NAME), rt.Namespace.get_or_create(sym.symbol("c16-loc-replay")), dynamic=True)
K = (reader.READER_LINE_KW, reader.READER_COL_KW, reader.READER_END_LINE_KW, reader.READER_END_COL_KW)
bad = []
for text in ("  'x", "  @x", "  ~x", "  #'x", "  #(f %)", "`(a ~b)"):
    form = list(reader.read_str(text))[0]
    if text.startswith("`"):
        continue
    m = getattr(form, "meta", None)
    if m is None or any(m.val_at(k_) is None for k_ in K):
        bad.append("%r reads as %s without a location" % (text, form))
    elif (m.val_at(K[1]), m.val_at(K[3])) != (2, len(text)):
        bad.append("%r: the span of %s is columns %s-%s, expected 2-%d" % (text, form, m.val_at(K[1]), m.val_at(K[3]), len(text)))
for line in bad:
    print(line)
print("REPRODUCED" if bad else "not reproduced")
'''


# ----------------------------------------------------------------------------- prefix readers: "a form is still owed"
END = z3.Int("end_of_text")  # index of the first "" that read(1) returns
NOMORE = z3.Function("no_more_forms_from", z3.IntSort(), z3.BoolSort())  # only whitespace / comments up to the end of the text
EOFV = z3.Const("ctx.eof.value", V.Val)


def _form_classes():
    from basilisp.lang import keyword as kw, map as lmap, symbol as sym, vector as vec

    class FSym(sym.Symbol):
        __slots__ = ()

    class FKw(kw.Keyword):
        __slots__ = ()

    class FMap(lmap.PersistentMap):
        __slots__ = ()

    class FVec(vec.PersistentVector):
        __slots__ = ()

    class FOther:
        """any other form (numbers, strings, lists ... and the eof value): no metadata support"""

    return [FSym, FKw, FMap, FVec, FOther]


FORM_CLASSES = _form_classes()
META_OF = z3.Function("meta_of_form", V.Val, V.Val)


def add_prefix_readers(pack):
    """quote, deref, unquote, unquote-splicing, syntax-quote, metadata and the #_ comment macro read a prefix and then
    the next form through ``_read_next_consuming_comment``.  That function is used by contract (assumed, by induction
    over the nesting depth): it returns the ``ctx.eof`` value exactly when nothing but whitespace and comments is left,
    returns a real form otherwise, keeps the stream reader well-formed, and raises only syntax errors - and it does not
    raise when the text has simply ended.  From the property: a prefix reader whose form is still owed must raise
    UnexpectedEOFError (the REPL's cue), and what it returns never contains the eof value."""
    from basilisp.lang import reader as rd

    SR, RC = rd.StreamReader, rd.ReaderContext

    def psetup(eng, st):
        lid = eng.class_id(list)
        eng.class_id(RC)
        srid = eng.class_id(SR)
        eng.field_types[("ReaderContext", "_reader")] = lambda v: (z3.And(V.is_ref(v), V.cls_of(V.Val.a(v)) == srid), SR)
        for f in ("_syntax_quoted", "_gensym_env"):
            # unbounded deques used as stacks (append / pop / [-1]): modelled as lists
            eng.field_types[("ReaderContext", f)] = lambda v: (z3.And(V.is_ref(v), V.cls_of(V.Val.a(v)) == lid), list)
        ctx_t = z3.Const("arg.ctx", V.Val)

        def elem_type(e, s, dq):
            from pyvc.contract import INT as _INT, STR as _STR

            r = fld(s, ctx_t, "_reader")
            for f, t in (("_line", _INT), ("_col", _INT), ("_buffer", _STR)):
                if z3.eq(z3.simplify(dq.t), z3.simplify(fld(s, r, f))):
                    return t
            return None

        eng.elem_type = elem_type

        def next_form(e, s, args, k):
            ctx = e.lift(args[0], s)
            r = fld(s, ctx, "_reader")
            p = pos(s, r)
            res = V.fresh_val("next_form")
            # the reader moved on (arbitrarily) and is still well-formed
            s.ghost["n_read"] = z3.Int(V.fresh_name("n_read"))
            s.assume(s.ghost["n_read"] >= 2)
            e.havoc_heap(s, ["_idx"])
            for nm in ("dqv", "dqn"):
                if nm in s.aux:
                    s.aux[nm] = z3.Const(V.fresh_name(nm), s.aux[nm].sort())
            s.assume(WF(e, s, r), e.external_ref_fact(s, res))
            s.assume(z3.Implies(V.is_ref(res), z3.Or(*[V.cls_of(V.Val.a(res)) == e.class_id(fc) for fc in FORM_CLASSES])))
            s_raise = s.copy()
            s.assume((res == fld(s, ctx, "_eof")) == NOMORE(p))
            s.ghost["subreads"] = list(s.ghost.get("subreads", [])) + [(p, res)]
            yield s, SV(res)
            s_raise.assume(z3.Not(NOMORE(p)))
            s_raise.ghost["subreads"] = list(s_raise.ghost.get("subreads", [])) + [(p, None)]
            yield s_raise, Raise(Exc(rd.SyntaxError, ("syntax error in the next form",), note="raised while reading the next form"))

        # forms returned by the sub-reader: instances of stand-in subclasses of the real form classes (so isinstance
        # tests see the real classes) whose metadata operations are opaque
        eng.closed_world_classes = True
        for fc in FORM_CLASSES:
            eng.class_id(fc)
            eng.method_models[(fc, "with_meta")] = Model("IWithMeta.with_meta", lambda e, s, a, k, fc=fc: iter([(s, e.alloc(s, fc))]))
            def meta_of(e, s, a, k):
                r = META_OF(e.lift(a[0], s))
                s.assume(z3.Or(V.is_none(r), z3.And(V.is_ref(r), V.Val.a(r) <= 0, V.cls_of(V.Val.a(r)) == e.class_id(FORM_CLASSES[2]))))
                yield s, SV(r)

            mm_ = Model("IMeta.meta (nil or a map)", meta_of)
            mm_.is_property = True
            eng.method_models[(fc, "meta")] = mm_
            eng.method_models[(fc, "cons")] = Model("IPersistentCollection.cons", lambda e, s, a, k, fc=fc: iter([(s, e.alloc(s, fc))]))
        from basilisp.lang import map as lmap_

        eng.models[id(lmap_.map)] = Model("lmap.map (some map)", lambda e, s, a, k: iter([(s, e.alloc(s, FORM_CLASSES[2]))]))
        eng.models[id(rd._read_next_consuming_comment)] = Model("_read_next_consuming_comment (by contract)", next_form)
        eng.models[id(rd._process_syntax_quoted_form)] = Model("_process_syntax_quoted_form", lambda e, s, a, k: iter([(s, SV(V.fresh_val("expanded")))]))
        lib.install_wrappers(eng)

    def reader_of(a):
        return fld(a.pre.st, a.ctx, "_reader")

    def prefix(name, ch, label=None, qual=None):
        c = pack.contract("basilisp.lang.reader:" + (qual or name))
        if label:
            c.label = label
        c.param("ctx", OBJ(RC))
        c.setup(psetup)
        c.requires("the stream reader is well-formed and stands on the prefix character",
                   lambda a: z3.And(WF(a.eng, a.pre.st, reader_of(a)), CH(pos(a.pre.st, reader_of(a))) == V.mk_str(ch)))
        c.raises(rd.SyntaxError)

        def owed(a):
            return [z3.Not(NOMORE(p)) for p, _ in a.post.st.ghost.get("subreads", [])]

        c.ensures("a normal return means every form owed after the prefix was really there (the text did not end first)", lambda a: z3.And(*owed(a)) if owed(a) else z3.BoolVal(True))
        c.ensures_on_raise("when the text ends where a form is still owed, the error is UnexpectedEOFError (the REPL's cue to keep reading)",
                           lambda a: z3.Implies(z3.Or(*[NOMORE(p) for p, _ in a.post.st.ghost.get("subreads", [])] or [z3.BoolVal(False)]),
                                                z3.BoolVal(a.exc.pycls is not None and issubclass(a.exc.pycls, rd.UnexpectedEOFError))))
        c.replay(lambda m, ctx, ob: PREFIX_REPLAY)
        c.replay_without_model = True
        return c

    def payload_is_form(a, idx=1):
        """the list returned is (head, form) and form is what the sub-read returned, which is not the eof value"""
        st = a.post.st
        items = V.seq_of(V.Val.a(fld(st, a.result, "_inner")))
        subs = st.ghost.get("subreads", [])
        return z3.And(z3.Length(items) == 2, items[idx] == subs[-1][1], items[idx] != fld(a.pre.st, a.ctx, "_eof")) if subs and subs[-1][1] is not None else z3.BoolVal(False)

    c = prefix("_read_quoted", "'")
    c.ensures("'form reads as (quote form), never with the eof value inside", payload_is_form)
    c = prefix("_read_deref", "@")
    c.ensures("@form reads as (deref form), never with the eof value inside", payload_is_form)
    c = prefix("_read_unquote", "~")
    c.ensures("~form / ~@form read as (unquote form) / (unquote-splicing form), never with the eof value inside", payload_is_form)
    prefix("_read_syntax_quoted", "`")
    prefix("_read_comment_macro", "_")
    prefix("_read_meta", "^", qual="_read_meta")

    # ---- _with_loc: the span a form is tagged with is the span its text occupies
    class ReadFn:
        """stand-in for the reader function being decorated: it consumes some text and returns a form"""

    def loc_setup(eng, st):
        psetup(eng, st)
        eng.class_id(ReadFn)
        from basilisp.lang import map as lmap_

        def read_fn_hook(e, s, f, args, kwargs, line):
            # the decorated reader function: reads on (the cursor never moves back over the start of its form), keeps the
            # stream reader well-formed, returns a form or raises a syntax error
            if not (isinstance(f, SV) and f.hint is ReadFn):
                return None

            def gen():
                ctx = e.lift(args[0], s)
                r = fld(s, ctx, "_reader")
                p = pos(s, r)
                s.ghost["loc_start"] = p
                s.ghost["n_read"] = z3.Int(V.fresh_name("n_read"))
                e.havoc_heap(s, ["_idx"])
                for nm in ("dqv", "dqn"):
                    if nm in s.aux:
                        s.aux[nm] = z3.Const(V.fresh_name(nm), s.aux[nm].sort())
                res = V.fresh_val("form")
                s.assume(WF(e, s, r), pos(s, r) >= p, e.external_ref_fact(s, res))
                s.assume(z3.Implies(V.is_ref(res), z3.Or(*[V.cls_of(V.Val.a(res)) == e.class_id(fc) for fc in FORM_CLASSES])))
                s.ghost["loc_end"] = pos(s, r)
                s.ghost["loc_form"] = res
                s_r = s.copy()
                yield s, SV(res)
                yield s_r, Raise(Exc(rd.SyntaxError, ("syntax error",), note="raised by the decorated reader function"))

            return gen()

        eng.opaque_hook = read_fn_hook

        def record_map(e, s, a, k):
            d = a[0]
            items = list(d.items) if hasattr(d, "items") and not isinstance(d, dict) else list(d.items())
            s.ghost["loc_meta_items"] = [(e.lift(kk, s), e.lift(vv, s)) for kk, vv in items]
            yield s, e.alloc(s, FORM_CLASSES[2])

        eng.models[id(lmap_.map)] = Model("lmap.map (records the location entries)", record_map)
        for fc in FORM_CLASSES:
            def with_meta(e, s, a, k, fc=fc):
                s.ghost["loc_with_meta_arg"] = e.lift(a[1], s)
                s.ghost["loc_with_meta_self"] = e.lift(a[0], s)
                yield s, e.alloc(s, fc)

            eng.method_models[(fc, "with_meta")] = Model("IWithMeta.with_meta (recorded)", with_meta)

            def cons(e, s, a, k, fc=fc):
                s.ghost["loc_cons_args"] = (e.lift(a[0], s), e.lift(a[1], s))
                yield s, e.alloc(s, fc)

            eng.method_models[(fc, "cons")] = Model("IPersistentMap.cons (recorded)", cons)

    c = pack.contract("contracts.drivers_c16:read_located")
    c.param("f", OBJ(ReadFn)).param("ctx", OBJ(RC))
    c.setup(loc_setup)
    c.requires("the stream reader is well-formed", lambda a: WF(a.eng, a.pre.st, reader_of(a)))
    c.raises(rd.SyntaxError)

    def loc_post(a):
        st = a.post.st
        g = st.ghost
        form = g.get("loc_form")
        if form is None:
            return z3.BoolVal(False)
        r = reader_of(a)
        p0, p1 = g["loc_start"], g["loc_end"]
        supports_meta = z3.And(V.is_ref(form), z3.Or(*[V.cls_of(V.Val.a(form)) == a.eng.class_id(fc) for fc in (FORM_CLASSES[0], FORM_CLASSES[2], FORM_CLASSES[3])]))
        if "loc_meta_items" not in g:
            # the form was returned as it is: only right for forms that cannot carry metadata
            return z3.And(z3.Not(supports_meta), a.result == form, p0 == pos(a.pre.st, r))
        items = dict((str(z3.simplify(kk)), vv) for kk, vv in g["loc_meta_items"])

        def entry(kwobj):
            return items.get(str(z3.simplify(a.eng.lift(kwobj, st))))

        want = {rd.READER_LINE_KW: V.mk_int(LINE(p0)), rd.READER_COL_KW: V.mk_int(COL(p0)), rd.READER_END_LINE_KW: V.mk_int(LINE(p1)), rd.READER_END_COL_KW: V.mk_int(COL(p1))}
        if len(items) != 4 or any(entry(kk) is None for kk in want):
            return z3.BoolVal(False)
        return z3.And(supports_meta, p0 == pos(a.pre.st, r), *[entry(kk) == vv for kk, vv in want.items()],
                      g.get("loc_with_meta_self", V.VNone) == form)

    c.ensures("a form that can carry metadata is tagged with exactly four location entries: line and column of the first character of its text, and line and "
              "column of the first character after it (both as the stream reader numbers them); any other form is returned untouched", loc_post)
    c.replay(lambda m, ctx, ob: LOC_REPLAY)
    c.replay_without_model = True

    # ---- forms introduced by the # dispatch character: their span starts at the #, not at the character after it
    VAL_AT = z3.Function("meta_val_at", V.Val, V.Val, V.Val)

    def macro_setup(eng, st):
        loc_setup(eng, st)
        FMap = FORM_CLASSES[2]

        def dispatched(e, s, a, k):
            # any reader function of the dispatch table: reads a form that starts at the current position
            ctx = e.lift(a[0], s)
            r = fld(s, ctx, "_reader")
            s.ghost["dispatch_at"] = pos(s, r)
            s.ghost["n_read"] = z3.Int(V.fresh_name("n_read"))
            e.havoc_heap(s, ["_idx"])
            for nm in ("dqv", "dqn"):
                if nm in s.aux:
                    s.aux[nm] = z3.Const(V.fresh_name(nm), s.aux[nm].sort())
            res = V.fresh_val("dispatched_form")
            s.assume(WF(e, s, r), e.external_ref_fact(s, res))
            s.assume(z3.Implies(V.is_ref(res), z3.Or(*[V.cls_of(V.Val.a(res)) == e.class_id(fc) for fc in FORM_CLASSES])))
            s.ghost["dispatched_form"] = res
            s_r = s.copy()
            yield s, SV(res)
            yield s_r, Raise(Exc(rd.SyntaxError, ("syntax error",), note="raised by the dispatched reader function"))

        for fn_ in set(rd._read_macro_dispatch.values()):
            eng.models[id(fn_)] = Model("a reader function of the # dispatch table (by contract)", dispatched)
            eng._keep.append(fn_)

        def val_at(e, s, a, k):
            r = VAL_AT(e.lift(a[0], s), e.lift(a[1], s))
            s.assume(z3.Or(V.is_none(r), V.is_int(r)))
            yield s, SV(r)

        eng.method_models[(FMap, "val_at")] = Model("meta.val_at", val_at)

        def assoc(e, s, a, k):
            s.ghost["loc_assoc_args"] = [e.lift(x, s) for x in a]
            yield s, e.alloc(s, FMap)

        eng.method_models[(FMap, "assoc")] = Model("meta.assoc (recorded)", assoc)

    c = pack.contract("basilisp.lang.reader:_read_reader_macro")
    c.param("ctx", OBJ(RC))
    c.setup(macro_setup)
    c.requires("the stream reader is well-formed and stands on a # that is followed by a character of the dispatch table",
               lambda a: z3.And(WF(a.eng, a.pre.st, reader_of(a)), CH(pos(a.pre.st, reader_of(a))) == V.mk_str("#"),
                                z3.Or(*[CH(pos(a.pre.st, reader_of(a)) + 1) == V.mk_str(ch) for ch in rd._read_macro_dispatch])))
    c.raises(rd.SyntaxError)

    def macro_post(a):
        st, g = a.post.st, a.post.st.ghost
        form = g.get("dispatched_form")
        if form is None:
            return z3.BoolVal(False)
        r = reader_of(a)
        p0 = pos(a.pre.st, r)
        located = z3.And(V.is_ref(form), z3.Or(*[V.cls_of(V.Val.a(form)) == a.eng.class_id(fc) for fc in (FORM_CLASSES[0], FORM_CLASSES[2], FORM_CLASSES[3])]),
                         z3.Not(V.is_none(META_OF(form))), z3.Not(V.is_none(VAL_AT(META_OF(form), a.eng.lift(rd.READER_COL_KW, st)))))
        cond = CH(p0 + 1) == V.mk_str("?")
        if "loc_assoc_args" not in g:
            return z3.And(z3.Or(cond, z3.Not(located)), a.result == form, g["dispatch_at"] == p0 + 1)
        args = g["loc_assoc_args"]
        if len(args) != 5:
            return z3.BoolVal(False)
        pairs = {str(z3.simplify(args[1])): args[2], str(z3.simplify(args[3])): args[4]}
        ln = pairs.get(str(z3.simplify(a.eng.lift(rd.READER_LINE_KW, st))))
        cl = pairs.get(str(z3.simplify(a.eng.lift(rd.READER_COL_KW, st))))
        if ln is None or cl is None:
            return z3.BoolVal(False)
        return z3.And(z3.Not(cond), located, args[0] == META_OF(form), ln == V.mk_int(LINE(p0)), cl == V.mk_int(COL(p0)), g.get("loc_with_meta_self", V.VNone) == form)

    c.ensures("a form read through the # dispatch table that carries a location starts, according to its tag, at the # itself (so that the tagged span "
              "re-reads as the same form); the branch selected by a reader conditional #?(...) keeps the span of its own text, and a form without "
              "location is returned as it is", macro_post)
    c.replay(lambda m, ctx, ob: LOC_REPLAY)
    c.replay_without_model = True

    # ---- #tag form: the token after the # need not be a symbol (#nil, #true and #false read as nil / true / false)
    from basilisp.lang import symbol as symmod_

    def tag_setup(eng, st):
        macro_setup(eng, st)
        eng.class_id(symmod_.Symbol)
        lid_ = eng.class_id(list)
        # (an unbounded deque used as a stack, modelled as a list like _syntax_quoted)
        eng.field_types[("ReaderContext", "_process_tagged_literals")] = lambda v: (z3.And(V.is_ref(v), V.cls_of(V.Val.a(v)) == lid_), list)
        eng.field_types[("Symbol", "_name")] = lambda v: V.is_str(v)
        eng.field_types[("Symbol", "_ns")] = lambda v: z3.Or(V.is_str(v), V.is_none(v))

        def read_sym(e, s, a, k):
            # by the contract of _read_sym (C09 pack): a symbol, or nil / true / false for those three names, or a syntax error
            ctx = e.lift(a[0], s)
            r = fld(s, ctx, "_reader")
            e.havoc_heap(s, ["_idx"])
            s.assume(WF(e, s, r))
            outs = [s.copy() for _ in range(4)]
            o = e.alloc(s, symmod_.Symbol)
            e.store_field(s, o.t, "_name", V.mk_str(z3.String(V.fresh_name("tag_name"))), None)
            e.store_field(s, o.t, "_ns", V.fresh_val("tag_ns"), None)
            e.store_field(s, o.t, "_meta", V.VNone, None)
            yield s, o
            yield outs[0], None
            yield outs[1], True
            yield outs[2], False
            yield outs[3], Raise(Exc(rd.SyntaxError, ("syntax error",), note="raised by _read_sym"))

        eng.models[id(rd._read_sym)] = Model("_read_sym (by contract: a symbol, nil / true / false, or a syntax error)", read_sym)

        def some_form(e, s, a, k):
            s2 = s.copy()
            res = V.fresh_val("form")
            s.assume(e.external_ref_fact(s, res))
            yield s, SV(res)
            yield s2, Raise(Exc(rd.SyntaxError, ("syntax error",), note="raised by the callee"))

        for fn_ in (rd._read_byte_str, rd._read_fstr, rd._read_owed_form, rd._resolve_tagged_literal):
            eng.models[id(fn_)] = Model(f"{fn_.__name__} (by contract: a form or a syntax error)", some_form)
        eng.models[id(rd.tagged_literal)] = Model("tagged_literal (a value)", lambda e, s, a, k: iter([(s, SV(V.fresh_val("tagged")))]))

    c = pack.contract("basilisp.lang.reader:_read_reader_macro")
    c.label = "a tag"
    c.param("ctx", OBJ(RC))
    c.setup(tag_setup)
    c.requires("the stream reader is well-formed and stands on a # that is followed by a character outside the dispatch table",
               lambda a: z3.And(WF(a.eng, a.pre.st, reader_of(a)), CH(pos(a.pre.st, reader_of(a))) == V.mk_str("#"),
                                *[CH(pos(a.pre.st, reader_of(a)) + 1) != V.mk_str(ch) for ch in rd._read_macro_dispatch]))
    c.raises(rd.SyntaxError)
    c.ensures("", lambda a: z3.BoolVal(True))

    def tag_raise(a):
        p0 = pos(a.pre.st, reader_of(a))
        is_eof = a.exc.pycls is not None and issubclass(a.exc.pycls, rd.UnexpectedEOFError)
        own = a.exc.note is None if hasattr(a.exc, "note") else True
        # the text ends right after the #: whatever is raised (by this function itself: nothing was called yet) says "more input needed"
        return z3.Implies(CH(p0 + 1) == V.mk_str(""), z3.BoolVal(is_eof))

    c.ensures_on_raise("a # at the very end of the text is a prefix whose form is still owed: UnexpectedEOFError, not a malformed form", tag_raise)
    c.replay(lambda m, ctx, ob: STRLIT_REPLAY)
    c.replay_without_model = True

    # ---- #? and #?@ with nothing after them: the conditional's opening parenthesis is still owed
    def rc_setup(eng, st):
        psetup(eng, st)
        eng.class_id(rd.ReaderConditional)

        def preserving(e, s, a, k):
            r = fld(s, e.lift(a[0], s), "_reader")
            s.ghost["n_read"] = z3.Int(V.fresh_name("n_read"))
            e.havoc_heap(s, ["_idx"])
            for nm in ("dqv", "dqn"):
                if nm in s.aux:
                    s.aux[nm] = z3.Const(V.fresh_name(nm), s.aux[nm].sort())
            s.assume(WF(e, s, r))
            s2, s3 = s.copy(), s.copy()
            rc = e.alloc(s, rd.ReaderConditional)
            e.store_field(s, rc.t, "_is_splicing", e.lift(a[1], s), None)
            yield s, rc
            s2.ghost["inner_exc"] = "eof"
            yield s2, Raise(Exc(rd.UnexpectedEOFError, ("Unexpected EOF in reader conditional",), note="the text ended inside the conditional"))
            s3.ghost["inner_exc"] = "syntax"
            yield s3, Raise(Exc(rd.SyntaxError, ("malformed element",), note="malformed element"))

        eng.models[id(rd._read_reader_conditional_preserving)] = Model("_read_reader_conditional_preserving (a conditional, or a syntax error of the right kind)", preserving)

        def select(e, s, a, k):
            s2 = s.copy()
            r_ = V.fresh_val("selected")
            s.assume(e.external_ref_fact(s, r_))
            yield s, SV(r_)
            s2.ghost["inner_exc"] = "syntax"
            yield s2, Raise(Exc(rd.SyntaxError, ("unresolvable tagged literal",), note="raised while selecting the branch"))

        eng.models[id(rd._select_reader_conditional_branch)] = Model("_select_reader_conditional_branch (some form, or a syntax error)", select)
        eng.field_types[("ReaderConditional", "_is_splicing")] = lambda v: V.is_bool(v)
        eng.field_types[("ReaderContext", "_process_reader_cond")] = lambda v: V.is_bool(v)

    c = pack.contract("basilisp.lang.reader:_read_reader_conditional")
    c.param("ctx", OBJ(RC))
    c.setup(rc_setup)
    c.requires("the stream reader is well-formed and stands on the ? of #?", lambda a: z3.And(WF(a.eng, a.pre.st, reader_of(a)), CH(pos(a.pre.st, reader_of(a))) == V.mk_str("?")))
    c.raises(rd.SyntaxError)

    def rc_raise(a):
        g = a.post.st.ghost
        is_eof = a.exc.pycls is not None and issubclass(a.exc.pycls, rd.UnexpectedEOFError)
        if g.get("inner_exc") == "eof":
            return z3.BoolVal(is_eof)
        if g.get("inner_exc") == "syntax":
            return z3.BoolVal(True)
        p0 = pos(a.pre.st, reader_of(a))
        ended = z3.Or(CH(p0 + 1) == V.mk_str(""), z3.And(CH(p0 + 1) == V.mk_str("@"), CH(p0 + 2) == V.mk_str("")))
        return z3.BoolVal(is_eof) == ended

    c.ensures_on_raise("#? or #?@ with the text ending right after it still owes its parenthesised branches: UnexpectedEOFError; a wrong character there is a malformed form; "
                       "errors from inside the conditional keep their kind", rc_raise)
    c.replay(lambda m, ctx, ob: STRLIT_REPLAY)
    c.replay_without_model = True

    # ---- #?( ... ): the wrapper that shortens tracebacks must not turn "more input needed" into "malformed"
    def cond_setup(eng, st):
        psetup(eng, st)

        def cond(e, s, a, k):
            s1, s2, s3 = s, s.copy(), s.copy()
            s2.ghost["inner_exc"] = "eof"
            s3.ghost["inner_exc"] = "syntax"
            yield s1, SV(V.fresh_val("conditional"))
            yield s2, Raise(Exc(rd.UnexpectedEOFError, ("Unexpected EOF in reader conditional",), note="the text ended inside the conditional"))
            yield s3, Raise(Exc(rd.SyntaxError, ("malformed reader conditional",), note="malformed conditional"))

        eng.models[id(rd._read_reader_conditional)] = Model("_read_reader_conditional (returns, or raises either kind of syntax error)", cond)

    c = pack.contract("basilisp.lang.reader:_read_reader_conditional_macro")
    c.param("ctx", OBJ(RC))
    c.setup(cond_setup)
    c.requires("the stream reader is well-formed", lambda a: WF(a.eng, a.pre.st, reader_of(a)))
    c.raises(rd.SyntaxError)
    c.ensures_on_raise("an unexpected end of input inside a reader conditional is still reported as UnexpectedEOFError (the REPL's cue), not as a malformed form",
                       lambda a: z3.BoolVal(a.post.st.ghost.get("inner_exc") != "eof" or (a.exc.pycls is not None and issubclass(a.exc.pycls, rd.UnexpectedEOFError))))
    c.replay(lambda m, ctx, ob: PREFIX_REPLAY)
    c.replay_without_model = True

    # ---- whitespace: skipped up to, and never beyond, the first character that is not whitespace (or a comma)
    import sys as _sys

    WS_CHARS = [chr(cp) for cp in range(_sys.maxunicode + 1) if chr(cp).isspace()] + [","]

    def is_ws(c):
        return z3.Or(*[c == V.mk_str(w) for w in WS_CHARS])

    c = pack.contract("basilisp.lang.reader:_consume_whitespace", modular=True)
    c.param("ctx", OBJ(RC))
    c.setup(psetup)
    c.requires("the stream reader is well-formed", lambda a: WF(a.eng, a.pre.st, reader_of(a)))
    c.raises()
    c.modifies_ = ["_idx"]
    c.modifies_aux = ("dqv", "dqn")
    c.modifies_ghost = ("n_read",)

    def ws_inv(ctx):
        st, pre = ctx.st, ctx.entry.st
        r = fld(pre, ctx["ctx"], "_reader")
        first, p = pos(pre, r), pos(st, r)
        return [
            ("the stream reader stays well-formed and is still the context's reader", z3.And(WF(ctx.eng, st, r), fld(st, ctx["ctx"], "_reader") == r, ctx["reader"] == r)),
            ("char is the character under the cursor, which has not moved back", z3.And(p >= first, ctx["char"] == CH(p))),
            ("every character skipped so far is whitespace",
             forall_k(z3.Implies(z3.And(k >= first, k < p), is_ws(CH(k))), CH(k)) if ctx.assuming else z3.Implies(z3.And(ANYIDX >= first, ANYIDX < p), is_ws(CH(ANYIDX)))),
        ]

    c.loop(0, invariant=ws_inv, frame=["_idx"], lists=False, ghost=("n_read",), aux=("dqv", "dqn"))

    def ws_post(a):
        pre, post = a.pre.st, a.post.st
        r = reader_of(a)
        p0, p = pos(pre, r), pos(post, r)
        cl = [WF(a.eng, post, r), fld(post, a.ctx, "_reader") == r, p >= p0, a.result == CH(p), z3.Not(is_ws(CH(p))),
              fld(post, a.ctx, "_eof") == fld(pre, a.ctx, "_eof")]
        if not a.assuming:
            cl.append(z3.Implies(z3.And(ANYIDX >= p0, ANYIDX < p), is_ws(CH(ANYIDX))))
        return z3.And(*cl)

    c.ensures("the cursor stops on the first character from the old position on that is not whitespace (comma included), which is returned; "
              "nothing but whitespace was skipped; the reader stays well-formed", ws_post)
    c.replay(lambda m, ctx, ob: PREFIX_REPLAY)
    c.replay_without_model = True

    # ---- line comments: a comment ends at the first line terminator - LF or CR, whatever the line-ending style - or
    # at the end of the text; it must not swallow anything after that
    def is_nl(c):
        return z3.Or(c == V.mk_str("\n"), c == V.mk_str("\r"))

    c = pack.contract("basilisp.lang.reader:_read_comment")
    c.param("ctx", OBJ(RC))
    c.setup(psetup)
    c.requires("the stream reader is well-formed and stands on the comment character",
               lambda a: z3.And(WF(a.eng, a.pre.st, reader_of(a)), z3.Or(CH(pos(a.pre.st, reader_of(a))) == V.mk_str(";"), CH(pos(a.pre.st, reader_of(a))) == V.mk_str("!"))))
    c.raises()

    def comment_inv(ctx):
        st, pre = ctx.st, ctx.entry.st
        r = fld(pre, ctx["ctx"], "_reader")
        # (the loop is entered right after the comment character was consumed: `pre` is the state at loop entry)
        first, p = pos(pre, r), pos(st, r)
        return [
            ("the stream reader stays well-formed and is still the context's reader", z3.And(WF(ctx.eng, st, r), fld(st, ctx["ctx"], "_reader") == r, ctx["reader"] == r)),
            ("the cursor has not moved back", p >= first),
            ("no character of the comment so far ends a line or the text",
             forall_k(z3.Implies(z3.And(k >= first, k < p), z3.And(z3.Not(is_nl(CH(k))), CH(k) != V.mk_str(""))), CH(k))),
        ]

    c.loop(0, invariant=comment_inv, frame=["_idx"], lists=False, ghost=("n_read",), aux=("dqv", "dqn"))
    c.frame_aux = ("dqv", "dqn")

    def comment_post(a):
        pre, post = a.pre.st, a.post.st
        r = reader_of(a)
        p0, p = pos(pre, r), pos(post, r)
        body_clean = z3.Implies(z3.And(ANYIDX > p0, ANYIDX < p - 1), z3.And(z3.Not(is_nl(CH(ANYIDX))), CH(ANYIDX) != V.mk_str("")))
        ended_by_newline = z3.And(a.result == a.eng.lift(rd.COMMENT, pre), p >= p0 + 2, is_nl(CH(p - 1)), body_clean)
        ended_by_eof = z3.And(a.result == fld(pre, a.ctx, "_eof"), CH(p) == V.mk_str(""), body_clean, z3.Not(is_nl(CH(p - 1))) if True else True)
        return z3.Or(ended_by_newline, z3.And(ended_by_eof, z3.Or(p == p0 + 1, z3.Not(is_nl(CH(p - 1))))))

    c.ensures("the comment ends right after the first LF or CR following it (either one: a lone CR ends the line too), or at the end of the text; nothing after that is consumed", comment_post)
    c.replay(lambda m, ctx, ob: COMMENT_REPLAY)
    c.replay_without_model = True


    # ---- collections: read elements up to the closing delimiter; the text ending first is an *incomplete* form
    class CollFn:
        """stand-in for the constructor handed to _read_coll (list / vector / the duplicate-checking set constructor)"""

    def coll_setup(eng, st):
        psetup(eng, st)
        eng.class_id(CollFn)
        eng.class_id(rd.ReaderConditional)
        eng.class_id(rd.Comment)
        eng.field_types[("ReaderContext", "_process_reader_cond")] = lambda v: V.is_bool(v)
        eng.field_types[("ReaderConditional", "_is_splicing")] = lambda v: V.is_bool(v)
        eng.opaque_havoc = "none"

        # the text is finite: read(1) returns "" from some index END on, and only from there on (trusted, as in setup)
        st.assume(END >= 0, forall_k((CH(k) == V.mk_str("")) == (k >= END), CH(k)))

        def read_next(e, s, args, k):
            # by contract (induction over nesting): reads one form starting at the cursor - at least one character -
            # keeps the reader well-formed, returns a form / comment marker, or raises: UnexpectedEOFError when the text
            # ended inside that form, another SyntaxError when it is malformed
            ctx = e.lift(args[0], s)
            r = fld(s, ctx, "_reader")
            p = pos(s, r)
            s_end = s.copy()
            s_end.assume(CH(p) == V.mk_str(""))
            if e.feasible(s_end):  # at the end of the text _read_next consumes nothing and hands back the eof value
                yield s_end, SV(fld(s_end, ctx, "_eof"))
            s.assume(CH(p) != V.mk_str(""))
            s.ghost["n_read"] = z3.Int(V.fresh_name("n_read"))
            e.havoc_heap(s, ["_idx"])
            for nm in ("dqv", "dqn"):
                if nm in s.aux:
                    s.aux[nm] = z3.Const(V.fresh_name(nm), s.aux[nm].sort())
            s.assume(WF(e, s, r), pos(s, r) > p)
            s2, s3 = s.copy(), s.copy()
            res = V.fresh_val("element")
            s.assume(e.external_ref_fact(s, res))
            # (_read_reader_conditional: when conditionals are to be processed, only a *splicing* one is handed back as such)
            rcid = e.class_id(rd.ReaderConditional)
            s.assume(z3.Implies(z3.And(V.is_ref(res), V.cls_of(V.Val.a(res)) == rcid, fld(s, ctx, "_process_reader_cond") == V.mk_bool(True)),
                                fld(s, res, "_is_splicing") == V.mk_bool(True)))
            s.ghost["elements"] = list(s.ghost.get("elements", [])) + [res]
            yield s, SV(res)
            s2.ghost["inner_exc"] = "eof"
            yield s2, Raise(Exc(rd.UnexpectedEOFError, ("Unexpected EOF in a nested form",), note="the text ended inside an element"))
            s3.ghost["inner_exc"] = "syntax"
            yield s3, Raise(Exc(rd.SyntaxError, ("malformed element",), note="malformed element"))

        eng.models[id(rd._read_next)] = Model("_read_next (by contract, induction over nesting)", read_next)

        def select_branch(e, s, a, k):
            s2 = s.copy()
            r = V.fresh_val("selected")
            s.assume(e.external_ref_fact(s, r))
            yield s, SV(r)
            s2.ghost["inner_exc"] = "syntax"
            yield s2, Raise(Exc(rd.SyntaxError, ("unresolvable tagged literal",), note="raised while selecting the branch"))

        eng.models[id(rd._select_reader_conditional_branch)] = Model("_select_reader_conditional_branch (some form, or a syntax error)", select_branch)

        def f_hook(e, s, f, args, kwargs, line):
            if not (isinstance(f, SV) and f.hint is CollFn):
                return None

            def gen():
                s2 = s.copy()
                res = V.fresh_val("collection")
                s.assume(e.external_ref_fact(s, res))
                s.ghost["built"] = list(s.ghost.get("built", [])) + [(e.lift(args[0], s), res)]
                yield s, SV(res)
                s2.ghost["inner_exc"] = "syntax"
                yield s2, Raise(Exc(rd.SyntaxError, ("duplicated values",), note="raised by the collection constructor"))

            return gen()

        eng.opaque_hook = f_hook

    c = pack.contract("basilisp.lang.reader:_read_coll")
    c.param("ctx", OBJ(RC)).param("f", OBJ(CollFn)).param("end_char", STR).param("coll_name", STR)
    c.setup(coll_setup)
    c.requires("the stream reader is well-formed; the closing delimiter is one character, not whitespace",
               lambda a: z3.And(WF(a.eng, a.pre.st, reader_of(a)), ONECHAR(a.end_char), a.end_char != V.mk_str(""), z3.Not(is_ws(a.end_char))))
    c.raises(rd.SyntaxError)

    def coll_inv(ctx):
        st, pre = ctx.st, ctx.entry.st
        r = fld(pre, ctx["ctx"], "_reader")
        return [
            ("the stream reader stays well-formed and is still the context's reader", z3.And(WF(ctx.eng, st, r), fld(st, ctx["ctx"], "_reader") == r, ctx["reader"] == r)),
            ("the cursor has not moved back", pos(st, r) >= pos(pre, r)),
            ("the eof value is untouched", fld(st, ctx["ctx"], "_eof") == fld(pre, ctx["ctx"], "_eof")),
        ]

    def coll_variant(ctx):
        r = fld(ctx.entry.st, ctx["ctx"], "_reader")
        return END - pos(ctx.st, r)

    c.loop(0, invariant=coll_inv, frame=["_idx"], lists=True, ghost=("n_read",), aux=("dqv", "dqn"), decreases=coll_variant)

    def coll_post(a):
        pre, post = a.pre.st, a.post.st
        r = reader_of(a)
        built = post.ghost.get("built", [])
        if len(built) != 1:
            return z3.BoolVal(False)
        lst, res = built[0]
        p = pos(post, r)
        return z3.And(WF(a.eng, post, r), a.result == res, p > pos(pre, r), CH(p - 1) == a.end_char, V.is_ref(lst), V.Val.a(lst) > 0)

    c.ensures("a collection is returned only once its closing delimiter has been read (the cursor stands right after it): it is what the constructor makes of the "
              "list of elements collected by this call, the reader stays well-formed", coll_post)

    def coll_raise(a):
        post = a.post.st
        r = reader_of(a)
        own = post.ghost.get("inner_exc") is None
        is_eof = a.exc.pycls is not None and issubclass(a.exc.pycls, rd.UnexpectedEOFError)
        if post.ghost.get("inner_exc") == "eof":
            return z3.BoolVal(is_eof)
        if not own:
            return z3.BoolVal(True)
        # the reader's own error: the text ended before the closing delimiter
        return z3.And(CH(pos(post, r)) == V.mk_str(""), z3.BoolVal(is_eof)) if is_eof else z3.BoolVal(post.ghost.get("own_syntax_ok", False) or _is_splice_error(a))

    def _is_splice_error(a):
        msg = a.exc.args[0] if getattr(a.exc, "args", None) else None
        return isinstance(msg, str) and msg.startswith("Expecting Vector for splicing") or (not isinstance(msg, str) and msg is not None and "splicing" in str(msg))

    c.ensures_on_raise("when the text ends before the closing delimiter - here or inside an element - the error is UnexpectedEOFError (incomplete, the REPL's cue), "
                       "never a plain syntax error; the only plain syntax error of its own is the splicing check", coll_raise)
    c.replay(lambda m, ctx, ob: COLL_REPLAY)
    c.replay_without_model = True


    # ---- _read_next: which reader a character selects; the end of the text; a stray closing delimiter
    def next_setup(eng, st):
        psetup(eng, st)

        # what each reader requires of the character under the cursor (its contract above, or the assert it starts with)
        stands_on = {"_read_list": "(", "_read_vector": "[", "_read_map": "{", "_read_str": '"', "_read_quoted": "'", "_read_character": "\\",
                     "_read_reader_macro": "#", "_read_meta": "^", "_read_comment": ";", "_read_syntax_quoted": "`", "_read_unquote": "~", "_read_deref": "@"}

        def by_contract(fn):
            def model(e, s, args, k):
                # any of the form readers (by contract): returns something or raises a syntax error
                want = stands_on.get(fn.__name__)
                if want is not None:
                    r = fld(s, e.lift(args[0], s), "_reader")
                    e.oblige(s, f"{fn.__name__} is entered with the cursor on its own opening character {want!r}", CH(pos(s, r)) == V.mk_str(want), "pre", 0)
                s.ghost["reader_called"] = list(s.ghost.get("reader_called", [])) + [fn]
                s2 = s.copy()
                res = V.fresh_val("form")
                s.assume(e.external_ref_fact(s, res))
                yield s, SV(res)
                yield s2, Raise(Exc(rd.SyntaxError, ("syntax error in the form",), note="raised by the selected reader"))

            return Model(f"{fn.__name__} (by contract)", model)

        for fn in [f for f in rd._read_dispatch.values() if f is not None and f.__name__ != "<lambda>"] + [rd._read_num, rd._read_next_consuming_whitespace, rd._read_kw, rd._read_sym]:
            eng.models[id(fn)] = by_contract(fn)

    c = pack.contract("basilisp.lang.reader:_read_next")
    c.param("ctx", OBJ(RC))
    c.setup(next_setup)
    c.requires("the stream reader is well-formed", lambda a: WF(a.eng, a.pre.st, reader_of(a)))
    c.raises(rd.SyntaxError)

    def selected(a):
        called = a.post.st.ghost.get("reader_called", [])
        return called

    def next_post(a):
        pre, post = a.pre.st, a.post.st
        ch = CH(pos(pre, reader_of(a)))
        called = selected(a)
        if len(called) > 1:
            return z3.BoolVal(False)
        if not called:
            return z3.And(ch == V.mk_str(""), a.result == fld(pre, a.ctx, "_eof"), pos(post, reader_of(a)) == pos(pre, reader_of(a)))
        fn = called[0]
        table = [(k, f) for k, f in rd._read_dispatch.items() if f is not None and f.__name__ != "<lambda>"]
        keys = [k for k, f in table if f is fn]
        right = [z3.Or(*[ch == V.mk_str(k) for k in keys])] if keys else []  # a reader of the table runs only for its own character(s)
        return z3.And(ch != V.mk_str(""), *right)

    # (a stray closing delimiter is handed to _read_sym, which rejects the empty token: still a plain syntax error)
    c.ensures("at the end of the text the eof value is returned and nothing is consumed; otherwise exactly one reader is run, and a reader of the dispatch table only "
              "for its own character", next_post)

    def next_raise(a):
        pre = a.pre.st
        ch = CH(pos(pre, reader_of(a)))
        if selected(a):
            return z3.BoolVal(True)
        # the reader's own error: a character that starts no form
        return z3.And(ch != V.mk_str(""), z3.BoolVal(not (a.exc.pycls is not None and issubclass(a.exc.pycls, rd.UnexpectedEOFError))))

    c.ensures_on_raise("the reader's own error (a character that starts no form) is a plain syntax error - malformed, not incomplete - and is never raised at the end of the text", next_raise)
    c.replay(lambda m, ctx, ob: COLL_REPLAY)
    c.replay_without_model = True


    # ---- _postwalk's rebuilders (#(...) bodies and the selected branch of #?(...) are rebuilt form by form): the copy
    # of a collection carries the original's metadata - reader locations included - whatever the collection type
    from basilisp.lang import list as llist_, map as lmap_, set as lset_, vector as vec_
    import itertools as _it

    class WalkFn:
        """stand-in for the functions handed to _walk (inner_f, outer_f): opaque callables"""

    def walk_setup(eng, st):
        psetup(eng, st)
        eng.class_id(WalkFn)
        eng.opaque_havoc = "none"
        classes = (llist_.PersistentList, vec_.PersistentVector, lmap_.PersistentMap, lset_.PersistentSet)
        for cls in classes:
            eng.class_id(cls)

            def with_meta(e, s, a, k, cls=cls):
                r = e.alloc(s, cls)
                e.store_field(s, r.t, "_meta", e.lift(a[1], s), None)
                yield s, r

            eng.method_models[(cls, "with_meta")] = Model(f"{cls.__name__}.with_meta (a copy carrying exactly the given metadata; C04)", with_meta)

        def fresh(cls):
            def model(e, s, a, k):
                r = e.alloc(s, cls)
                e.store_field(s, r.t, "_meta", V.VNone, None)
                yield s, r

            return Model(f"a new {cls.__name__} of the mapped elements (no metadata)", model)

        eng.models[id(llist_.list)] = fresh(llist_.PersistentList)
        eng.models[id(vec_.vector)] = fresh(vec_.PersistentVector)
        eng.models[id(lmap_.hash_map)] = fresh(lmap_.PersistentMap)
        eng.models[id(lset_.set)] = fresh(lset_.PersistentSet)
        import builtins as _b

        eng.models[id(_b.map)] = Model("map(inner_f, form) (the walked elements; opaque)", lambda e, s, a, k: iter([(s, SV(V.fresh_val("walked_elements")))]))
        eng.method_models[(_it.chain, "from_iterable")] = Model("chain.from_iterable (opaque)", lambda e, s, a, k: iter([(s, (SV(V.fresh_val("flattened_entries")),))]))
        eng.method_models[(lmap_.PersistentMap, "seq")] = Model("PersistentMap.seq (opaque)", lambda e, s, a, k: iter([(s, SV(V.fresh_val("entries")))]))

        def f_hook(e, s, f, args, kwargs, line):
            if not (isinstance(f, SV) and f.hint is WalkFn):
                return None

            def gen():
                res = V.fresh_val("outer_result")
                s.assume(e.external_ref_fact(s, res))
                s.ghost["outer_calls"] = list(s.ghost.get("outer_calls", [])) + [([e.lift(x, s) for x in args], res)]
                yield s, SV(res)

            return gen()

        eng.opaque_hook = f_hook

    for fname, cls in (("_walk_ipersistentlist", llist_.PersistentList), ("_walk_ipersistentvector", vec_.PersistentVector),
                       ("_walk_ipersistentmap", lmap_.PersistentMap), ("_walk_ipersistentset", lset_.PersistentSet)):
        c = pack.contract("basilisp.lang.reader:" + fname)
        c.param("form", OBJ(cls)).param("inner_f", OBJ(WalkFn)).param("outer_f", OBJ(WalkFn))
        c.setup(walk_setup)
        c.raises()

        def walk_post(a, cls=cls):
            calls = a.post.st.ghost.get("outer_calls", [])
            if len(calls) != 1 or len(calls[0][0]) != 1:
                return z3.BoolVal(False)
            arg, res = calls[0][0][0], calls[0][1]
            return z3.And(V.is_ref(arg), V.cls_of(V.Val.a(arg)) == a.eng.class_id(cls), fld(a.post.st, arg, "_meta") == fld(a.pre.st, a.form, "_meta"), a.result == res)

        c.ensures("the rebuilt collection is of the same type and carries exactly the original's metadata (reader location included; none when the original has none), "
                  "and what the outer function makes of it is returned", walk_post)
        c.replay(lambda m, ctx, ob: WALK_REPLAY)
        c.replay_without_model = True


    # ---- string literals: only syntax errors, and "the text ended inside the literal" is the incomplete kind
    HEXVAL = z3.Function("hex_value", z3.StringSort(), z3.IntSort())
    CHR = z3.Function("chr_of", z3.IntSort(), z3.StringSort())
    JOINED = z3.Function("joined", V.ValSeq, z3.StringSort())

    def str_models(eng):
        import builtins as _b

        def int16(e, s, a, k):
            if not (len(a) == 1 and k.get("base") == 16):
                raise Unsupported("int() other than int(<digits>, base=16)")
            n = HEXVAL(V.Val.s(e.lift(a[0], s)))
            s.assume(n >= 0)  # (the argument consists of hexadecimal digits only: the loop appends nothing else)
            yield s, SV(V.mk_int(n))

        eng.models[id(_b.int)] = Model("int(<hex digits>, base=16)", int16)

        def chr_(e, s, a, k):
            n = V.Val.i(e.lift(a[0], s))
            ok, big, huge = s, s.copy(), s.copy()
            ok.assume(n >= 0, n <= 0x10FFFF)
            if e.feasible(ok):
                yield ok, SV(V.mk_str(CHR(n)))
            big.assume(n > 0x10FFFF, n <= 0x7FFFFFFF)
            if e.feasible(big):
                yield big, Raise(Exc(ValueError, ("chr() arg not in range(0x110000)",)))
            huge.assume(n > 0x7FFFFFFF)
            if e.feasible(huge):
                yield huge, Raise(Exc(OverflowError, ("Python int too large to convert to C int",)))

        eng.models[id(_b.chr)] = Model("chr (ValueError / OverflowError beyond U+10FFFF)", chr_)

        def join(e, s, a, k):
            lst_ = a[1]
            if not (isinstance(lst_, SV) and lst_.hint is list):
                raise Unsupported("str.join of something other than a list")
            j_ = JOINED(z3.Select(s.lists, V.Val.a(lst_.t)))
            s.ghost["joined"] = j_
            yield s, SV(V.mk_str(j_))

        eng.method_models[(str, "join")] = Model("''.join(list) (opaque)", join)
        eng.method_models[(str, "__len__")] = Model("len(str)", lambda e, s, a, k: iter([(s, SV(V.mk_int(z3.Length(V.Val.s(a[0].t)))))]))

    def uni_setup(eng, st):
        psetup(eng, st)
        str_models(eng)

        def pushback_ok(e, s, a, k):
            # assumed here: the pushback window has room for the one character this function pushes back (it has at least
            # three entries - the default is five - and nothing is pushed back when a string literal is entered); the
            # general contract of pushback, which may refuse, is proved above
            r = e.lift(a[0], s)
            p = pos(s, r)
            e.havoc_heap(s, ["_idx"])
            s.assume(WF(e, s, r), pos(s, r) == p - 1)
            yield s, None

        eng.method_models[(SR, "pushback")] = Model("StreamReader.pushback (room for one character assumed)", pushback_ok)

    c = pack.contract("basilisp.lang.reader:_read_unicode_escape_seq")
    c.param("ctx", OBJ(RC))
    c.setup(uni_setup)
    c.requires("the stream reader is well-formed and has read at least one character before the escape letter",
               lambda a: z3.And(WF(a.eng, a.pre.st, reader_of(a)), pos(a.pre.st, reader_of(a)) >= 1))
    c.raises(rd.SyntaxError)

    def uni_inv(ctx):
        st, pre = ctx.st, ctx.entry.st
        r = fld(pre, ctx["ctx"], "_reader")
        return [
            ("the stream reader stays well-formed and is still the context's reader", z3.And(WF(ctx.eng, st, r), fld(st, ctx["ctx"], "_reader") == r, ctx["reader"] == r)),
            ("the cursor has not moved back", pos(st, r) >= pos(pre, r)),
        ]

    c.loop(0, invariant=uni_inv, frame=["_idx"], lists=True, ghost=("n_read",), aux=("dqv", "dqn"))
    def uni_raise(a):
        j_ = a.post.st.ghost.get("joined")
        if j_ is None:
            return z3.BoolVal(False)
        short = z3.And(z3.Length(j_) != 4, z3.Length(j_) != 8)
        return z3.Implies(z3.And(short, CH(pos(a.post.st, reader_of(a)) + 1) == V.mk_str("")), z3.BoolVal(a.exc.pycls is not None and issubclass(a.exc.pycls, rd.UnexpectedEOFError)))

    c.ensures_on_raise("when the escape's digits are cut short by the end of the text (fewer than 4, or 5 to 7, and then nothing) the error is UnexpectedEOFError "
                       "(incomplete), not a plain syntax error", uni_raise)
    c.replay(lambda m, ctx, ob: STRLIT_REPLAY)
    c.replay_without_model = True

    def strlit_setup(eng, st):
        psetup(eng, st)
        str_models(eng)

        def uni(e, s, args, k):
            # by contract (above): consumes at least the escape letter, keeps the reader well-formed, returns a character
            # or raises a syntax error (UnexpectedEOFError when the text ended inside the escape)
            ctx_ = e.lift(args[0], s)
            r = fld(s, ctx_, "_reader")
            p = pos(s, r)
            s.ghost["n_read"] = z3.Int(V.fresh_name("n_read"))
            e.havoc_heap(s, ["_idx"])
            for nm in ("dqv", "dqn"):
                if nm in s.aux:
                    s.aux[nm] = z3.Const(V.fresh_name(nm), s.aux[nm].sort())
            s.assume(WF(e, s, r), pos(s, r) >= p)
            s2, s3 = s.copy(), s.copy()
            yield s, SV(V.mk_str(z3.String(V.fresh_name("unichar"))))
            s2.ghost["inner_exc"] = "eof"
            yield s2, Raise(Exc(rd.UnexpectedEOFError, ("Unexpected EOF in unicode escape",), note="the text ended inside the escape"))
            s3.ghost["inner_exc"] = "syntax"
            yield s3, Raise(Exc(rd.SyntaxError, ("malformed unicode escape",), note="malformed escape"))

        eng.models[id(rd._read_unicode_escape_seq)] = Model("_read_unicode_escape_seq (by contract)", uni)

    c = pack.contract("basilisp.lang.reader:_read_str")
    c.label = "end of text inside the literal"
    c.param("ctx", OBJ(RC)).param("raw_string", T(lambda v: V.is_bool(v), None, "bool"))
    c.setup(strlit_setup)
    c.requires("the stream reader is well-formed", lambda a: WF(a.eng, a.pre.st, reader_of(a)))
    c.raises(rd.SyntaxError)

    def str_inv(ctx):
        st, pre = ctx.st, ctx.entry.st
        r = fld(pre, ctx["ctx"], "_reader")
        return [
            ("the stream reader stays well-formed and is still the context's reader", z3.And(WF(ctx.eng, st, r), fld(st, ctx["ctx"], "_reader") == r, ctx["reader"] == r)),
            ("the cursor has not moved back", pos(st, r) >= pos(pre, r)),
        ]

    c.loop(0, invariant=str_inv, frame=["_idx"], lists=True, ghost=("n_read",), aux=("dqv", "dqn"))

    def str_raise(a):
        post = a.post.st
        is_eof = a.exc.pycls is not None and issubclass(a.exc.pycls, rd.UnexpectedEOFError)
        if post.ghost.get("inner_exc") == "eof":
            return z3.BoolVal(is_eof)
        if post.ghost.get("inner_exc") == "syntax":
            return z3.BoolVal(True)
        return z3.Implies(CH(pos(post, reader_of(a))) == V.mk_str(""), z3.BoolVal(is_eof))

    c.ensures_on_raise("when the text ends inside the literal - also right after a backslash, or inside a unicode escape - the error is UnexpectedEOFError "
                       "(incomplete: the REPL keeps reading), never a plain syntax error", str_raise)
    c.replay(lambda m, ctx, ob: STRLIT_REPLAY)
    c.replay_without_model = True


    # ---- #:ns{...}: the map must follow; anything else is a syntax error (the incomplete kind at the end of the text)
    def nsmap_setup(eng, st):
        psetup(eng, st)

        def namespaced(e, s, a, k):
            # _read_namespaced (C03 pack): reads the token, at least... possibly nothing; keeps the reader well-formed
            ctx_ = e.lift(a[0], s)
            r = fld(s, ctx_, "_reader")
            p = pos(s, r)
            s.ghost["n_read"] = z3.Int(V.fresh_name("n_read"))
            e.havoc_heap(s, ["_idx"])
            for nm in ("dqv", "dqn"):
                if nm in s.aux:
                    s.aux[nm] = z3.Const(V.fresh_name(nm), s.aux[nm].sort())
            s.assume(WF(e, s, r), pos(s, r) >= p)
            s2 = s.copy()
            ns_t, name_t = V.fresh_val("tok_ns"), V.fresh_val("tok_name")
            s.assume(z3.Or(V.is_none(ns_t), V.is_str(ns_t)), V.is_str(name_t))
            yield s, (SV(ns_t), SV(name_t))
            s2.ghost["inner_exc"] = "syntax"
            yield s2, Raise(Exc(rd.SyntaxError, ("Invalid symbol or keyword",), note="raised by the tokenizer"))

        eng.models[id(rd._read_namespaced)] = Model("_read_namespaced (by contract)", namespaced)

        def read_map(e, s, a, k):
            ctx_ = e.lift(a[0], s)
            r = fld(s, ctx_, "_reader")
            e.oblige(s, "_read_map is entered with the cursor on its own opening character '{'", CH(pos(s, r)) == V.mk_str("{"), "pre", 0)
            s2, s3 = s.copy(), s.copy()
            res = V.fresh_val("map")
            s.assume(e.external_ref_fact(s, res))
            yield s, SV(res)
            s2.ghost["inner_exc"] = "eof"
            yield s2, Raise(Exc(rd.UnexpectedEOFError, ("Unexpected EOF in map",), note="the text ended inside the map"))
            s3.ghost["inner_exc"] = "syntax"
            yield s3, Raise(Exc(rd.SyntaxError, ("malformed map",), note="malformed map"))

        eng.models[id(rd._read_map)] = Model("_read_map (by contract)", read_map)
        eng.class_id(NsStandin)
        eng.field_types[("NsStandin", "name")] = lambda v: V.is_str(v)
        eng.models[id(rt_.get_current_ns)] = Model("get_current_ns (some namespace with a name)", lambda e, s, a, k: iter([(s, e.alloc(s, NsStandin))]))

    from basilisp.lang import runtime as rt_

    class NsStandin:
        """stand-in for the current namespace: only its name is read"""

        __slots__ = ("name",)

    c = pack.contract("basilisp.lang.reader:_read_namespaced_map")
    c.param("ctx", OBJ(RC))
    c.setup(nsmap_setup)
    c.requires("the stream reader is well-formed and stands on the colon of #:", lambda a: z3.And(WF(a.eng, a.pre.st, reader_of(a)), CH(pos(a.pre.st, reader_of(a))) == V.mk_str(":")))
    c.raises(rd.SyntaxError)

    def nsmap_raise(a):
        post = a.post.st
        is_eof = a.exc.pycls is not None and issubclass(a.exc.pycls, rd.UnexpectedEOFError)
        if post.ghost.get("inner_exc") == "eof":
            return z3.BoolVal(is_eof)
        if post.ghost.get("inner_exc") == "syntax":
            return z3.BoolVal(True)
        msg = a.exc.args[0] if getattr(a.exc, "args", None) else None
        if msg is not None and "Invalid map namespace" in str(msg):
            return z3.BoolVal(True)  # a qualified namespace is malformed whatever follows
        return z3.Implies(CH(pos(post, reader_of(a))) == V.mk_str(""), z3.BoolVal(is_eof))

    c.ensures_on_raise("when the text ends before the map of #:ns{...} the error is UnexpectedEOFError; errors of the map itself keep their kind", nsmap_raise)
    c.replay(lambda m, ctx, ob: STRLIT_REPLAY)
    c.replay_without_model = True

    # ---- \<nothing>: a character literal cut short by the end of the text
    def char_setup(eng, st):
        psetup(eng, st)
        str_models(eng)

        def join_exact(e, s, a, k):
            lst_ = a[1]
            content = z3.simplify(z3.Select(s.lists, V.Val.a(lst_.t)))
            s_empty = s.copy()
            s_empty.assume(z3.Length(content) == 0)
            if e.feasible(s_empty):
                yield s_empty, ""
            s.assume(z3.Length(content) > 0)
            if e.feasible(s):
                yield s, SV(V.mk_str(JOINED(content)))

        eng.method_models[(str, "join")] = Model("''.join(list) ('' for the empty list)", join_exact)
        ISALNUM = z3.Function("str_isalnum", V.Val, z3.BoolSort())
        eng.method_models[(str, "isalnum")] = Model("str.isalnum (opaque)", lambda e, s, a, k: iter([(s, SV(V.mk_bool(ISALNUM(a[0].t))))]))

    c = pack.contract("basilisp.lang.reader:_read_character")
    c.label = "nothing after the backslash"
    c.param("ctx", OBJ(RC))
    c.setup(char_setup)
    c.requires("the stream reader is well-formed, stands on a backslash, and the text ends right after it",
               lambda a: z3.And(WF(a.eng, a.pre.st, reader_of(a)), CH(pos(a.pre.st, reader_of(a))) == V.mk_str("\\"), CH(pos(a.pre.st, reader_of(a)) + 1) == V.mk_str("")))
    c.raises(rd.UnexpectedEOFError)
    c.allow_no_return = True

    def char_inv(ctx):
        st, pre = ctx.st, ctx.entry.st
        r = fld(pre, ctx["ctx"], "_reader")
        return [("the stream reader stays well-formed and is still the context's reader", z3.And(WF(ctx.eng, st, r), fld(st, ctx["ctx"], "_reader") == r, ctx["reader"] == r)),
                ("the cursor has not moved back, and char is the character under it", z3.And(pos(st, r) >= pos(pre, r), ctx["char"] == CH(pos(st, r)), V.is_str(ctx["char"]), ONECHAR(ctx["char"]))),
                ("the loop is left in its first round (the character under the cursor is the end of the text): nothing was collected",
                 z3.And(ctx["is_first_char"] == V.mk_bool(True), pos(st, r) == pos(pre, r), z3.Length(z3.Select(st.lists, V.Val.a(ctx["s"]))) == 0, V.is_ref(ctx["s"]), V.Val.a(ctx["s"]) > 0))]

    c.loop(0, invariant=char_inv, frame=["_idx"], lists=True, ghost=("n_read",), aux=("dqv", "dqn"))
    c.ensures("a backslash at the very end of the text is an incomplete character literal: nothing is returned", lambda a: z3.BoolVal(False))
    c.replay(lambda m, ctx, ob: STRLIT_REPLAY)
    c.replay_without_model = True

    # ---- #inst: whatever follows the tag, only a syntax error
    from basilisp.lang import util as langutil_

    def inst_setup(eng, st):
        def parse(e, s, a, k):
            # trusted: the date parser returns a datetime or raises ValueError / OverflowError (bad text) or TypeError (not a string)
            r = V.fresh_val("instant")
            s.assume(e.external_ref_fact(s, r))
            yield s, SV(r)
            for exc in (ValueError, OverflowError, TypeError):
                yield s.copy(), Raise(Exc(exc, ("bad instant",), note="raised by the date parser"))

        eng.models[id(langutil_.inst_from_str)] = Model("langutil.inst_from_str (trusted: datetime or ValueError/OverflowError/TypeError)", parse)

    c = pack.contract("basilisp.lang.reader:_inst_from_str")
    c.setup(inst_setup)
    c.raises(rd.SyntaxError)
    c.ensures("", lambda a: z3.BoolVal(True))
    c.replay(lambda m, ctx, ob: STRLIT_REPLAY)
    c.replay_without_model = True

    # ---- #"...": the pattern compiler may reject the text in more than one way
    import re as _re2

    def regex_setup(eng, st):
        psetup(eng, st)

        def read_str(e, s, a, k):
            r = fld(s, e.lift(a[0], s), "_reader")
            s.ghost["n_read"] = z3.Int(V.fresh_name("n_read"))
            e.havoc_heap(s, ["_idx"])
            for nm in ("dqv", "dqn"):
                if nm in s.aux:
                    s.aux[nm] = z3.Const(V.fresh_name(nm), s.aux[nm].sort())
            s.assume(WF(e, s, r))
            s2, s3 = s.copy(), s.copy()
            yield s, SV(V.mk_str(z3.String(V.fresh_name("pattern_text"))))
            s2.ghost["inner_exc"] = "eof"
            yield s2, Raise(Exc(rd.UnexpectedEOFError, ("Unexpected EOF in string",), note="raised by _read_str"))
            s3.ghost["inner_exc"] = "syntax"
            yield s3, Raise(Exc(rd.SyntaxError, ("syntax error",), note="raised by _read_str"))

        eng.models[id(rd._read_str)] = Model("_read_str (by contract: a string, or a syntax error of the right kind)", read_str)

        def compile_(e, s, a, k):
            # trusted (re.compile): a Pattern, or re.error for a malformed pattern, or OverflowError for a repetition count beyond the engine's limit
            r = V.fresh_val("pattern")
            s.assume(e.external_ref_fact(s, r))
            yield s, SV(r)
            yield s.copy(), Raise(Exc(_re2.error, ("bad pattern",), note="malformed pattern"))
            yield s.copy(), Raise(Exc(OverflowError, ("the repetition number is too large",), note="a repetition count beyond the regex engine's limit"))

        eng.models[id(langutil_.regex_from_str)] = Model("langutil.regex_from_str (trusted: Pattern, re.error or OverflowError)", compile_)

    c = pack.contract("basilisp.lang.reader:_read_regex")
    c.param("ctx", OBJ(RC))
    c.setup(regex_setup)
    c.requires("the stream reader is well-formed", lambda a: WF(a.eng, a.pre.st, reader_of(a)))
    c.raises(rd.SyntaxError)
    c.ensures_on_raise("the text ending inside the pattern stays UnexpectedEOFError; a pattern the compiler rejects is a plain syntax error",
                       lambda a: z3.BoolVal((a.exc.pycls is not None and issubclass(a.exc.pycls, rd.UnexpectedEOFError)) == (a.post.st.ghost.get("inner_exc") == "eof")))
    c.replay(lambda m, ctx, ob: STRLIT_REPLAY)
    c.replay_without_model = True

    # ---- #uuid: likewise
    def uuid_setup(eng, st):
        def parse(e, s, a, k):
            # trusted: uuid.UUID over the formatted argument returns a UUID or raises ValueError (TypeError is allowed for as well)
            r = V.fresh_val("uuid")
            s.assume(e.external_ref_fact(s, r))
            yield s, SV(r)
            for exc in (ValueError, TypeError):
                yield s.copy(), Raise(Exc(exc, ("bad uuid",), note="raised by the UUID parser"))

        eng.models[id(langutil_.uuid_from_str)] = Model("langutil.uuid_from_str (trusted: UUID or ValueError/TypeError)", parse)

    c = pack.contract("basilisp.lang.reader:_uuid_from_str")
    c.setup(uuid_setup)
    c.raises(rd.SyntaxError)
    c.ensures("", lambda a: z3.BoolVal(True))
    c.replay(lambda m, ctx, ob: STRLIT_REPLAY)
    c.replay_without_model = True

    # ---- numbers: whatever digits, signs, letters and dots follow, reading a number ends in a number, a symbol or a syntax error
    import re as _re
    import decimal as _dec
    import fractions as _fr

    DEC_OF = z3.Function("decimal_of_text", z3.StringSort(), z3.IntSort())
    FLT_OF = z3.Function("float_of_text", z3.StringSort(), z3.IntSort())

    class _Match:  # stand-in for re.Match
        def group(self, i):
            raise NotImplementedError

        def groups(self):
            raise NotImplementedError

    def num_setup(eng, st):
        psetup(eng, st)
        eng.float_overflow = True  # int -> float conversion in mixed arithmetic raises OverflowError beyond the range of a double
        eng.class_id(_Match)
        NUMERIC_PATTERNS = (rd.integer_literal, rd.float_literal, rd.octal_literal, rd.hex_literal, rd.ratio_literal, rd.scientific_notation_literal,
                            rd.arbitrary_base_literal, rd.complex_literal)

        def fullmatch(e, s, a, k):
            # trusted: a number pattern matches the whole token or it does not; its groups are strings
            pat = a[0]
            if isinstance(pat, SV):
                ok_, obj_ = e.unlift_const(pat.t)
                pat = obj_ if ok_ else pat
            if not any(pat is p_ for p_ in NUMERIC_PATTERNS):
                raise Unsupported("fullmatch of a pattern other than the number patterns")
            s2 = s.copy()
            m_ = e.alloc(s, _Match)
            s.ghost["matched"] = pat
            yield s, m_
            yield s2, None

        eng.method_models[(_re.Pattern, "fullmatch")] = Model("<number pattern>.fullmatch (a match object or None)", fullmatch)
        def group(e, s, a, k):
            g_ = V.mk_str(z3.String(V.fresh_name("group")))
            s.ghost["groups"] = list(s.ghost.get("groups", [])) + [g_]
            yield s, SV(g_)

        eng.method_models[(_Match, "group")] = Model("Match.group (a string)", group)

        def groups(e, s, a, k):
            if s.ghost.get("matched") is not rd.ratio_literal:
                raise Unsupported("Match.groups of a pattern other than ratio_literal")
            yield s, (SV(V.mk_str(z3.String(V.fresh_name("num")))), SV(V.mk_str(z3.String(V.fresh_name("den")))))

        eng.method_models[(_Match, "groups")] = Model("Match.groups (two strings for ratio_literal)", groups)

        def int_(e, s, a, k):
            # trusted, from the patterns: the groups handed to int(x) / int(x, base=8|16) are digit strings of that base and always
            # parse; only the digits of an arbitrary-base literal (base read from the text) may be invalid for the base
            n = z3.Int(V.fresh_name("parsed_int"))
            base = k.get("base")
            if base is None or base in (8, 16):
                if s.ghost.get("matched") in (rd.octal_literal, rd.hex_literal) or (s.ghost.get("matched") is rd.ratio_literal and s.ghost.get("ratio_ints", 0) >= 1) \
                        or (s.ghost.get("matched") is rd.arbitrary_base_literal and base is None):
                    s.assume(n >= 0)  # (these groups carry no sign)
                if s.ghost.get("matched") is rd.ratio_literal:
                    s.ghost["ratio_ints"] = s.ghost.get("ratio_ints", 0) + 1
                yield s, SV(V.mk_int(n))
                return
            s2 = s.copy()
            s.assume(n >= 0)
            yield s, SV(V.mk_int(n))
            yield s2, Raise(Exc(ValueError, ("invalid literal for int() with this base",), note="digits that are not digits of the base"))

        eng.models[id(_bi.int)] = Model("int(<digits>[, base]) (trusted from the number patterns)", int_)
        def float_(e, s, a, k):
            # trusted: float(text) of a text of the number patterns always parses (out of range gives inf); the value is a function of the text
            arg = e.lift(a[0], s)
            s.ghost["float_arg"] = arg
            yield s, SV(V.Val.flt(FLT_OF(V.Val.s(arg))))

        eng.models[id(_bi.float)] = Model("float(<digits[.digits][e..]>) (always parses; the value is a function of the text)", float_)

        def decimal_(e, s, a, k):
            # trusted: decimal.Decimal(text) is the exact decimal the text denotes (no rounding to a context) - DEC_OF(text)
            s2 = s.copy()
            arg = e.lift(a[0], s)
            s.ghost["decimal_arg"] = arg
            yield s, SV(V.Val.dec(DEC_OF(V.Val.s(arg))))
            if s2.ghost.get("matched") is rd.float_literal:
                yield s2, Raise(Exc(_dec.InvalidOperation, ("bad decimal",), note="(the code guards this call)"))

        eng.models[id(_dec.Decimal)] = Model("decimal.Decimal(<text of a number pattern>)", decimal_)
        eng.models[id(_bi.complex)] = Model("complex(0, x)", lambda e, s, a, k: iter([(s, SV(V.Val.cplx(z3.Int(V.fresh_name("imaginary")))))]))

        def join_any(e, s, a, k):
            t_ = V.mk_str(z3.String(V.fresh_name("token")))
            s.ghost["token"] = t_
            yield s, SV(t_)

        eng.method_models[(str, "join")] = Model("''.join(chars) (some string)", join_any)

        def read_sym(e, s, a, k):
            s2 = s.copy()
            r = V.fresh_val("symbol_read")
            s.assume(e.external_ref_fact(s, r))
            yield s, SV(r)
            yield s2, Raise(Exc(rd.SyntaxError, ("syntax error",), note="raised by _read_sym"))

        eng.models[id(rd._read_sym)] = Model("_read_sym (by contract: a form or a syntax error)", read_sym)

        def pushback(e, s, a, k):
            # by the contract of pushback (proved above): one character back, or IndexError with nothing changed.  Assumed here: the
            # first pushback of this function, which directly follows a next_char that moved, is not refused (window of two or more)
            r = e.lift(a[0], s)
            p = pos(s, r)
            first = s.ghost.get("pushbacks", 0) == 0
            s.ghost["pushbacks"] = s.ghost.get("pushbacks", 0) + 1
            s2 = s.copy()
            e.havoc_heap(s, ["_idx"])
            s.assume(WF(e, s, r), pos(s, r) == p - 1)
            yield s, None
            if not first:
                yield s2, Raise(Exc(IndexError, ("Exceeded pushback depth",), note="the pushback window is exhausted"))

        eng.method_models[(SR, "pushback")] = Model("StreamReader.pushback (by contract; the first one is assumed to be accepted)", pushback)

    c = pack.contract("basilisp.lang.reader:_read_num")
    c.param("ctx", OBJ(RC))
    c.setup(num_setup)
    c.requires("the stream reader is well-formed and stands on a digit or a minus sign",
               lambda a: z3.And(WF(a.eng, a.pre.st, reader_of(a)), z3.Or(*[CH(pos(a.pre.st, reader_of(a))) == V.mk_str(ch) for ch in "0123456789-"])))
    c.raises(rd.SyntaxError)

    def num_inv(ctx):
        st, pre = ctx.st, ctx.entry.st
        r = fld(pre, ctx["ctx"], "_reader")
        return [("the stream reader stays well-formed and is still the context's reader", z3.And(WF(ctx.eng, st, r), fld(st, ctx["ctx"], "_reader") == r, ctx["reader"] == r)),
                ("chars is this call's own list", z3.And(V.is_ref(ctx["chars"]), V.Val.a(ctx["chars"]) > 0)),
                ("a character has been collected, or the cursor still stands where the call began", z3.Or(z3.Length(z3.Select(st.lists, V.Val.a(ctx["chars"]))) > 0, pos(st, r) == pos(pre, r)))]

    def num_inv_pushback(ctx):
        st, pre = ctx.st, ctx.entry.st
        r = fld(pre, ctx["ctx"], "_reader")
        return [("the stream reader stays well-formed and is still the context's reader", z3.And(WF(ctx.eng, st, r), fld(st, ctx["ctx"], "_reader") == r, ctx["reader"] == r))]

    c.loop(0, invariant=num_inv, frame=["_idx"], lists=True, ghost=("n_read",), aux=("dqv", "dqn"))
    c.loop(1, invariant=num_inv_pushback, frame=["_idx"], lists=True, ghost=("n_read",), aux=("dqv", "dqn"))
    # (C03 needs this of the reader: the printer writes large and small floats in scientific notation, 1e+16, and they must come back as floats)
    c.ensures("a token in scientific notation reads as a float - or as a decimal when it carries the M suffix - never as an integer",
              lambda a: z3.BoolVal(True) if a.post.st.ghost.get("matched") is not rd.scientific_notation_literal else z3.Or(V.is_flt(a.result), V.is_dec(a.result)))

    def dec_post(a):
        g = a.post.st.ghost
        if g.get("matched") not in (rd.float_literal, rd.scientific_notation_literal):
            return z3.BoolVal(True)
        tok = V.Val.s(g["token"])
        body = z3.SubString(tok, 0, z3.Length(tok) - 1)  # the token without its last character, the M
        arg = g.get("decimal_arg")
        if arg is None:
            return z3.Not(V.is_dec(a.result))
        texts = [V.Val.s(x) for x in g.get("groups", [])[:1]] + [body]
        return z3.And(a.result == V.Val.dec(DEC_OF(V.Val.s(arg))), z3.Or(*[V.Val.s(arg) == t_ for t_ in texts]))

    def flt_post(a):
        g = a.post.st.ghost
        if g.get("matched") is rd.scientific_notation_literal and g.get("decimal_arg") is None:
            return a.result == V.Val.flt(FLT_OF(V.Val.s(g["token"])))
        if g.get("matched") is rd.float_literal and g.get("decimal_arg") is None:
            grp = g.get("groups", [])
            return z3.BoolVal(False) if not grp else a.result == V.Val.flt(FLT_OF(V.Val.s(grp[0])))
        return z3.BoolVal(True)

    c.ensures("a float literal reads as float() of its own text: the whole token for scientific notation (significand, exponent and sign together), the pattern's "
              "first group for the plain form", flt_post)
    c.ensures("a token with the M suffix reads as exactly the decimal its text denotes: decimal.Decimal of the digits (the pattern's first group, or the token without the M), "
              "not a value rounded to some context's precision", dec_post)
    c.replay(lambda m, ctx, ob: NUM_REPLAY)
    c.replay_without_model = True

    # ---- #{...}: the elements are arbitrary reader forms, and those made by #py (lists, dicts, sets) are not hashable.  _read_coll
    #      is used by its contract, which *assumes* that the constructor handed to it raises nothing but syntax errors: here the
    #      constructor of sets, a local function of _read_set, is checked against that assumption.
    import builtins as _bi
    import collections as _coll
    from basilisp.lang import set as lset_

    HASHABLE = z3.Function("is_hashable", V.Val, z3.BoolSort())

    class _PySet:  # stand-in for the class of the value of set(<list>)
        def __len__(self):
            raise NotImplementedError

    class _Counter:  # stand-in for collections.Counter
        def items(self):
            raise NotImplementedError

    def set_setup(eng, st):
        psetup(eng, st)
        eng.class_id(_Counter)
        eng.opaque_message_genexprs = True
        eng.class_id(_PySet)

        def read_coll(e, s, a, k):
            # by contract (proved above): the constructor is applied to a list of the elements read, unless a syntax error came first
            s2 = s.copy()
            elems = z3.Const(V.fresh_name("elements_read"), V.ValSeq)
            lst_ = e.alloc(s, list)
            s.lists = z3.Store(s.lists, V.Val.a(lst_.t), elems)
            s.ghost["elements_read"] = elems
            yield from e.call(a[1], [lst_], {}, s)
            yield s2, Raise(Exc(rd.SyntaxError, ("syntax error",), note="raised by _read_coll itself or by an element's reader"))

        eng.models[id(rd._read_coll)] = Model("_read_coll (by contract: applies the constructor to the list of elements read)", read_coll)

        def py_set(e, s, a, k):
            # trusted: set(iterable) hashes every item - TypeError exactly when one of them is not hashable
            L = z3.Select(s.lists, V.Val.a(e.lift(a[0], s)))
            i = z3.Int("i")
            s2 = s.copy()
            s.assume(z3.ForAll([i], z3.Implies(z3.And(i >= 0, i < z3.Length(L)), HASHABLE(L[i]))))
            r = e.alloc(s, _PySet)
            s.ghost["py_set"] = (r.t, L)
            yield s, r
            w = z3.Int(V.fresh_name("unhashable_at"))
            s2.assume(w >= 0, w < z3.Length(L), z3.Not(HASHABLE(L[w])))
            yield s2, Raise(Exc(TypeError, ("unhashable type",), note="set() over a list holding a value that is not hashable"))

        eng.models[id(_bi.set)] = Model("set(<list>) (trusted: TypeError exactly when an item is not hashable)", py_set)

        def set_len(e, s, a, k):
            n = z3.Int(V.fresh_name("distinct"))
            s.assume(n >= 0, n <= z3.Length(s.ghost["py_set"][1]))
            yield s, SV(V.mk_int(n))

        eng.method_models[(_PySet, "__len__")] = Model("len(<set>) (at most the number of items)", set_len)
        eng.models[id(_coll.Counter)] = Model("collections.Counter (only feeds the error message)", lambda e, s, a, k: iter([(s, e.alloc(s, _Counter))]))
        eng.method_models[(_Counter, "items")] = Model("Counter.items (only feeds the error message)", lambda e, s, a, k: iter([(s, SV(V.fresh_val("counter_items")))]))
        eng.method_models[(str, "join")] = Model("str.join (only feeds the error message)", lambda e, s, a, k: iter([(s, SV(V.mk_str(z3.String(V.fresh_name("joined")))))]))

        def lisp_set(e, s, a, k):
            # trusted: basilisp.lang.set.set over hashable members builds a set and raises nothing
            yield s, e.alloc(s, lset_.PersistentSet)

        eng.models[id(lset_.set)] = Model("basilisp.lang.set.set (trusted: raises nothing on hashable members)", lisp_set)

    c = pack.contract("basilisp.lang.reader:_read_set")
    c.param("ctx", OBJ(RC))
    c.setup(set_setup)
    c.requires("the stream reader is well-formed and stands on the { of #{", lambda a: z3.And(WF(a.eng, a.pre.st, reader_of(a)), CH(pos(a.pre.st, reader_of(a))) == V.mk_str("{")))
    c.raises(rd.SyntaxError)
    c.ensures("", lambda a: z3.BoolVal(True))
    c.replay(lambda m, ctx, ob: STRLIT_REPLAY)
    c.replay_without_model = True

    # ---- {...}: the pairs of a map are validated (duplicate or unhashable key, a value missing) only once every element has been read
    #      and the closing brace consumed; until then the text ending is "more input needed" whatever the pairs read so far look like
    from basilisp.lang import map as lmap_
    from basilisp import util as util_
    from pyvc.loops import SymIter as _SymIter

    def map_setup(eng, st):
        psetup(eng, st)
        eng.class_id(lmap_.PersistentMap)

        def read_elems(e, s, a, k):
            # __read_map_elems is a generator: nothing is read until it is consumed.  It stands here for "the elements up to the closing brace".
            yield s, SV(V.fresh_val("map_elems_generator"), hint=_ElemsGen)

        class _ElemsGen:  # stand-in for the generator object
            pass

        eng.class_id(_ElemsGen)
        eng.models[id(rd.__dict__["__read_map_elems"])] = Model("__read_map_elems (a generator: consumed by whoever iterates it)", read_elems)

        def list_(e, s, a, k):
            src = a[0]
            if not (isinstance(src, SV) and src.hint is _ElemsGen):
                raise Unsupported("list() of something other than the element generator")
            # consuming the generator reads every element and the closing brace - or fails on the way: by the contracts of _read_next
            # and __read_map_elems, with UnexpectedEOFError when the text ends first, with a syntax error for a malformed element
            s2, s3 = s.copy(), s.copy()
            elems = z3.Const(V.fresh_name("map_elements"), V.ValSeq)
            lst_ = e.alloc(s, list)
            s.lists = z3.Store(s.lists, V.Val.a(lst_.t), elems)
            s.ghost["map_closed"] = True
            yield s, lst_
            s2.ghost["inner_exc"] = "eof"
            yield s2, Raise(Exc(rd.UnexpectedEOFError, ("Unexpected EOF in map",), note="the text ended before the closing brace"))
            s3.ghost["inner_exc"] = "syntax"
            yield s3, Raise(Exc(rd.SyntaxError, ("malformed element",), note="malformed element"))

        eng.models[id(_bi.list)] = Model("list(<the element generator>) (reads all elements and the closing brace, or raises)", list_)

        def partition(e, s, a, k):
            # trusted (itertools.batched / util.partition): consecutive pairs in order; a last batch of one element makes the loop's
            # `k, v = batch` unpacking fail with ValueError once the pairs before it have been handled
            src, n = a
            if n != 2 or not (isinstance(src, SV) and src.hint is list):
                raise Unsupported("partition of something other than a list, or not in pairs")
            L = z3.Select(s.lists, V.Val.a(src.t))
            half = z3.Int(V.fresh_name("pairs"))
            s_odd = s.copy()
            s.assume(half >= 0, z3.Length(L) == 2 * half)
            it = _SymIter(None, label="pairs", length=half, item=lambda e_, s_, i: (SV(z3.simplify(L[2 * i])), SV(z3.simplify(L[2 * i + 1]))))
            yield s, it
            s_odd.assume(half >= 0, z3.Length(L) == 2 * half + 1)
            it2 = _SymIter(None, label="pairs and a single", length=half, item=lambda e_, s_, i: (SV(z3.simplify(L[2 * i])), SV(z3.simplify(L[2 * i + 1]))))
            it2.on_exhaust = Exc(ValueError, ("not enough values to unpack (expected 2, got 1)",))
            yield s_odd, it2

        eng.models[id(util_.partition)] = Model("partition(list, 2) (trusted: consecutive pairs; a single last element fails to unpack)", partition)
        if rd.partition is not util_.partition:
            eng.models[id(rd.partition)] = eng.models[id(util_.partition)]
        eng.models[id(lmap_.map)] = Model("basilisp.lang.map.map (trusted: builds a map from a dict of hashable keys)", lambda e, s, a, k: iter([(s, e.alloc(s, lmap_.PersistentMap))]))

    c = pack.contract("basilisp.lang.reader:_read_map")
    c.param("ctx", OBJ(RC))
    c.param_value("namespace", lambda eng, st: None)
    c.setup(map_setup)
    c.requires("the stream reader is well-formed and stands on the opening brace", lambda a: z3.And(WF(a.eng, a.pre.st, reader_of(a)), CH(pos(a.pre.st, reader_of(a))) == V.mk_str("{")))
    c.raises(rd.SyntaxError)
    c.loop(0, invariant=lambda ctx: [("d is this call's own dict", z3.BoolVal(True))], frame=[], lists=False, aux=("pdm", "pdd"))

    def map_raise(a):
        g = a.post.st.ghost
        is_eof = a.exc.pycls is not None and issubclass(a.exc.pycls, rd.UnexpectedEOFError)
        if g.get("inner_exc") == "eof":
            return z3.BoolVal(is_eof)
        if g.get("inner_exc") == "syntax":
            return z3.BoolVal(True)
        return z3.BoolVal(bool(g.get("map_closed")) and not is_eof)

    c.ensures_on_raise("the text ending inside the map is UnexpectedEOFError; the map's own complaints (duplicate or unhashable key, a value missing) are plain syntax errors "
                       "raised only after every element and the closing brace have been read", map_raise)
    c.ensures("a map is returned only after the closing brace has been read", lambda a: z3.BoolVal(bool(a.post.st.ghost.get("map_closed"))))
    c.replay(lambda m, ctx, ob: STRLIT_REPLAY)
    c.replay_without_model = True

    # ---- #queue: the form after the tag is arbitrary reader data (a number, nil, a symbol ...), not necessarily a collection
    from basilisp.lang import symbol as sym_
    import pyrsistent as _pyr

    ITERABLE = z3.Function("is_iterable", V.Val, z3.BoolSort())

    def queue_setup(eng, st):
        def pdeque_any(e, s, a, k):
            # trusted: pdeque(iterable=x) iterates x - TypeError exactly when x is not iterable
            src = e.lift(k.get("iterable", a[0] if a else ()), s)
            s2 = s.copy()
            s.assume(ITERABLE(src))
            r = e.alloc(s, eng.libcls["PDeque"])
            yield s, r
            s2.assume(z3.Not(ITERABLE(src)))
            yield s2, Raise(Exc(TypeError, ("object is not iterable",), note="pdeque over a form that is not iterable"))

        eng.closed_world_classes = True  # (only the error message looks at the class of the form)
        eng.models[id(_pyr.pdeque)] = Model("pdeque(iterable=<any value>) (trusted: TypeError exactly when the value is not iterable)", pdeque_any)

    queue_reader = rd.ReaderContext._DATA_READERS[sym_.symbol("queue")]
    c = pack.contract(f"{queue_reader.__module__}:{queue_reader.__qualname__}")
    c.label = "as the #queue data reader"
    c.setup(queue_setup)
    import inspect as _inspect

    qp = next(iter(_inspect.signature(queue_reader).parameters))  # the parameter that receives the tagged form
    c.requires("(numbers, nil and booleans are not iterable)",
               lambda a: (lambda x: z3.Implies(z3.Or(V.is_int(x), V.is_none(x), V.is_bool(x), V.is_flt(x)), z3.Not(ITERABLE(x))))(getattr(a, qp)))
    c.raises(rd.SyntaxError)
    c.ensures("", lambda a: z3.BoolVal(True))
    c.replay(lambda m, ctx, ob: STRLIT_REPLAY)
    c.replay_without_model = True

    # ---- byte strings: #b "..." - malformed and incomplete are told apart by whether the text has ended
    def bytes_setup(eng, st):
        psetup(eng, st)
        str_models(eng)
        # the text is finite: read(1) returns "" from some index END on, and only from there on (trusted, as in setup)
        st.assume(END >= 0, forall_k((CH(k) == V.mk_str("")) == (k >= END), CH(k)))
        import builtins as _b

        ORD = z3.Function("ord_of", V.Val, z3.IntSort())
        eng.models[id(_b.ord)] = Model("ord (opaque)", lambda e, s, a, k: iter([(s, SV(V.mk_int(ORD(e.lift(a[0], s)))))]))
        eng.method_models[(str, "encode")] = Model("str.encode (opaque)", lambda e, s, a, k: iter([(s, SV(V.fresh_val("encoded")))]))
        eng.method_models[(bytes, "join")] = Model("bytes.join (opaque)", lambda e, s, a, k: iter([(s, SV(V.fresh_val("joined_bytes")))]))

        def int16(e, s, a, k):
            # int("0x" + two characters, base=16): a byte value, or ValueError when they are not two hexadecimal digits
            s2 = s.copy()
            yield s, SV(V.mk_int(z3.Int(V.fresh_name("byte"))))
            yield s2, Raise(Exc(ValueError, ("invalid literal for int() with base 16",), note="not two hexadecimal digits"))

        eng.models[id(_b.int)] = Model("int(<0x..>, base=16) (a value or ValueError)", int16)
        eng.models[id(_b.bytes)] = Model("bytes([n]) (opaque)", lambda e, s, a, k: iter([(s, SV(V.fresh_val("one_byte")))]))

        def hex_byte(e, s, args, k):
            # _read_hex_byte by contract (below): two more characters are consumed; a byte, or a syntax error that is the
            # incomplete kind exactly when the text ended within those two characters
            ctx_ = e.lift(args[0], s)
            r = fld(s, ctx_, "_reader")
            p = pos(s, r)
            s.ghost["n_read"] = z3.Int(V.fresh_name("n_read"))
            e.havoc_heap(s, ["_idx"])
            for nm in ("dqv", "dqn"):
                if nm in s.aux:
                    s.aux[nm] = z3.Const(V.fresh_name(nm), s.aux[nm].sort())
            s.assume(WF(e, s, r), pos(s, r) == p + 2)
            s2, s3 = s.copy(), s.copy()
            yield s, SV(V.fresh_val("one_byte"))
            s2.ghost["inner_exc"] = "eof"
            yield s2, Raise(Exc(rd.UnexpectedEOFError, ("Unexpected EOF in byte escape",), note="the text ended inside the escape"))
            s3.ghost["inner_exc"] = "syntax"
            yield s3, Raise(Exc(rd.SyntaxError, ("invalid byte escape",), note="malformed escape"))

        if eng.cur_func_key.endswith("_read_byte_str"):
            eng.models[id(rd._read_hex_byte)] = Model("_read_hex_byte (by contract)", hex_byte)

    def own_error_kind(a):
        """the reader's own error is the incomplete kind exactly when the text has ended under the cursor"""
        post = a.post.st
        is_eof = a.exc.pycls is not None and issubclass(a.exc.pycls, rd.UnexpectedEOFError)
        if post.ghost.get("inner_exc") == "eof":
            return z3.BoolVal(is_eof)
        if post.ghost.get("inner_exc") == "syntax":
            return z3.BoolVal(True)
        ended = CH(pos(post, reader_of(a))) == V.mk_str("")
        return ended if is_eof else z3.Not(ended)

    c = pack.contract("basilisp.lang.reader:_read_hex_byte")
    c.param("ctx", OBJ(RC))
    c.setup(bytes_setup)
    c.requires("the stream reader is well-formed", lambda a: WF(a.eng, a.pre.st, reader_of(a)))
    c.raises(rd.SyntaxError)
    c.ensures_on_raise("\\x followed by fewer than two characters before the end of the text is incomplete (UnexpectedEOFError); two characters that are not "
                       "hexadecimal digits are malformed (plain SyntaxError)", own_error_kind)
    c.replay(lambda m, ctx, ob: STRLIT_REPLAY)
    c.replay_without_model = True

    c = pack.contract("basilisp.lang.reader:_read_byte_str")
    c.param("ctx", OBJ(RC))
    c.setup(bytes_setup)
    c.requires("the stream reader is well-formed", lambda a: WF(a.eng, a.pre.st, reader_of(a)))
    c.raises(rd.SyntaxError)

    def bytes_inv(ctx):
        st, pre = ctx.st, ctx.entry.st
        r = fld(pre, ctx["ctx"], "_reader")
        return [
            ("the stream reader stays well-formed and is still the context's reader", z3.And(WF(ctx.eng, st, r), fld(st, ctx["ctx"], "_reader") == r, ctx["reader"] == r)),
            ("the cursor has not moved back", pos(st, r) >= pos(pre, r)),
        ]

    c.loop(0, invariant=bytes_inv, frame=["_idx"], lists=True, ghost=("n_read",), aux=("dqv", "dqn"))
    c.ensures_on_raise("a byte string that is cut short by the end of the text - before its opening quote, inside it, inside an escape - is incomplete (UnexpectedEOFError); "
                       "a character that may not occur in it is malformed (plain SyntaxError): the kind of the error says whether more text could help", own_error_kind)
    c.replay(lambda m, ctx, ob: STRLIT_REPLAY)
    c.replay_without_model = True


    # ---- f-strings: #f "...{expr}..." - the same classification, and only real forms are spliced in
    def fstr_setup(eng, st):
        strlit_setup(eng, st)  # (psetup, the string helpers and _read_unicode_escape_seq by contract)
        bytes_like_end(eng, st)

        def sub_reader(e, s, args, k):
            # _read_next by contract: at the end of the text the eof value and no movement; otherwise a form, a comment
            # marker, or a syntax error of either kind
            ctx_ = e.lift(args[0], s)
            r = fld(s, ctx_, "_reader")
            p = pos(s, r)
            s_end = s.copy()
            s_end.assume(CH(p) == V.mk_str(""))
            if e.feasible(s_end):
                s_end.ghost["spliced"] = list(s_end.ghost.get("spliced", [])) + [fld(s_end, ctx_, "_eof")]
                yield s_end, SV(fld(s_end, ctx_, "_eof"))
            s.assume(CH(p) != V.mk_str(""))
            s.ghost["n_read"] = z3.Int(V.fresh_name("n_read"))
            e.havoc_heap(s, ["_idx"])
            for nm in ("dqv", "dqn"):
                if nm in s.aux:
                    s.aux[nm] = z3.Const(V.fresh_name(nm), s.aux[nm].sort())
            s.assume(WF(e, s, r), pos(s, r) > p)
            s_c, s2, s3 = s.copy(), s.copy(), s.copy()
            res = V.fresh_val("expr")
            s.assume(e.external_ref_fact(s, res), res != fld(s, ctx_, "_eof"), res != e.lift(rd.COMMENT, s))
            s.ghost["spliced"] = list(s.ghost.get("spliced", [])) + [res]
            yield s, SV(res)
            s_c.ghost["spliced"] = list(s_c.ghost.get("spliced", [])) + [e.lift(rd.COMMENT, s_c)]
            yield s_c, rd.COMMENT
            s2.ghost["inner_exc"] = "eof"
            yield s2, Raise(Exc(rd.UnexpectedEOFError, ("Unexpected EOF in a nested form",), note="the text ended inside the expression"))
            s3.ghost["inner_exc"] = "syntax"
            yield s3, Raise(Exc(rd.SyntaxError, ("malformed expression",), note="malformed expression"))

        eng.models[id(rd._read_next)] = Model("_read_next (by contract)", sub_reader)

        def owed(e, s, args, k):
            # _read_owed_form by contract (its body is three lines on top of _read_next_consuming_comment, C16 prefix
            # readers): a real form - never the eof value, never a comment - or a syntax error, the incomplete kind when
            # the text ended first
            ctx_ = e.lift(args[0], s)
            r = fld(s, ctx_, "_reader")
            p = pos(s, r)
            s.ghost["n_read"] = z3.Int(V.fresh_name("n_read"))
            e.havoc_heap(s, ["_idx"])
            for nm in ("dqv", "dqn"):
                if nm in s.aux:
                    s.aux[nm] = z3.Const(V.fresh_name(nm), s.aux[nm].sort())
            s.assume(WF(e, s, r), pos(s, r) >= p)
            s2, s3 = s.copy(), s.copy()
            res = V.fresh_val("expr")
            s.assume(e.external_ref_fact(s, res), res != fld(s, ctx_, "_eof"), res != e.lift(rd.COMMENT, s), pos(s, r) > p)
            s.ghost["spliced"] = list(s.ghost.get("spliced", [])) + [res]
            yield s, SV(res)
            s2.ghost["inner_exc"] = "eof"
            yield s2, Raise(Exc(rd.UnexpectedEOFError, ("Unexpected EOF after f-string expression",), note="the text ended before the expression"))
            s3.ghost["inner_exc"] = "syntax"
            yield s3, Raise(Exc(rd.SyntaxError, ("malformed expression",), note="malformed expression"))

        eng.models[id(rd._read_owed_form)] = Model("_read_owed_form (by contract)", owed)
        import builtins as _b

        eng.models[id(_b.all)] = Model("all(<generator>) (either answer)", lambda e, s, a, k: iter([(s, SV(V.mk_bool(z3.Const(V.fresh_name("all_strings"), z3.BoolSort()))))]))
        eng.models[id(llist__.list)] = Model("llist.list (some list)", lambda e, s, a, k: iter([(s, SV(V.fresh_val("str_call_form")))]))

    from basilisp.lang import list as llist__

    def bytes_like_end(eng, st):
        st.assume(END >= 0, forall_k((CH(k) == V.mk_str("")) == (k >= END), CH(k)))

    c = pack.contract("basilisp.lang.reader:_read_fstr")
    c.param("ctx", OBJ(RC))
    c.setup(fstr_setup)
    c.requires("the stream reader is well-formed", lambda a: WF(a.eng, a.pre.st, reader_of(a)))
    c.raises(rd.SyntaxError)

    def fstr_inv(ctx):
        st, pre = ctx.st, ctx.entry.st
        r = fld(pre, ctx["ctx"], "_reader")
        return [
            ("the stream reader stays well-formed and is still the context's reader", z3.And(WF(ctx.eng, st, r), fld(st, ctx["ctx"], "_reader") == r, ctx["reader"] == r)),
            ("the cursor has not moved back", pos(st, r) >= pos(pre, r)),
            ("the eof value is untouched", fld(st, ctx["ctx"], "_eof") == fld(pre, ctx["ctx"], "_eof")),
        ]

    c.loop(0, invariant=fstr_inv, frame=["_idx"], lists=True, ghost=("n_read",), aux=("dqv", "dqn"))
    c.ensures_on_raise("an f-string cut short by the end of the text - inside the string, after a backslash, inside or right after an {expression} - is incomplete "
                       "(UnexpectedEOFError); anything else wrong with it is malformed", own_error_kind)

    def fstr_post(a):
        eofv = fld(a.pre.st, a.ctx, "_eof")
        sp = a.post.st.ghost.get("spliced", [])
        return z3.And(*[z3.And(v != eofv, v != a.eng.lift(rd.COMMENT, a.post.st)) for v in sp]) if sp else z3.BoolVal(True)

    c.ensures("every {expression} spliced into the result is a real form: never the eof value, never a comment marker", fstr_post)
    c.replay(lambda m, ctx, ob: STRLIT_REPLAY)
    c.replay_without_model = True


NUM_REPLAY = r'''
from basilisp.lang import reader
bad = []
for text in ["1.5e999", "-2.5E400", "1.0e309", "1e5", "1.5e3", "1.5e-999", "2e-3", "1e400", "12", "-7N", "1.5", "1.5M", "017", "0x1F", "1/2", "4/2", "0/5", "1/0", "2r101", "37r1", "2r2", "3J", "1.5J",
             "1e5M", "1.5e999M", "12abc", "1..2", "1e", "-", "-a", "1-2"]:
    try:
        list(reader.read_str(text))
    except reader.SyntaxError:
        pass
    except BaseException as e:
        bad.append("%r: reading raised %s: %s" % (text, type(e).__name__, e))
for text in ["1e16", "1e+16", "2e6", "-3E2", "1e-3", "0e0", repr(1e16), repr(1e22), repr(-1.5e300), repr(5e-324), repr(1.7976931348623157e308)]:
    try:
        got = list(reader.read_str(text))[0]
        if type(got) is not float or got != float(text):
            bad.append("%r reads as %r (%s), not as the float %r" % (text, got, type(got).__name__, float(text)))
    except BaseException as e:
        bad.append("%r: reading raised %s: %s" % (text, type(e).__name__, e))
import decimal
for text in ["0M", "1.50M", "-3.25M", "1E+3M", "-2.5e-7M", "3.14159265358979323846264338327950288419716939937510M", "-123456789012345678901234567890.123456789M",
             "100000000000000000000000000000000000001M", "1.00000000000000000000000000000000000001e5M"]:
    try:
        got = list(reader.read_str(text))[0]
        want = decimal.Decimal(text[:-1])
        if type(got) is not decimal.Decimal or got.as_tuple() != want.as_tuple():
            bad.append("%r reads as %r, not as the exact decimal %r" % (text, got, want))
    except BaseException as e:
        bad.append("%r: reading raised %s: %s" % (text, type(e).__name__, e))
for line in bad[:10]:
    print(line)
print("REPRODUCED" if bad else "not reproduced")
'''


STRLIT_REPLAY = r'''
from basilisp.lang import reader
bad = []
def kind(text):
    try:
        list(reader.read_str(text))
        return "ok"
    except reader.UnexpectedEOFError:
        return "incomplete"
    except reader.SyntaxError:
        return "malformed"
    except BaseException as e:
        return type(e).__name__
for text, want in (('"abc', "incomplete"), ('"ab\\', "incomplete"), ('"ab\\u12', "incomplete"), ('"ab\\u', "incomplete"), ('"ab\\q"', "malformed"), ('"\\u12 "', "malformed"),
                   ('"\\uFFFFFFFF"', "malformed"), ('"\\u00110000"', "malformed"), ('"\\u0041"', "ok"), ('"a\\nb"', "ok"),
                   ("#:a", "incomplete"), ("#:a ", "incomplete"), ("#:a 1", "malformed"), ("#:a{:b 1}", "ok"), ("#:a {:b 1}", "ok"), ("#:a{:b", "incomplete"),
                   ('#f "ab', "incomplete"), ('#f "a\\', "incomplete"), ('#f "a{', "incomplete"), ('#f "a{b', "incomplete"), ('#f "a{b ', "incomplete"), ('#f "a{(b', "incomplete"),
                   ('#f "a{b c}"', "malformed"), ('#f "a{b}c"', "ok"), ('#f "a\\{b}"', "ok"), ('#f "{#_a b}"', "ok"),
                   ('#b', "incomplete"), ('#b ', "incomplete"), ('#b "ab', "incomplete"), ('#b "a\\', "incomplete"), ('#b "\\x', "incomplete"), ('#b "\\x4', "incomplete"),
                   ('#b "\\xzz"', "malformed"), ('#b "\u00e9"', "malformed"), ('#b 5', "malformed"), ('#b "a\\x41\\n"', "ok"),
                   ("\\", "incomplete"), ("\\a", "ok"), ("\\newline", "ok"), ("#inst 5", "malformed"), ("#inst \"x\"", "malformed"), ("#inst \"2020-01-01T00:00:00Z\"", "ok"),
                   ("#{#py []}", "malformed"), ("#{#py {} 1}", "malformed"), ("#{1 #py #{2}}", "malformed"), ("#{#py (1)}", "ok"), ("#{1 2}", "ok"),
                   ("#uuid 1", "malformed"), ("#uuid nil", "malformed"), ("#uuid \"zz\"", "malformed"), ("#uuid \"6ba7b810-9dad-11d1-80b4-00c04fd430c8\"", "ok"), ("#uuid", "incomplete"),
                   ("#", "incomplete"), ("(a #", "incomplete"), ("#?", "incomplete"), ("#?@", "incomplete"), ("[#?@", "incomplete"), ("#?x", "malformed"), ("#?@x", "malformed"), ("#?(", "incomplete"), ("#true 1", "malformed"), ("#nil 1", "malformed"), ("#false", "malformed"), ("#nil", "malformed"), ("#a", "incomplete"), ("#a 1", "malformed"),
                   ("{:a 1 :a 2", "incomplete"), ("{:a 1 :a 2}", "malformed"), ("{:a 1 :b", "incomplete"), ("{:a}", "malformed"), ("{#py [] 1", "incomplete"), ("{#py [] 1}", "malformed"),
                   ("(def m {:a 1 :b [1 2] :a 2 :z", "incomplete"), ("#:ns{:a 1 :ns/a 2", "incomplete"), ("{:a 1 :b 2}", "ok"), ("{}", "ok"),
                   ('#"a{99999999999999999999}"', "malformed"), ('#"(a"', "malformed"), ('#"a+"', "ok"), ('#"a', "incomplete"),
                   ("#queue 1", "malformed"), ("#queue nil", "malformed"), ("#queue 1.5", "malformed"), ("#queue", "incomplete"), ("#queue (1 2)", "ok"), ("#queue [1]", "ok"), ("#queue ()", "ok")):
    got = kind(text)
    if got != want:
        bad.append("%r is %s, expected %s" % (text, got, want))
try:
    leak = list(reader.read_str('#f "{#_a b}"'))
    if "Comment" in repr(leak):
        bad.append("a comment object is spliced into the f-string form: %r" % (leak,))
except Exception as e:
    pass
for line in bad[:10]:
    print(line)
print("REPRODUCED" if bad else "not reproduced")
'''


WALK_REPLAY = r'''
from basilisp.lang import reader, keyword as kw, runtime as rt, symbol as sym
rt.Var.intern(rt.Namespace.get_or_create(sym.symbol(rt.CORE_NS)), sym.symbol(rt.NS_VAR_NAME), rt.Namespace.get_or_create(sym.symbol("c16-walk-replay")), dynamic=True)
K = (reader.READER_LINE_KW, reader.READER_COL_KW, reader.READER_END_LINE_KW, reader.READER_END_COL_KW)
bad = []
def colls(form, out):
    if hasattr(form, "meta") and hasattr(form, "__iter__") and not isinstance(form, (str, bytes)) and type(form).__name__.startswith("Persistent"):
        out.append(form)
    if type(form).__name__ == "PersistentMap":
        for k_, v_ in form.items():
            colls(k_, out); colls(v_, out)
    elif hasattr(form, "__iter__") and not isinstance(form, (str, bytes)):
        for x in form:
            colls(x, out)
    return out
for text in ("#(assoc {:a 1} :b %)", "#(conj [1 {:k #{2}}] '(3) %)", "(defn f [x] #?(:lpy (assoc {:n 1 :v [x]} :k #{x})))", "[1 #?@(:lpy [{:a (2)} [3]])]"):
    for c in colls(list(reader.read_str(text))[0], []):
        if type(c).__name__ == "PersistentList" and len(list(c)) and str(list(c)[0]) in ("fn*", "quote"):
            continue  # forms the reader synthesises
        if type(c).__name__ == "PersistentVector" and all(str(x).startswith("arg-") or str(x) == "&" for x in c):
            continue  # the synthesised parameter vector of #(...)
        m = c.meta
        if m is None or any(m.val_at(k_) is None for k_ in K):
            bad.append("%s: the %s %s carries no reader location" % (text, type(c).__name__, c))
tagged = list(reader.read_str("#(identity ^:mark {:a 1} ^:mark [1] ^:mark #{1} ^:mark (f))"))[0]
for c in colls(tagged, []):
    if type(c).__name__ != "PersistentList" or str(list(c)[0]) == "f":
        if c.meta is None or c.meta.val_at(kw.keyword("mark")) is not True:
            if not (type(c).__name__ == "PersistentVector" and len(list(c)) == 0):
                if str(c) not in ("[]",) and not str(c).startswith("[arg"):
                    bad.append("user metadata lost on %s %s inside #(...)" % (type(c).__name__, c))
for line in bad[:10]:
    print(line)
print("REPRODUCED" if bad else "not reproduced")
'''


COLL_REPLAY = r'''
from basilisp.lang import reader
bad = []
import signal
class Stuck(BaseException):
    pass
def _alarm(*_):
    raise Stuck()
signal.signal(signal.SIGALRM, _alarm)
def outcome(text):
    signal.setitimer(signal.ITIMER_REAL, 3.0)
    try:
        return _outcome(text)
    except Stuck:
        return "no answer within 3 s (the reader is not total)"
    finally:
        signal.setitimer(signal.ITIMER_REAL, 0)
def _outcome(text):
    try:
        return [f.lrepr() if hasattr(f, "lrepr") else repr(f) for f in reader.read_str(text)]
    except reader.UnexpectedEOFError:
        return "incomplete"
    except reader.SyntaxError as e:
        return "malformed"
    except Exception as e:
        return type(e).__name__
for op, cl in (("(", ")"), ("[", "]"), ("#{", "}"), ("{", "}")):
    for body in ("", "1", "1 2", "1 ;c\n", "1 (2", "1 [2 #{3", " , "):
        got = outcome(op + body)
        if got != "incomplete":
            bad.append("%r: %s, expected incomplete" % (op + body, got))
    if op != "{":
        got = outcome(op + "1 2" + cl + " x")
        if not (isinstance(got, list) and len(got) == 2 and got[1] == "x"):
            bad.append("%r: %s, expected the collection and then x" % (op + "1 2" + cl + " x", got))
for text, want in (("'x", "(quote x)"), ("@x", "(basilisp.core/deref x)"), ("`~x", "x"), ("~x", "(basilisp.core/unquote x)"), ("[1]", "[1]"), ("(1)", "(1)"), ("{1 2}", "{1 2}"),
                   ("#{1}", "#{1}"), ('"s"', "'s'"), ("\\a", "'a'"), ("^:m [1]", "[1]"), ("; c\n7", "7"), (":k", ":k"), ("sym", "sym"), ("-3", "-3")):
    got = outcome(text)
    if got != [want]:
        bad.append("%r reads as %s, expected [%s]" % (text, got, want))
got = outcome("(1 ] 2)")
if got != "malformed":
    bad.append("'(1 ] 2)': %s, expected malformed" % (got,))
for line in bad[:10]:
    print(line)
print("REPRODUCED" if bad else "not reproduced")
'''


COMMENT_REPLAY = r'''
from basilisp.lang import reader
bad = []
for nl in ("\n", "\r\n", "\r"):
    for text, want in (("(a ;c%s b)" % nl, "[(a b)]"), ("x ; trailing%s(y)" % nl, "[x, (y)]"), ("#!shebang%s(main)" % nl, "[(main)]"), ("[1 ;; two%s 2]" % nl, "[[1 2]]"), ("; only", "[]")):
        try:
            got = "[" + ", ".join(repr(f) if not isinstance(f, str) else f for f in map(lambda f: f.lrepr() if hasattr(f, "lrepr") else repr(f), reader.read_str(text))) + "]"
        except Exception as e:
            got = type(e).__name__ + ": " + str(e)[:50]
        if got != want:
            bad.append("%r reads as %s, expected %s" % (text, got, want))
for line in bad[:10]:
    print(line)
print("REPRODUCED" if bad else "not reproduced")
'''


LOC_REPLAY = r'''
from basilisp.lang import reader
K = (reader.READER_LINE_KW, reader.READER_COL_KW, reader.READER_END_LINE_KW, reader.READER_END_COL_KW)
bad = []
def span_of(form):
    m = form.meta
    return tuple(m.val_at(k) for k in K) if m is not None else None
def true_loc(text, idx):
    line, col = 1, 0
    for i in range(1, idx + 1):
        prev, cur = text[i - 1], (text[i] if i < len(text) else "")
        if prev == "\n" or (prev == "\r" and cur != "\n"):
            line, col = line + 1, 0
        else:
            col += 1
    return line, col
cases = [("(a b)", 0, 5), ("  [1 2]", 2, 7), ("\n\n(x\n y)", 2, 8), ("a\r\n(q)", 3, 6), ("a\r(q)", 2, 5), ("{:a 1}  ", 0, 6), ("sym", 0, 3), ("  #{1}", 2, 6), (";c\n [z]", 4, 7),
         ("#:a\n{:b c}", 0, 10), (" #:k\n  {:x 1}", 1, 13), ("#:a{:b 1}", 0, 9), ("\n #{1\n 2}", 2, 9),
         ("#?(:lpy [1 2])", 8, 13), ("  #?(:clj 3 :lpy (a b))", 17, 22), ("#?(:lpy #{1})", 8, 12), ("#?(:clj 1 :lpy sym)", 15, 18), ("#?(:default\n [x])", 13, 16)]
for text, start, end in cases:
    forms = [f for f in reader.read_str(text) if hasattr(f, "meta") and f.meta is not None]
    form = forms[-1] if forms else None
    got = span_of(form) if form is not None else None
    want = true_loc(text, start) + true_loc(text, end)
    if got != want:
        bad.append("%r: the form at [%d, %d) is tagged %r, its text really spans %r" % (text, start, end, got, want))
    elif list(reader.read_str(text[start:end]))[0] != form:
        bad.append("%r: re-reading the tagged span %r does not give the same form" % (text, text[start:end]))
for line in bad[:10]:
    print(line)
print("REPRODUCED" if bad else "not reproduced")
'''


PREFIX_REPLAY = r"""
from basilisp.lang import reader
bad = []
EOF = reader.EOF
def contains_eof(form):
    if form is EOF:
        return True
    try:
        return any(contains_eof(x) for x in form) if not isinstance(form, (str, bytes)) else False
    except TypeError:
        return False
for text in ["'", "@", "~", "~@", "`", "^", "^:a", "^{:a 1}", "#_", "'  ", "' ;c\n", "@ ", "^:a  ", "(quote", "'(", "#?(", "#?(:lpy 1", "[#?(:lpy", "'a", "@a", "~a", "~@a", "`a", "^:a b", "#_a"]:
    complete = text in ("'a", "@a", "~a", "~@a", "`a", "^:a b", "#_a")
    try:
        forms = list(reader.read_str(text))
        if not complete:
            bad.append("%r: a form is still owed, yet reading returned %r" % (text, forms))
        elif any(contains_eof(f) for f in forms):
            bad.append("%r: the eof value is inside the form read: %r" % (text, forms))
    except reader.UnexpectedEOFError:
        if complete:
            bad.append("%r: complete text reported as unexpected end of input" % (text,))
    except reader.SyntaxError as e:
        if not complete:
            bad.append("%r: a form is still owed, yet the error is a plain SyntaxError (%s), not UnexpectedEOFError" % (text, str(e)[:60]))
        else:
            bad.append("%r: complete text raised %s" % (text, e))
    except Exception as e:
        bad.append("%r: %s: %s" % (text, type(e).__name__, e))
for line in bad[:14]:
    print(line)
print("REPRODUCED" if bad else "not reproduced")
"""


SR_REPLAY = r'''
import io, itertools
from basilisp.lang import reader
bad = []
def true_locs(text, line=1, col=0):
    "(line, col) of every index by the definition: LF, CRLF and lone CR each end a line"
    out = []
    for i in range(len(text) + 16):
        if i > 0:
            prev = text[i - 1] if i - 1 < len(text) else ""
            cur = text[i] if i < len(text) else ""
            if prev == "\n" or (prev == "\r" and cur != "\n"):
                line, col = line + 1, 0
            else:
                col += 1
        out.append((line, col))
    return out
def ch(text, i):
    return text[i] if i < len(text) else ""
for n in range(0, 5):
    for chars in itertools.product("a\n\r", repeat=n):
        text = "".join(chars)
        locs = true_locs(text)
        for depth in (2, 3, 5):
            for script in ("nnpnnppnnnpn", "aapaanppan", "npnpnnnppp"):
                try:
                    r = reader.StreamReader(io.StringIO(text), pushback_depth=depth)
                    p, reads = 0, 2          # position of the cursor, characters read so far
                    for step in script:
                        if r.peek() != ch(text, p) or r.loc != locs[p] or (r.line, r.col) != locs[p]:
                            bad.append("text %r depth %d script %r: at position %d peek %r loc %r, expected %r at %r" % (text, depth, script, p, r.peek(), r.loc, ch(text, p), locs[p]))
                            break
                        if step in "na":
                            got = r.next_char() if step == "n" else r.advance()
                            want = ch(text, p + 1) if step == "n" else ch(text, p)
                            p += 1; reads = max(reads, p + 2)
                            if got != want:
                                bad.append("text %r depth %d script %r: %s returned %r, expected %r" % (text, depth, script, "next_char" if step == "n" else "advance", got, want))
                                break
                        elif p >= 1:
                            allowed = (reads - (p - 1)) <= depth
                            try:
                                r.pushback(); ok = True
                            except IndexError:
                                ok = False
                            if ok != allowed:
                                bad.append("text %r depth %d script %r: pushback at position %d (%d read) %s, expected %s" % (text, depth, script, p, reads, "accepted" if ok else "refused", "accepted" if allowed else "refused"))
                                break
                            if ok:
                                p -= 1
                except Exception as e:
                    bad.append("text %r depth %d script %r: unexpected %s: %s" % (text, depth, script, type(e).__name__, e))
for line in bad[:10]:
    print(line)
print("REPRODUCED" if bad else "not reproduced")
'''
