"""Driver for the C16 pack: ``reader._with_loc`` *returns* the wrapped reader function; what the property talks about is
what the wrapped function does when it is called.  The driver only applies the real decorator and calls the result."""
from basilisp.lang import reader as rd


def read_located(f, ctx):
    """the reader function f as decorated by @_with_loc, applied to the reader context"""
    return rd._with_loc(f)(ctx)
