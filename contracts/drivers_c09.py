"""Driver for the C09 pack: ``ReaderContext.syntax_quoted`` is a context manager; the driver enters it around an opaque
template body (nothing of basilisp is re-implemented here)."""


def template_body(ctx):
    """stands for reading and processing the template's form (replaced by a marker in the proof)"""
    return None


def in_syntax_quote(ctx):
    with ctx.syntax_quoted():
        template_body(ctx)
