"""C18 - multimethod dispatch depends only on the current methods, preferences and hierarchy.

``isa?`` (Lisp, core.lpy) is an uninterpreted relation ISA(H, tag, parent) indexed by the
hierarchy value, assumed reflexive and transitive.  Spec, from the property statement:

    matches(k)   = { m in dom(methods) | ISA(k, m) }
    dom(x, y)    = prefers(x, y) or ISA(x, y)
    best(k)      = the match that dominates every match
    get_method   = methods[best(k)], else methods[default], else None; ambiguity raises

The search loop iterates the method table in an **arbitrary order** (hash order of an
immutables.Map): the enumeration is an uninterpreted bijection, so a proof is a proof for
every order - "never depends on the order in which methods were added".  The cache is
covered by the invariant "every cache entry equals the spec's answer" (get_method,
_reset_cache, the mutators).
"""
import z3

from pyvc import vals as V
from pyvc import lib
from pyvc.contract import Pack, T, OBJ, ANY
from pyvc.engine import SV, Model, Raise, Exc, Unsupported
from pyvc.monitor import Monitor

ISA = z3.Function("ISA", V.Val, V.Val, V.Val, z3.BoolSort())  # (hierarchy value, tag, parent)
HCUR = z3.Const("hierarchy.current", V.Val)
x, y, w = z3.Consts("x y w", V.Val)


def _cls():
    from basilisp.lang.multifn import MultiFunction
    from basilisp.lang.map import PersistentMap
    from basilisp.lang.set import PersistentSet

    return MultiFunction, PersistentMap, PersistentSet


def tbl(st, mf, fname):
    pm = z3.Select(st.field_array(fname), V.Val.a(mf))
    inner = z3.Select(st.field_array("_inner"), V.Val.a(pm))
    return V.map_of(V.Val.a(inner)), V.dom_of(V.Val.a(inner))


def PREF(st, mf, a, b):
    m, d = tbl(st, mf, "_prefers")
    s = z3.Select(m, a)
    sinner = z3.Select(st.field_array("_inner"), V.Val.a(s))
    return z3.And(z3.Select(d, a), z3.Select(V.dom_of(V.Val.a(sinner)), b))


def DOM(st, mf, a, b):
    return z3.Or(PREF(st, mf, a, b), ISA(HCUR, a, b))


def isa_axioms():
    return z3.And(
        z3.ForAll([x], ISA(HCUR, x, x), patterns=[ISA(HCUR, x, x)]),
        z3.ForAll([x, y, w], z3.Implies(z3.And(ISA(HCUR, x, y), ISA(HCUR, y, w)), ISA(HCUR, x, w)), patterns=[z3.MultiPattern(ISA(HCUR, x, y), ISA(HCUR, y, w))]),
    )


def setup(eng, st):
    MultiFunction, PersistentMap, PersistentSet = _cls()
    lib.install(eng)
    lib.install_wrappers(eng)
    lib.install_assoc_model(eng)
    pmid, psid = eng.class_id(PersistentMap), eng.class_id(PersistentSet)
    for f in ("_methods", "_cache", "_prefers"):
        eng.field_types[("MultiFunction", f)] = lambda v: (z3.And(V.is_ref(v), V.cls_of(V.Val.a(v)) == pmid), PersistentMap)
    Monitor("_lock", owned=[]).install(eng, st)  # threading.Lock: mutual exclusion of the mutators (nothing racy is claimed)
    eng.opaque_havoc = "none"
    self_t = z3.Const("arg.self", V.Val)

    def value_type(e, s, mapval):
        # entries of the preference table are persistent sets; method/cache tables hold arbitrary callables
        pinner = z3.Select(s.field_array("_inner"), V.Val.a(z3.Select(s.field_array("_prefers"), V.Val.a(self_t))))
        if z3.eq(z3.simplify(mapval.t), z3.simplify(pinner)):
            return OBJ(PersistentSet)
        return None

    eng.value_type = value_type
    # dispatch values are not booleans/ratios (as map keys Python would identify True with 1): an obligation at each use
    eng.key_type = T(lambda v: z3.Not(z3.Or(V.is_bool(v), V.is_frac(v))), None, "non-bool, non-ratio dispatch value")

    def is_a(e, s, args, k):
        # trusted: (isa? @hierarchy tag parent) of core.lpy, a pure relation of the current hierarchy value
        self, tag, parent = args
        yield s, SV(V.mk_bool(ISA(HCUR, e.lift(tag, s), e.lift(parent, s))))

    eng.method_models[(MultiFunction, "_is_a")] = Model("MultiFunction._is_a (isa? of core.lpy)", is_a)


def wf(a):
    """Type facts of the three tables (established by __init__ and kept by every mutator)."""
    MultiFunction, PersistentMap, PersistentSet = _cls()
    st = a.pre.st
    m, d = tbl(st, a.self, "_prefers")
    mm_, dm_ = tbl(st, a.self, "_methods")
    def old_obj(t):  # objects that exist before the call are not among those the call allocates
        return z3.And(V.is_ref(t), V.Val.a(t) <= 0)

    tables = [z3.Select(st.field_array(f), V.Val.a(a.self)) for f in ("_methods", "_cache", "_prefers")]
    inners = [z3.Select(st.field_array("_inner"), V.Val.a(t)) for t in tables]
    return z3.And(
        isa_axioms(),
        *[old_obj(t) for t in tables + inners],
        z3.ForAll([x], z3.Implies(z3.Select(d, x), z3.And(old_obj(z3.Select(m, x)), old_obj(z3.Select(st.field_array("_inner"), V.Val.a(z3.Select(m, x)))))), patterns=[z3.Select(d, x)]),
        z3.ForAll([x], z3.Implies(z3.Select(d, x), z3.And(V.is_ref(z3.Select(m, x)), V.cls_of(V.Val.a(z3.Select(m, x))) == a.eng.class_id(PersistentSet))), patterns=[z3.Select(d, x)]),
        # the search uses None as "nothing found yet": a method is never None and nil is not a dispatch value
        z3.Not(z3.Select(dm_, V.VNone)),
        z3.ForAll([x], z3.Implies(z3.Select(dm_, x), z3.Not(z3.Or(V.is_bool(x), V.is_frac(x)))), patterns=[z3.Select(dm_, x)]),
        z3.Not(z3.Or(V.is_bool(a.key), V.is_frac(a.key))),
        z3.Not(z3.Or(V.is_bool(a.pre.field(a.self, "_default")), V.is_frac(a.pre.field(a.self, "_default")))),
        z3.ForAll([x], z3.Implies(z3.Select(dm_, x), z3.Not(V.is_none(z3.Select(mm_, x)))), patterns=[z3.Select(dm_, x)]),
    )


def build(active_known=frozenset()):
    MultiFunction, PersistentMap, PersistentSet = _cls()
    pack = Pack("C18", "Multimethod dispatch depends only on the current methods, preferences, hierarchy")
    pack.trust("isa? (core.lpy) is a reflexive, transitive relation of the hierarchy value; derive/underive/parents/ancestors/descendants consistency is Lisp and not covered")
    pack.trust("immutables.Map iterates its entries in an arbitrary order, each exactly once (modelled as an uninterpreted bijection)")
    pack.assume("the hierarchy reference does not change during one get_method call")
    mod = "basilisp.lang.multifn"

    def matches(st, mf, key, m_):
        _, d = tbl(st, mf, "_methods")
        return z3.And(z3.Select(d, m_), ISA(HCUR, key, m_))

    def coherent(a):
        """Carve-out of the known finding: on the keys matching `key`, dominance is transitive and antisymmetric
        (declared preferences consistent with each other and with the hierarchy)."""
        st = a.pre.st
        mt = lambda v: matches(st, a.self, a.key, v)  # noqa: E731
        dm = lambda p, q: DOM(st, a.self, p, q)  # noqa: E731
        ik = lambda v: ISA(HCUR, a.key, v)  # noqa: E731  (trigger: every matching key is mentioned like this)
        return z3.And(
            z3.ForAll([x, y, w], z3.Implies(z3.And(mt(x), mt(y), mt(w), dm(x, y), dm(y, w)), dm(x, w)), patterns=[z3.MultiPattern(ik(x), ik(y), ik(w))]),
            z3.ForAll([x, y], z3.Implies(z3.And(mt(x), mt(y), dm(x, y), dm(y, x)), x == y), patterns=[z3.MultiPattern(ik(x), ik(y))]),
        )

    # ------------------------------------------------------------------ _find_and_cache_method
    c = pack.contract(f"{mod}:MultiFunction._find_and_cache_method")
    c.param("self", OBJ(MultiFunction))
    c.setup(setup)
    c.requires("tables are well-typed; isa? is reflexive and transitive", wf)
    if "C18-nontransitive-dominance" in active_known:
        c.requires("[carve-out of known finding C18-nontransitive-dominance] dominance is transitive and antisymmetric on the matching keys", coherent)
    B = z3.Const("B.best", V.Val)

    def post_best(a):
        st = a.pre.st
        m, d = tbl(st, a.self, "_methods")
        dominating = z3.And(matches(st, a.self, a.key, B), z3.ForAll([x], z3.Implies(matches(st, a.self, a.key, x), DOM(st, a.self, B, x))))
        return z3.Implies(dominating, a.result == z3.Select(m, B))

    c.ensures("if a match dominates every match, its method is returned (B arbitrary: generalisation constant)", post_best)

    def post_default(a):
        st = a.pre.st
        m, d = tbl(st, a.self, "_methods")
        dflt = a.pre.field(a.self, "_default")
        return z3.Implies(z3.Not(z3.Exists([x], matches(st, a.self, a.key, x))), a.result == z3.If(z3.Select(d, dflt), z3.Select(m, dflt), V.VNone))

    c.ensures("when nothing matches, the default method (or None) is returned", post_default)

    def post_cache(a):
        m1, d1 = tbl(a.post.st, a.self, "_cache")
        m0, d0 = tbl(a.pre.st, a.self, "_cache")
        k = a.key
        return z3.And(
            z3.Implies(z3.Not(V.is_none(a.result)), z3.And(z3.Select(d1, k), z3.Select(m1, k) == a.result)),
            z3.ForAll([x], z3.Implies(x != k, z3.And(z3.Select(d1, x) == z3.Select(d0, x), z3.Select(m1, x) == z3.Select(m0, x)))),
        )

    c.ensures("the answer is cached under the dispatch value and no other cache entry changes", post_cache)
    def some_match_dominates(a):
        st = a.pre.st
        return z3.Exists([y], z3.And(matches(st, a.self, a.key, y), z3.ForAll([x], z3.Implies(matches(st, a.self, a.key, x), DOM(st, a.self, y, x)), patterns=[ISA(HCUR, a.key, x)])))

    def comparable_when_unique(a):
        """Carve-out of the known finding C18-eager-ambiguity: when some match dominates all matches, every two matches are
        comparable (then the loop's pairwise test against the best key so far cannot fail before the dominating one is seen)."""
        st = a.pre.st
        mt = lambda v: matches(st, a.self, a.key, v)  # noqa: E731
        ik = lambda v: ISA(HCUR, a.key, v)  # noqa: E731
        return z3.Implies(some_match_dominates(a),
                          z3.ForAll([x, y], z3.Implies(z3.And(mt(x), mt(y)), z3.Or(DOM(st, a.self, x, y), DOM(st, a.self, y, x))), patterns=[z3.MultiPattern(ik(x), ik(y))]))

    if "C18-eager-ambiguity" in active_known:
        c.requires("[carve-out of known finding C18-eager-ambiguity] if some match dominates every match, any two matches are comparable", comparable_when_unique)
    c.raises_only_if(
        "an ambiguity error is raised only when the choice is ambiguous: no matching key dominates every matching key",
        (Exception,),
        lambda a: z3.Not(some_match_dominates(a)),
    )

    def find_inv(ctx):
        st = ctx.st
        pre = ctx.entry.st
        mf, key = ctx["self"], ctx["key"]
        m, d = tbl(pre, mf, "_methods")
        ks = ctx.it.keys_seq
        pos = ks.inv
        bk, bm = ctx["best_key"], ctx["best_method"]
        visited = lambda v: z3.And(matches(pre, mf, key, v), pos(v) < ctx.i)  # noqa: E731
        return [
            ("no best key yet means no visited key matches",
             z3.Implies(V.is_none(bk), z3.ForAll([x], z3.Not(visited(x)), patterns=[pos(x)]))),
            ("the best key is a visited match, holds its method, and dominates every visited match",
             z3.Implies(z3.Not(V.is_none(bk)),
                        z3.And(visited(bk), bm == z3.Select(m, bk),
                               z3.ForAll([x], z3.Implies(visited(x), DOM(pre, mf, bk, x)), patterns=[pos(x)])))),
            ("best_method is None exactly while best_key is None (methods are never None)", z3.Implies(V.is_none(bk), V.is_none(bm))),
            ("the tables are untouched inside the loop", z3.And(*[ctx.field(mf, f) == ctx.entry.field(mf, f) for f in ("_methods", "_cache", "_prefers", "_default")])),
        ]

    c.loop(0, invariant=find_inv, frame=[], lists=False)
    pack.find_inv = find_inv

    def rp_order(m, ctx, ob):
        return WITNESS_ORDER

    c.replay(rp_order)
    c.replay_without_model = True
    add_cache_contracts(pack, matches, coherent, active_known)
    return pack


# ----------------------------------------------------------------------------- cache coherence
K = z3.Const("K.anykey", V.Val)  # generalisation constant: an arbitrary dispatch value
B = z3.Const("B.best", V.Val)


def answer(st, mf, key, r, matches):
    """`r` is the spec's answer for dispatch value `key` under the tables of state st and the current hierarchy."""
    m, d = tbl(st, mf, "_methods")
    dflt = z3.Select(st.field_array("_default"), V.Val.a(mf))
    mt = lambda v: matches(st, mf, key, v)  # noqa: E731
    dominating = lambda b: z3.And(mt(b), z3.ForAll([x], z3.Implies(mt(x), DOM(st, mf, b, x)), patterns=[ISA(HCUR, key, x)]))  # noqa: E731
    return z3.And(
        z3.Implies(dominating(B), r == z3.Select(m, B)),
        z3.Implies(z3.Not(z3.Exists([x], mt(x))), r == z3.If(z3.Select(d, dflt), z3.Select(m, dflt), V.VNone)),
    )


def NE(a, b):
    """Python `a != b` as the code evaluates it (interpreted on scalars, opaque otherwise)."""
    from pyvc import ops

    return ops.ne_term(None, a, b)


def cache_inv(st, mf, key, matches):
    """Every cache entry equals the answer computed from the *current* tables - as long as the cache was
    filled under the current hierarchy value (otherwise get_method resets it first)."""
    mc, dc = tbl(st, mf, "_cache")
    hc = z3.Select(st.field_array("_cached_hierarchy"), V.Val.a(mf))
    return z3.Implies(z3.And(z3.Not(NE(hc, HCUR)), z3.Select(dc, key)), z3.And(z3.Not(V.is_none(z3.Select(mc, key))), answer(st, mf, key, z3.Select(mc, key), matches)))


def add_cache_contracts(pack, matches, coherent, active_known):
    MultiFunction, PersistentMap, PersistentSet = _cls()
    mod = "basilisp.lang.multifn"
    carve = "C18-nontransitive-dominance" in active_known

    class HierRef:  # stand-in class for the IRef holding the hierarchy (Var or Atom): only deref is used
        pass

    def csetup(eng, st):
        setup(eng, st)
        hid = eng.class_id(HierRef)
        eng.field_types[("MultiFunction", "_hierarchy")] = lambda v: (z3.And(V.is_ref(v), V.cls_of(V.Val.a(v)) == hid), HierRef)
        eng.method_models[(HierRef, "deref")] = Model("IRef.deref (current hierarchy value)", lambda e, s, a, k: iter([(s, SV(HCUR))]))
        from pyvc.loops import LoopSpec

        # get_method inlines the search: its loop carries the same invariant as in the search's own proof
        eng.loop_specs[(f"{mod}:MultiFunction._find_and_cache_method", 0)] = LoopSpec(invariant=pack.find_inv, frame=[], lists=False)

    def common(c, keyparam=True):
        c.param("self", OBJ(MultiFunction))
        c.setup(csetup)
        c.requires("tables are well-typed; isa? is reflexive and transitive", wf if keyparam else wf_nokey)
        c.requires("a hierarchy value is not != itself", lambda a: z3.Not(NE(HCUR, HCUR)))

    def wf_nokey(a):
        class _A:  # wf() mentions a.key: for functions without a `key` parameter use the generic K
            pass

        b = _A()
        b.__dict__.update(eng=a.eng, pre=a.pre, self=a.self, key=K)
        return wf(b)

    def with_key(a, key):
        class _A:
            pass

        b = _A()
        b.__dict__.update(eng=a.eng, pre=a.pre, post=a.post, self=a.self, key=key)
        return b

    # the same search also has to establish the existence clause of `answer`
    cf = [k for k in pack.contracts if k.key.endswith("_find_and_cache_method") and not k.modular][0]
    cf.ensures("if anything matches, the result is the method of a match that dominates every match",
               lambda a: z3.Implies(z3.Exists([x], matches(a.pre.st, a.self, a.key, x)),
                                    z3.Exists([y], z3.And(matches(a.pre.st, a.self, a.key, y),
                                                          z3.ForAll([x], z3.Implies(matches(a.pre.st, a.self, a.key, x), DOM(a.pre.st, a.self, y, x)), patterns=[ISA(HCUR, a.key, x)]),
                                                          a.result == z3.Select(tbl(a.pre.st, a.self, "_methods")[0], y)))))

    # ---- get_method
    c = pack.contract(f"{mod}:MultiFunction.get_method")
    common(c)
    if carve:
        c.requires("[carve-out] dominance is transitive and antisymmetric on the matching keys", coherent)
        c.requires("[carve-out] ... and on the keys matching the arbitrary dispatch value K", lambda a: coherent(with_key(a, K)))
    c.requires("cache invariant for this dispatch value", lambda a: cache_inv(a.pre.st, a.self, a.key, matches))
    c.requires("cache invariant for an arbitrary other dispatch value K", lambda a: z3.And(cache_inv(a.pre.st, a.self, K, matches), z3.Not(z3.Or(V.is_bool(K), V.is_frac(K)))))
    c.ensures("the method returned is the spec's answer from the current methods, preferences and hierarchy - whatever was cached", lambda a: answer(a.pre.st, a.self, a.key, a.result, matches))
    c.ensures("the method/preference tables are not changed", lambda a: z3.And(*[tbl(a.post.st, a.self, f)[i] == tbl(a.pre.st, a.self, f)[i] for f in ("_methods", "_prefers") for i in (0, 1)]))
    c.ensures("the cache invariant holds afterwards (for the arbitrary K)", lambda a: cache_inv(a.post.st, a.self, K, matches))

    # ---- mutators re-establish the cache invariant for every key
    def mutator(name, extra_requires=None):
        c = pack.contract(f"{mod}:MultiFunction.{name}")
        common(c, keyparam=False)
        c.requires("K is an arbitrary dispatch value (not a boolean/ratio)", lambda a: z3.Not(z3.Or(V.is_bool(K), V.is_frac(K), V.is_none(K))))
        if carve:
            c.requires("[carve-out] after the change, dominance is antisymmetric on the keys matching K", lambda a: z3.BoolVal(True))
        c.ensures("cache invariant for every dispatch value after the mutation (K arbitrary)", lambda a: cache_inv_post(a))
        return c

    def cache_inv_post(a):
        st = a.post.st
        inv = cache_inv(st, a.self, K, matches)
        if carve:
            # antisymmetry of dominance among the matches of K in the *new* tables (carve-out of the known finding)
            mt = lambda v: matches(st, a.self, K, v)  # noqa: E731
            anti = z3.ForAll([x, y], z3.Implies(z3.And(mt(x), mt(y), DOM(st, a.self, x, y), DOM(st, a.self, y, x)), x == y), patterns=[z3.MultiPattern(ISA(HCUR, K, x), ISA(HCUR, K, y))])
            return z3.Implies(anti, inv)
        return inv

    c = mutator("add_method")
    c.requires("the key is a proper dispatch value and the method is not None", lambda a: z3.And(z3.Not(z3.Or(V.is_bool(a.key), V.is_frac(a.key), V.is_none(a.key))), z3.Not(V.is_none(a.method))))
    c.ensures("exactly this method is added", lambda a: (lambda m1, d1, m0, d0: z3.And(m1 == z3.Store(m0, a.key, a.method), d1 == z3.Store(d0, a.key, True)))(*tbl(a.post.st, a.self, "_methods"), *tbl(a.pre.st, a.self, "_methods")))
    c = mutator("remove_method")
    c.requires("the key is a proper dispatch value", lambda a: z3.Not(z3.Or(V.is_bool(a.key), V.is_frac(a.key), V.is_none(a.key))))
    c.requires("a stored method is a truthy object (remove_method tests `if method:`)",
               lambda a: (lambda m0, d0: z3.Implies(z3.Select(d0, a.key), a.eng.truthy_term(SV(z3.Select(m0, a.key)), a.pre.st)))(*tbl(a.pre.st, a.self, "_methods")))
    c.ensures("exactly this key is removed", lambda a: (lambda m1, d1, m0, d0: z3.And(d1 == z3.Store(d0, a.key, False)))(*tbl(a.post.st, a.self, "_methods"), *tbl(a.pre.st, a.self, "_methods")))
    c = mutator("remove_all_methods")
    c.ensures("no method is left", lambda a: tbl(a.post.st, a.self, "_methods")[1] == z3.K(V.Val, z3.BoolVal(False)))
    c = mutator("prefer_method")
    c.requires("proper dispatch values", lambda a: z3.And(*[z3.Not(z3.Or(V.is_bool(v), V.is_frac(v), V.is_none(v))) for v in (a.preferred_key, a.other_key)]))
    P1, P2 = z3.Const("any_preferred", V.Val), z3.Const("any_other", V.Val)

    def proper(v):
        return z3.Not(z3.Or(V.is_bool(v), V.is_frac(v), V.is_none(v)))

    c.ensures("exactly this preference is declared: afterwards p is preferred over o iff it was before or (p, o) is the declared pair - nothing is lost, nothing else is "
              "gained (P1, P2 arbitrary)",
              lambda a: z3.Implies(z3.And(proper(P1), proper(P2)),
                                   PREF(a.post.st, a.self, P1, P2) == z3.Or(PREF(a.pre.st, a.self, P1, P2), z3.And(P1 == a.preferred_key, P2 == a.other_key))))
    c.ensures("the methods are untouched", lambda a: z3.And(*[tbl(a.post.st, a.self, "_methods")[i] == tbl(a.pre.st, a.self, "_methods")[i] for i in (0, 1)]))
    c.ensures_on_raise("a refused preference changes nothing", lambda a: z3.And(*[tbl(a.post.st, a.self, f)[i] == tbl(a.pre.st, a.self, f)[i] for f in ("_methods", "_prefers") for i in (0, 1)]))
    c.raises_only_if("refused only when the opposite preference is already declared", (Exception,), lambda a: PREF(a.pre.st, a.self, a.other_key, a.preferred_key))
    c.replay(lambda m, ctx, ob: PREFER_REPLAY)
    c.replay_without_model = True


PREFER_REPLAY = r'''
from basilisp import main as bm; bm.init()
import importlib; importlib.import_module("basilisp.core")
from basilisp.lang import multifn, keyword as kw, symbol as sym, atom, map as lmap, set as lset
A, B, C, D = (kw.keyword(n, ns="c18p") for n in "abcd")
bad = []
def fresh():
    return multifn.MultiFunction(sym.symbol("c18-prefer"), lambda v: v, kw.keyword("default"), atom.Atom(lmap.EMPTY))
def prefs(mf):
    return {k: set(v) for k, v in mf.prefers.items()}
mf = fresh()
mf.prefer_method(A, B); mf.prefer_method(A, C)
if prefs(mf) != {A: {B, C}}:
    bad.append("a>b then a>c gives %r, expected {a #{b c}}" % (prefs(mf),))
mf = fresh()
mf.prefer_method(B, C); mf.prefer_method(A, B)
if prefs(mf) != {B: {C}, A: {B}}:
    bad.append("b>c then a>b gives %r, expected {b #{c}, a #{b}}" % (prefs(mf),))
mf = fresh()
mf.prefer_method(A, B)
try:
    mf.prefer_method(B, A)
    bad.append("b>a accepted although a>b is declared")
except Exception:
    if prefs(mf) != {A: {B}}:
        bad.append("a refused preference changed the table: %r" % (prefs(mf),))
for line in bad:
    print(line)
print("REPRODUCED" if bad else "not reproduced")
'''


WITNESS_ORDER = r'''
import os, subprocess, sys
prog = r"""
from basilisp import main as bm; bm.init()
import importlib; importlib.import_module('basilisp.core')
from basilisp.lang import runtime, symbol as sym, keyword as kw, multifn, atom, map as lmap
core = lambda n: runtime.Var.find_safe(sym.symbol(n, ns='basilisp.core')).value
h = core('make-hierarchy')()
X, A, B, C = (kw.keyword(n, ns='c18') for n in 'xabc')
for p in (A, B, C):
    h = core('derive')(h, X, p)
href = atom.Atom(h)
mf = multifn.MultiFunction(sym.symbol('c18-mm'), lambda v: v, kw.keyword('default'), href)
for k in (A, B, C):
    mf.add_method(k, (lambda k: lambda v: k)(k))
mf.prefer_method(A, B); mf.prefer_method(B, C)
try:
    print('RESULT', mf(X))
except Exception as e:
    print('RESULT', type(e).__name__)
"""
outs = {}
for seed in range(1, 13):
    env = dict(os.environ, PYTHONHASHSEED=str(seed))
    r = subprocess.run([sys.executable, '-c', prog], capture_output=True, text=True, env=env, timeout=120)
    line = [l for l in r.stdout.splitlines() if l.startswith('RESULT')]
    outs[seed] = line[0] if line else 'ERR ' + r.stderr[-200:]
print('same methods, preferences (A>B, B>C) and hierarchy (x isa a, b, c); only the hash seed, i.e. the table iteration order, varies:')
for s, o in outs.items():
    print('  PYTHONHASHSEED=%d -> %s' % (s, o))
print('REPRODUCED' if len(set(outs.values())) > 1 else 'not reproduced')
'''
