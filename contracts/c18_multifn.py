"""C18 - multimethod dispatch depends only on the current methods, preferences and hierarchy.

``isa?`` (Lisp, core.lpy) is an uninterpreted relation ISA(H, tag, parent) indexed by the
hierarchy value, assumed reflexive and transitive.  Spec, from the property statement:

    matches(k)   = { m in dom(methods) | ISA(k, m) }
    dom(x, y)    = prefers(x, y) or ISA(x, y)
    best(k)      = the match that dominates every match
    get_method   = methods[best(k)], else methods[default], else None; ambiguity raises

The search loop iterates the method table in an **arbitrary order** (hash order of an
immutables.Map): the enumeration is an uninterpreted bijection, so a proof is a proof for
every order - "never depends on the order in which methods were added".  The cache is
covered by the invariant "every cache entry equals the spec's answer" (get_method,
_reset_cache, the mutators).
"""
import z3

from pyvc import vals as V
from pyvc import lib
from pyvc.contract import Pack, T, OBJ, ANY
from pyvc.engine import SV, Model, Raise, Exc, Unsupported
from pyvc.monitor import Monitor

ISA = z3.Function("ISA", V.Val, V.Val, V.Val, z3.BoolSort())  # (hierarchy value, tag, parent)
HCUR = z3.Const("hierarchy.current", V.Val)
x, y, w = z3.Consts("x y w", V.Val)


def _cls():
    from basilisp.lang.multifn import MultiFunction
    from basilisp.lang.map import PersistentMap
    from basilisp.lang.set import PersistentSet

    return MultiFunction, PersistentMap, PersistentSet


def tbl(st, mf, fname):
    pm = z3.Select(st.field_array(fname), V.Val.a(mf))
    inner = z3.Select(st.field_array("_inner"), V.Val.a(pm))
    return V.map_of(V.Val.a(inner)), V.dom_of(V.Val.a(inner))


def PREF(st, mf, a, b):
    m, d = tbl(st, mf, "_prefers")
    s = z3.Select(m, a)
    sinner = z3.Select(st.field_array("_inner"), V.Val.a(s))
    return z3.And(z3.Select(d, a), z3.Select(V.dom_of(V.Val.a(sinner)), b))


def DOM(st, mf, a, b):
    return z3.Or(PREF(st, mf, a, b), ISA(HCUR, a, b))


def isa_axioms():
    return z3.And(
        z3.ForAll([x], ISA(HCUR, x, x), patterns=[ISA(HCUR, x, x)]),
        z3.ForAll([x, y, w], z3.Implies(z3.And(ISA(HCUR, x, y), ISA(HCUR, y, w)), ISA(HCUR, x, w)), patterns=[z3.MultiPattern(ISA(HCUR, x, y), ISA(HCUR, y, w))]),
    )


def setup(eng, st):
    MultiFunction, PersistentMap, PersistentSet = _cls()
    lib.install(eng)
    lib.install_wrappers(eng)
    lib.install_assoc_model(eng)
    pmid, psid = eng.class_id(PersistentMap), eng.class_id(PersistentSet)
    for f in ("_methods", "_cache", "_prefers"):
        eng.field_types[("MultiFunction", f)] = lambda v: (z3.And(V.is_ref(v), V.cls_of(V.Val.a(v)) == pmid), PersistentMap)
    Monitor("_lock", owned=[]).install(eng, st)  # threading.Lock: mutual exclusion of the mutators (nothing racy is claimed)
    eng.opaque_havoc = "none"
    self_t = z3.Const("arg.self", V.Val)

    def value_type(e, s, mapval):
        # entries of the preference table are persistent sets; method/cache tables hold arbitrary callables
        pinner = z3.Select(s.field_array("_inner"), V.Val.a(z3.Select(s.field_array("_prefers"), V.Val.a(self_t))))
        if z3.eq(z3.simplify(mapval.t), z3.simplify(pinner)):
            return OBJ(PersistentSet)
        return None

    eng.value_type = value_type
    # dispatch values are not booleans/ratios (as map keys Python would identify True with 1): an obligation at each use
    eng.key_type = T(lambda v: z3.Not(z3.Or(V.is_bool(v), V.is_frac(v))), None, "non-bool, non-ratio dispatch value")

    def is_a(e, s, args, k):
        # trusted: (isa? @hierarchy tag parent) of core.lpy, a pure relation of the current hierarchy value
        self, tag, parent = args
        yield s, SV(V.mk_bool(ISA(HCUR, e.lift(tag, s), e.lift(parent, s))))

    eng.method_models[(MultiFunction, "_is_a")] = Model("MultiFunction._is_a (isa? of core.lpy)", is_a)


def wf(a):
    """Type facts of the three tables (established by __init__ and kept by every mutator)."""
    MultiFunction, PersistentMap, PersistentSet = _cls()
    st = a.pre.st
    m, d = tbl(st, a.self, "_prefers")
    mm_, dm_ = tbl(st, a.self, "_methods")
    return z3.And(
        isa_axioms(),
        z3.ForAll([x], z3.Implies(z3.Select(d, x), z3.And(V.is_ref(z3.Select(m, x)), V.cls_of(V.Val.a(z3.Select(m, x))) == a.eng.class_id(PersistentSet))), patterns=[z3.Select(d, x)]),
        # the search uses None as "nothing found yet": a method is never None and nil is not a dispatch value
        z3.Not(z3.Select(dm_, V.VNone)),
        z3.ForAll([x], z3.Implies(z3.Select(dm_, x), z3.Not(z3.Or(V.is_bool(x), V.is_frac(x)))), patterns=[z3.Select(dm_, x)]),
        z3.Not(z3.Or(V.is_bool(a.key), V.is_frac(a.key))),
        z3.Not(z3.Or(V.is_bool(a.pre.field(a.self, "_default")), V.is_frac(a.pre.field(a.self, "_default")))),
        z3.ForAll([x], z3.Implies(z3.Select(dm_, x), z3.Not(V.is_none(z3.Select(mm_, x)))), patterns=[z3.Select(dm_, x)]),
    )


def build(active_known=frozenset()):
    MultiFunction, PersistentMap, PersistentSet = _cls()
    pack = Pack("C18", "Multimethod dispatch depends only on the current methods, preferences, hierarchy")
    pack.trust("isa? (core.lpy) is a reflexive, transitive relation of the hierarchy value; derive/underive/parents/ancestors/descendants consistency is Lisp and not covered")
    pack.trust("immutables.Map iterates its entries in an arbitrary order, each exactly once (modelled as an uninterpreted bijection)")
    pack.assume("the hierarchy reference does not change during one get_method call")
    mod = "basilisp.lang.multifn"

    def matches(st, mf, key, m_):
        _, d = tbl(st, mf, "_methods")
        return z3.And(z3.Select(d, m_), ISA(HCUR, key, m_))

    def coherent(a):
        """Carve-out of the known finding: on the keys matching `key`, dominance is transitive and antisymmetric
        (declared preferences consistent with each other and with the hierarchy)."""
        st = a.pre.st
        mt = lambda v: matches(st, a.self, a.key, v)  # noqa: E731
        dm = lambda p, q: DOM(st, a.self, p, q)  # noqa: E731
        ik = lambda v: ISA(HCUR, a.key, v)  # noqa: E731  (trigger: every matching key is mentioned like this)
        return z3.And(
            z3.ForAll([x, y, w], z3.Implies(z3.And(mt(x), mt(y), mt(w), dm(x, y), dm(y, w)), dm(x, w)), patterns=[z3.MultiPattern(ik(x), ik(y), ik(w))]),
            z3.ForAll([x, y], z3.Implies(z3.And(mt(x), mt(y), dm(x, y), dm(y, x)), x == y), patterns=[z3.MultiPattern(ik(x), ik(y))]),
        )

    # ------------------------------------------------------------------ _find_and_cache_method
    c = pack.contract(f"{mod}:MultiFunction._find_and_cache_method")
    c.param("self", OBJ(MultiFunction))
    c.setup(setup)
    c.requires("tables are well-typed; isa? is reflexive and transitive", wf)
    if "C18-nontransitive-dominance" in active_known:
        c.requires("[carve-out of known finding C18-nontransitive-dominance] dominance is transitive and antisymmetric on the matching keys", coherent)
    B = z3.Const("B.best", V.Val)

    def post_best(a):
        st = a.pre.st
        m, d = tbl(st, a.self, "_methods")
        dominating = z3.And(matches(st, a.self, a.key, B), z3.ForAll([x], z3.Implies(matches(st, a.self, a.key, x), DOM(st, a.self, B, x))))
        return z3.Implies(dominating, a.result == z3.Select(m, B))

    c.ensures("if a match dominates every match, its method is returned (B arbitrary: generalisation constant)", post_best)

    def post_default(a):
        st = a.pre.st
        m, d = tbl(st, a.self, "_methods")
        dflt = a.pre.field(a.self, "_default")
        return z3.Implies(z3.Not(z3.Exists([x], matches(st, a.self, a.key, x))), a.result == z3.If(z3.Select(d, dflt), z3.Select(m, dflt), V.VNone))

    c.ensures("when nothing matches, the default method (or None) is returned", post_default)

    def post_cache(a):
        m1, d1 = tbl(a.post.st, a.self, "_cache")
        m0, d0 = tbl(a.pre.st, a.self, "_cache")
        k = a.key
        return z3.And(
            z3.Implies(z3.Not(V.is_none(a.result)), z3.And(z3.Select(d1, k), z3.Select(m1, k) == a.result)),
            z3.ForAll([x], z3.Implies(x != k, z3.And(z3.Select(d1, x) == z3.Select(d0, x), z3.Select(m1, x) == z3.Select(m0, x)))),
        )

    c.ensures("the answer is cached under the dispatch value and no other cache entry changes", post_cache)
    c.raises_only_if(
        "an ambiguity error is raised only if two matching keys do not dominate each other in the required direction",
        (Exception,),
        lambda a: z3.Exists([x, y], z3.And(matches(a.pre.st, a.self, a.key, x), matches(a.pre.st, a.self, a.key, y), z3.Not(DOM(a.pre.st, a.self, x, y)))),
    )

    def find_inv(ctx):
        st = ctx.st
        pre = ctx.entry.st
        mf, key = ctx["self"], ctx["key"]
        m, d = tbl(pre, mf, "_methods")
        ks = ctx.it.keys_seq
        pos = ks.inv
        bk, bm = ctx["best_key"], ctx["best_method"]
        visited = lambda v: z3.And(matches(pre, mf, key, v), pos(v) < ctx.i)  # noqa: E731
        return [
            ("no best key yet means no visited key matches",
             z3.Implies(V.is_none(bk), z3.ForAll([x], z3.Not(visited(x)), patterns=[pos(x)]))),
            ("the best key is a visited match, holds its method, and dominates every visited match",
             z3.Implies(z3.Not(V.is_none(bk)),
                        z3.And(visited(bk), bm == z3.Select(m, bk),
                               z3.ForAll([x], z3.Implies(visited(x), DOM(pre, mf, bk, x)), patterns=[pos(x)])))),
            ("best_method is None exactly while best_key is None (methods are never None)", z3.Implies(V.is_none(bk), V.is_none(bm))),
            ("the tables are untouched inside the loop", z3.And(*[ctx.field(mf, f) == ctx.entry.field(mf, f) for f in ("_methods", "_cache", "_prefers", "_default")])),
        ]

    c.loop(0, invariant=find_inv, frame=[], lists=False)

    def rp_order(m, ctx, ob):
        return WITNESS_ORDER

    c.replay(rp_order)
    c.replay_without_model = True
    return pack


WITNESS_ORDER = r'''
import os, subprocess, sys
prog = r"""
from basilisp import main as bm; bm.init()
import importlib; importlib.import_module('basilisp.core')
from basilisp.lang import runtime, symbol as sym, keyword as kw, multifn, atom, map as lmap
core = lambda n: runtime.Var.find_safe(sym.symbol(n, ns='basilisp.core')).value
h = core('make-hierarchy')()
X, A, B, C = (kw.keyword(n, ns='c18') for n in 'xabc')
for p in (A, B, C):
    h = core('derive')(h, X, p)
href = atom.Atom(h)
mf = multifn.MultiFunction(sym.symbol('c18-mm'), lambda v: v, kw.keyword('default'), href)
for k in (A, B, C):
    mf.add_method(k, (lambda k: lambda v: k)(k))
mf.prefer_method(A, B); mf.prefer_method(B, C)
try:
    print('RESULT', mf(X))
except Exception as e:
    print('RESULT', type(e).__name__)
"""
outs = {}
for seed in range(1, 13):
    env = dict(os.environ, PYTHONHASHSEED=str(seed))
    r = subprocess.run([sys.executable, '-c', prog], capture_output=True, text=True, env=env, timeout=120)
    line = [l for l in r.stdout.splitlines() if l.startswith('RESULT')]
    outs[seed] = line[0] if line else 'ERR ' + r.stderr[-200:]
print('same methods, preferences (A>B, B>C) and hierarchy (x isa a, b, c); only the hash seed, i.e. the table iteration order, varies:')
for s, o in outs.items():
    print('  PYTHONHASHSEED=%d -> %s' % (s, o))
print('REPRODUCED' if len(set(outs.values())) > 1 else 'not reproduced')
'''
